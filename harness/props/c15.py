"""
C15 — schema build accepts a content model exactly when it is deterministic.

S  (Lean)  UPA over attributed words (child name, particle id) of Particle.toRx, relative to a finite
           alphabet Σ of names; EDC over opaque type ids             XsVerif/Props/C15.lean
O  (Lean)  upaOracle: exploration of normalised derivative states, every answer validated by the
           proved certificate / witness checkers                       XsVerif/Model/Upa.lean
M  (Lean)  port of check_model / distinguishable_paths / is_overlap / is_consistent
                                                                       XsVerif/Model/CheckModel.lean
I          the real schema build (XMLSchema10 / XMLSchema11), lax mode for batches + strict mode for
           a sample (exception class)

Per (version, model): I vs M = error kind of check_model, the sequence of distinguishable_paths calls
(pair, result) recorded on the real code, and the XSD 1.1 precedences; I vs O = the property.
The pinned check_model is a heuristic (known finding C15-F0, call site models.py:36-180): a deviation
of the build outcome from the oracle is *known* iff the Lean port gives the same outcome as the real
code on that model; any other deviation is a violation.  (C15-F1 and C15-F2 are fixed and never matched.)

Proved about the port and re-checked against the oracle on every run: exact on the families 'flat-choice'
and 'flat-seq' (checkModel_refines_partial / checkModel_refines_flat_seq_partial); an EDC error of the port
implies an EDC violation whenever the driver's `tie` holds (checkModel_edc_error_sound); the models of the
counter-example theorems (corpus/C15/theorem-witnesses.json, with the outcome each theorem states) are
replayed first.  XSD 1.1 extras: wildcards with notQName ##defined / ##definedSibling (port: is_matching
without group, so only ##defined counts; S/O: the tokens expanded to the names they denote) and models
under xs:openContent (check_model must behave as without it; S/O read the explicit model).
"""
from __future__ import annotations

import json
import os
from typing import Any, Optional

from harness.core import Ctx, Driver, VERIF, LEAN
from harness import lib_cm as cm
from harness import lib_cm15 as c15

PROPS = 'XsVerif.Props.C15'
AUDIT = 'XsVerif.Audit.C15'
LEAN_TARGETS = ['XsVerif.Props.C15', 'drv_c15']
LEANCHECK = ['XsVerif.Model.Upa', 'XsVerif.Lemmas.Upa', 'XsVerif.Model.CheckModel', 'XsVerif.Lemmas.CheckModel',
             'XsVerif.Lemmas.CheckModelFlat', 'XsVerif.Lemmas.FlatSeqLang', 'XsVerif.Lemmas.CheckModelSeq',
             'XsVerif.Lemmas.CheckModelErr', 'XsVerif.Lemmas.CheckModelSeqRep', 'XsVerif.Props.C15']
RULE = ('case = (XSD version, content model). Models: the complete family with ≤2 leaves over {a,b}, sequence/choice '
        'nested to depth 2, occurrences from {1,?,*,{1,2}} (46k models per version, complete in the thorough tier, sampled '
        'in the quick tier), every choice of ≤3 plain element references (the fragment of checkModel_refines_partial), '
        'every sequence{1,1}/{0,1} of ≤3 plain element references (the fragment of checkModel_refines_flat_seq_partial), '
        'every repeating sequence ({0,∞},{1,∞},{2,2},{1,2}) of ≤3 plain element references (checkModel_flat_seq_refusal_sound), '
        'dp-shapes: repeating and non-repeating choices/sequences of 2-3 branches that are leaves or nested groups (depth ≤3, '
        'optional/required/univocal mixes) with one name in two branches, selected from 40 000 seeded candidates so that every '
        'reachable case of distinguishable_paths (common-group kind and maxOccurs, before1/2, after1/2, univocal1/2, univocal '
        'leaves, depth; ~1 900 cases) gets ≥2 models, coverage measured on the recorded calls and printed in the evidence, '
        'XSD 1.1 wildcards with notQName ##defined / ##definedSibling among the wildcard forms, models under XSD 1.1 '
        'open content (interleave / suffix), '
        'seeded members of the same family with all of {1,?,*,+,{2,2},{1,2},{0,0}}, with a wildcard '
        'leaf, and with 3 leaves, '
        'all pairs of leaves from {a, substitution head and members, 10 wildcard forms} in two-item sequences/choices, block dimension: 6 configurations of schema blockDefault (absent / substitution / #all) x block attribute of the substitution-group heads (absent / "" / substitution), each with every ordered pair of references into the two substitution groups in 4 competing shapes (196 models per configuration and version, tags block:<configuration>), edc-subst: {local element named like the head / member / member of the member of a substitution group whose members have other types than the head} x {its type = head\'s / member\'s / member-of-member\'s / another} x {before / after} x {reference to head / member / member of member} x {adjacent / separated / other choice branch} x {required / optional} (432 models per version, complete in both tiers), an Element-Declarations-Consistent family with local '
        'declarations and substitution-group members, seeded random larger models (depth ≤3, xs:all, substitution '
        'heads incl. a transitive member, local declarations, wildcards), the same with nested groups turned into '
        'references to named model groups, and models that reference one named group twice (shared particle objects). '
        'non-trivial = check_model reached the UPA stage for at least one pair of overlapping particles or raised '
        '(port trace non-empty or error; without Lean: some pair of leaves matches a common name); distinct by '
        'canonical JSON')
TRUSTED = ['alphabet Σ given to the oracle: every element name of the model (with substitution members), the names in '
           'notQName, and one fresh name per namespace region {target, urn:o, other, absent}; UPA is proved relative '
           'to Σ (a name outside Σ behaves like the representative of its region for every leaf of these models)',
           'names in the xsi namespace are not in Σ (is_namespace_allowed admits them for every positive wildcard)',
           'independent Glushkov position-automaton reference (harness/lib_cm15.py) cross-checks the proved oracle',
           'type identity (`is`) is serialised as small integers per schema']
ASSUMPTIONS = ['no type alternatives in the explored models: the type-table clauses of is_consistent (element vs wildcard, '
               'open-content wildcard vs element, strict=False) are then constantly true and are not ported; the '
               'open-content family checks on the real code that open content changes nothing in check_model',
               'open content is not a particle of the content model: it competes with nothing (XSD 1.1 UPA is about the '
               'particles of the explicit content model), so S/O read the explicit model only',
               '##defined / ##definedSibling are given to S/O by their denotation: the wildcard with the global element '
               'names of the schema / the names matched by the element particles of the model added to notQName',
               'XMLSchemaModelDepthError (models nested deeper than MAX_MODEL_DEPTH) is outside the explored sizes']

KNOWN_ID = 'C15-F0'
DP_PER_KEY = 2       # dp-shapes: models per case of distinguishable_paths (quick tier; x2 in the thorough tier)
WIT_EXPECT: dict = {}
# which of the proposed repairs (notes/fixes/C15-*.patch) the tree under test contains; the Lean port takes them as
# `Ctx.fx`.  Set by detect_fixes() before any model is judged.
# coverage of the cases of distinguishable_paths (lib_cm15.dp_key), measured on the recorded calls of the real code:
# case -> number of explored models with a call in that case
DP_MODELS: dict = {}
FX: dict = {'shared': False, 'repSeq': False, 'head10': False, 'edc10': False, 'edcLoop': False}
REPAIRED = ('shared', 'repSeq', 'head10', 'edc10', 'edcLoop')   # all in /repo since c5f567b (variant patched+edcLoop)
FX_WITNESS = {
    # flag: (XSD 1.1?, model, build outcome (True = accepted) that shows the repair is in the tree)
    'shared': (False, ('g', 'sequence', 1, 1, [('g', 'sequence', 1, 1, [('e', 'a', 0, 1)], 'ref'),
                                               ('g', 'sequence', 1, 1, [('e', 'a', 0, 1)], 'ref')]), False),
    'repSeq': (False, ('g', 'sequence', 1, 2, [('e', 'a', 1, 1), ('e', 'a', 0, 1)]), False),
    'head10': (False, ('g', 'choice', 1, 1, [('l', 'h', 1, 1, 'string'), ('e', 's', 1, 1)]), True),
    'edc10': (False, ('g', 'sequence', 1, 1, [('e', 'h', 1, 1), ('l', 's', 1, 1, 'int')]), False),
    # finding C15-F4 (notes/fixes/C15-edc-loop-variable.patch): (hd, b, md) is consistent; refused while the loop
    # variable of is_consistent leaks
    'edcLoop': (True, ('g', 'sequence', 1, 1, [('e', 'hd', 1, 1), ('e', 'b', 1, 1), ('e', 'md', 1, 1)]), True),
}


def detect_fixes() -> dict:
    """replays one witness per proposed repair on the real code: (G, G) with G = (a?) [C15-F3], (a, a?){1,2}
    [repeated sequence], XSD 1.0 (h:string | s) with a LOCAL h [is_overlap head guard], XSD 1.0 (h, s:int) [EDC
    through the substitution group]"""
    import warnings
    warnings.simplefilter('ignore')
    for k, (v11, ast, accepted_when_fixed) in FX_WITNESS.items():
        _, obs = observe([ast], v11)
        ob = obs[0]
        if ob is None or ob['other']:
            raise RuntimeError(f'C15: witness of repair {k} could not be built')
        FX[k] = (ob['kind'] is None) == accepted_when_fixed
    return FX


def merge_local_findings(ctx: Ctx) -> None:
    """findings of notes/findings/C15.json that the committed known_findings.json does not list yet (the integrator
    merges them): `ctx.known_hit` reads their status from `ctx.known`"""
    f = VERIF / 'notes' / 'findings' / 'C15.json'
    if not f.exists():
        return
    listed = {e.get('id') for e in ctx.known}
    for e in json.loads(f.read_text()).get('findings', []):
        if e.get('id') not in listed:
            ctx.known.append(dict(e, _local=True))


def variant() -> str:
    on = [k for k, v in FX.items() if v]
    core = [k for k in on if k != 'edcLoop']       # the four repairs of C15-all-combined.patch name the variant
    name = 'pinned' if not core else ('patched' if len(core) == len(FX) - 1 else 'partial:' + '+'.join(core))
    return name + ('+edcLoop' if FX['edcLoop'] else '')


def wit_expect(e: dict) -> dict:
    """expected outcome of a theorem witness on the tree under test: `impl_ok` may depend on one repair flag"""
    out = {k: e[k] for k in ('deterministic', 'edc')}
    io = e['impl_ok']
    out['impl_ok'] = (io['patched'] if FX[io['repair']] else io['pinned']) if isinstance(io, dict) else io
    return out
FUEL = 3000
PINNED_FILE = VERIF / 'corpus' / 'C15' / 'pinned-deviations.json'
_pinned: Optional[dict] = None


def pinned() -> dict:
    """deviating models of the seed-independent families, recorded per algorithm variant (fallback matcher when the
    Lean driver is unavailable): the pinned tree, the fully patched tree; a partially patched tree uses the union"""
    global _pinned
    if _pinned is None:
        _pinned = {'1.0': set(), '1.1': set(), 'C15-F4': {}}
        if PINNED_FILE.exists():
            data = json.loads(PINNED_FILE.read_text())
            pat = data.get('patched') or {}
            v = variant()
            for k in ('1.0', '1.1'):
                a, b = set(data.get(k, [])), set(pat.get(k, []))
                _pinned[k] = a if v.startswith('pinned') else (b if v.startswith('patched') else a | b)
            # finding C15-F4: EDC false alarms of the seed-independent families, only while the repair is absent
            _pinned['C15-F4'] = {k: set((data.get('C15-F4') or {}).get(k, [])) for k in ('1.0', '1.1')}
    return _pinned


def known_match(case: Any, detail: Any) -> Optional[str]:
    """C15-F0 (check_model is a heuristic) matches iff the Lean port of the pinned check_model gives the same
    outcome as the real code on this model.  Only when the Lean driver is unavailable (`port_ok` is None) the
    fallback is the recorded list of deviating models of the seed-independent families on the pinned tree."""
    if not isinstance(detail, dict):
        return None
    if detail.get('port_ok') is not None:
        if detail['port_ok'] != detail.get('impl_ok'):
            return None
        if (not FX['edcLoop'] and detail.get('impl_error') == 'edc' and detail.get('port') == 'edc'
                and detail.get('edc') is True):
            return 'C15-F4'       # is_consistent compares the type of the LAST substitute of self (leaked loop variable)
        if detail.get('shared') and detail.get('impl_ok') and not FX['shared']:
            return 'C15-F3'       # a particle object shared by two places of the model is never compared with itself
        return KNOWN_ID
    if (not FX['edcLoop'] and detail.get('impl_error') == 'edc'
            and case.get('model') in pinned().get('C15-F4', {}).get(case.get('v'), ())):
        return 'C15-F4'
    return KNOWN_ID if case.get('model') in pinned().get(case.get('v'), ()) else None


def observe(models: list[tuple], v11: bool) -> tuple[Any, list[Optional[dict]]]:
    """build the models in one lax schema and read what happened to each"""
    with c15.recording() as rec:
        schema = c15.build_schema(models, v11)
    type_ids: dict[int, int] = {}
    out: list[Optional[dict]] = []
    for k, ast in enumerate(models):
        if ast[0] == 'oc':
            ast = ast[3]
        xe = schema.elements.get(f'm{k}')
        if xe is None or not hasattr(xe.type, 'content') or not hasattr(xe.type.content, 'model'):
            out.append(None)
            continue
        group = xe.type.content
        kind, other = c15.model_error_kind(list(xe.type.errors))
        for comp in [group, xe] + list(group.iter_components()):
            if comp is not xe.type and comp.errors:
                other.extend(type(e).__name__ for e in comp.errors)
        intro = c15.Introspector15(group, type_ids)
        ids = intro.ids
        trace = [[ids.get(a, -1), ids.get(b, -1), r] for a, b, r in rec.calls.get(id(group), [])]
        out.append({'kind': kind, 'other': other, 'intro': intro, 'trace': trace, 'precs': intro.precedences(),
                    'dp': rec.flags.get(id(group), [])})
    return schema, out


def strict_outcome(ast: tuple, v11: bool) -> str:
    from xmlschema.validators.exceptions import XMLSchemaModelError
    try:
        c15.build_schema([ast], v11, validation='strict')
        return 'ok'
    except XMLSchemaModelError:
        return 'model-error'
    except Exception as e:       # noqa: BLE001
        return 'other:' + type(e).__name__


def py_overlap(ast: tuple) -> bool:
    c15.set_sibs(ast)
    ls = c15.leaves(ast)
    return any(any(c15.leaf_matches(x, s) and c15.leaf_matches(y, s) for s in c15.UNIVERSE)
               for i, x in enumerate(ls) for y in ls[i + 1:])


class BuildBroken(Exception):
    pass


def run_batch(ctx: Ctx, drv: Optional[Driver], models: list[tuple], v11: bool, fam: str, strict_p: float) -> None:
    """families named 'block:<configuration>' are built and judged under that block configuration of the schema head
    (blockDefault of the schema x block attribute of the substitution-group heads, lib_cm15.BLOCK_CFGS)"""
    c15.set_block_cfg(fam[6:] if fam.startswith('block:') else None)
    try:
        _run_batch(ctx, drv, models, v11, fam, strict_p)
    finally:
        c15.set_block_cfg(None)


def _run_batch(ctx: Ctx, drv: Optional[Driver], models: list[tuple], v11: bool, fam: str, strict_p: float) -> None:
    try:
        _, obs = observe(models, v11)
    except Exception as e:       # noqa: BLE001 - a lax build must not raise, whatever the models are
        # find one model whose lax build raises on its own (all of them, if the meta-schema is refused)
        for ast in models[:5]:
            try:
                observe([ast], v11)
            except Exception as e1:       # noqa: BLE001
                case = {'v': '1.1' if v11 else '1.0', 'model': c15.show(ast), 'ast': ast}
                ctx.case(case, True, tag='build-raised')
                ctx.failure('schema construction in lax mode raised instead of recording the model errors', case,
                            {'exception': type(e1).__name__, 'message': str(e1)[:300]})
                raise BuildBroken from e1
        ctx.mismatch('lax build of a batch raised but none of its first models does alone', {'model': c15.show(models[0])},
                     type(e).__name__, None)
        return
    reqs, pend = [], []
    for full, ob in zip(models, obs):
        oc, ast = (full[1:3], full[3]) if full[0] == 'oc' else (None, full)
        if ob is None:
            ctx.count(f'{fam}:not-built')
            continue
        if ob['other']:
            ctx.count(f'{fam}:invalid-for-another-reason')
            continue
        intro = ob['intro']
        if c15.ast_of_json(intro.cjson) != c15.skeleton(ast):
            ctx.mismatch('parsed group differs from the declared model', {'model': c15.show(ast), 'block': c15.BLOCK_CFG},
                         c15.ast_of_json(intro.cjson), c15.skeleton(ast))
            # the particles do not match the names the declarations say (e.g. substitution members missing): the
            # oracle cannot be given the introspected names; judge the DECLARED model with the reference automaton
            ref0 = c15.glushkov_upa(ast, v11)
            if ref0 is not None and (ob['kind'] is None) != (ref0 and c15.edc_ref(ast)):
                case0 = {'v': '1.1' if v11 else '1.0', 'model': c15.show(ast), 'ast': full, 'block': c15.BLOCK_CFG}
                ctx.case(case0, True, tag=f"{case0['v']}/{fam}")
                ctx.failure('build outcome differs from determinism of the declared model, and the built particles do not '
                            'match the names the declarations give them', case0,
                            {'impl_ok': ob['kind'] is None, 'impl_error': ob['kind'], 'expected_ok': bool(ref0 and c15.edc_ref(ast)),
                             'built': c15.ast_of_json(intro.cjson), 'declared': c15.skeleton(ast)})
            continue
        if intro.shared:
            ctx.count('shared-particle-objects')
        if oc is not None:
            got = intro.open_content
            if got is None or got['mode'] != oc[0]:
                ctx.mismatch('open content of the generated model was not built', {'model': c15.show(ast), 'oc': list(oc)},
                             got, list(oc))
                continue
            ctx.count('open-content:' + oc[0])
        elif intro.open_content is not None:
            ctx.mismatch('unexpected open content', {'model': c15.show(ast)}, intro.open_content, None)
            continue
        reqs.append(dict(intro.request(v11, FUEL), fx=FX))
        pend.append((ast, ob, full))
    answers = drv.query(reqs) if drv is not None and reqs else [None] * len(reqs)
    for (ast, ob, full), ans in zip(pend, answers):
        case = {'v': '1.1' if v11 else '1.0', 'model': c15.show(ast), 'ast': full}
        if c15.BLOCK_CFG:
            case['block'] = c15.BLOCK_CFG
        if full[0] == 'oc':
            case['open_content'] = [full[1], full[2]]
        impl_ok = ob['kind'] is None
        ref = c15.glushkov_upa(ast, v11)
        edc_ref = c15.edc_ref(ast)
        if ctx.rng.random() < strict_p:
            so = strict_outcome(full, v11)
            ctx.count('strict:' + so)
            if (so == 'ok') != impl_ok or so.startswith('other'):
                ctx.failure('strict build outcome differs from the model error recorded by the lax build', case,
                            {'strict': so, 'lax_model_error': ob['kind']})
        if ans is None:
            # Lean unavailable: judge with the independent reference; known deviations cannot be recognised
            ctx.case(case, py_overlap(ast), tag=f"{case['v']}/{fam}")
            if ref is None:
                ctx.count('reference-unknown')
                continue
            expected = ref and edc_ref
            if impl_ok != expected:
                detail = {'impl_ok': impl_ok, 'impl_error': ob['kind'], 'expected_ok': expected, 'port_ok': None}
                fid = known_match(case, detail)
                if fid:
                    ctx.known_hit(fid)
                else:
                    ctx.failure('build outcome differs from determinism (judged by the reference automaton; Lean '
                                'oracle and port unavailable)', case, detail)
            continue
        if 'err' in ans:
            ctx.mismatch('driver error', case, None, ans)
            continue
        m, o = ans['m'], ans['o']
        ctx.case(case, bool(m['trace']) or m['res'] != 'ok', tag=f"{case['v']}/{fam}")
        # --- I vs M
        ctx.traces += 1
        impl_view = {'res': ob['kind'] or 'ok', 'trace': ob['trace'], 'precs': ob['precs']}
        port_view = {'res': m['res'], 'trace': m['trace'], 'precs': m['precs']}
        if impl_view != port_view:
            ctx.mismatch('check_model port vs implementation', case, impl_view, port_view)
        for k in set(ob['dp']):
            DP_MODELS[k] = DP_MODELS.get(k, 0) + 1
        ctx.count('outcome:' + impl_view['res'])
        ctx.count('dp-calls', len(ob['trace']))
        # --- O vs independent reference
        if o['upa'] == 'unknown':
            ctx.count('oracle-unknown(fuel)')
            continue
        det = o['upa'] == 'det'
        if ref is None:
            ctx.count('reference-unknown')
        elif ref != det:
            ctx.mismatch('proved oracle vs independent position automaton', case, ref, o)
        if ans['edc'] != edc_ref:
            ctx.mismatch('edcCheck vs generator-level reference', case, edc_ref, ans['edc'])
        # hypothesis of checkModel_edc_error_sound (the type table covers what the port reads) and the two keyings
        # of the type table agree
        if not ans['tie'] or ans['edc_p'] != ans['edc']:
            ctx.mismatch('type table given to the specification does not cover the element data given to the port',
                         case, {'tie': ans['tie'], 'edc_by_object': ans['edc_p']}, {'edc_by_occurrence': ans['edc']})
        if m['res'] == 'edc' and ans['edc_p'] and (FX['edcLoop'] or (not v11 and not FX['edc10'])):
            ctx.mismatch('port raises an EDC error on a consistent model: contradicts checkModel_edc_error_sound', case,
                         {'port': m}, {'edc': ans['edc_p']})
        if fam == 'theorem-witnesses':
            exp = WIT_EXPECT.get((case['v'], json.dumps(ast, default=list)))
            got = {'impl_ok': impl_ok, 'deterministic': det, 'edc': ans['edc']}
            exp = wit_expect(exp) if exp is not None else None
            if exp is not None and exp != got:
                ctx.mismatch('a counter-example theorem of Props/C15.lean does not replay on the real code', case, got, exp)
            ctx.count('theorem-witness-replayed')
        # --- the property on the real code
        expected = det and ans['edc']
        ctx.count('impl_ok=%s/deterministic=%s/edc=%s' % (impl_ok, det, ans['edc']))
        if fam in ('flat-choice', 'flat-seq') and (m['res'] == 'ok') != expected:
            # theorems checkModel_refines_partial / checkModel_refines_flat_seq_partial: on these fragments the port
            # is exact; a disagreement means the introspected data do not satisfy the theorem's guard
            # (serialisation / model drift)
            ctx.mismatch(fam + ' fragment: port vs oracle contradicts the exactness theorem of the fragment', case,
                         {'port': m['res']}, {'upa': o, 'edc': ans['edc']})
        if fam in ('flat-seq', 'flat-seq-rep') and m['res'] != 'ok' and det:
            ctx.mismatch('flat sequence refused by the port although deterministic: contradicts '
                         'checkModel_flat_seq_refusal_sound', case, {'port': m['res']}, {'upa': o})
        if impl_ok != expected:
            detail = {'impl_ok': impl_ok, 'impl_error': ob['kind'], 'expected_ok': expected, 'upa': o, 'edc': ans['edc'],
                      'port_ok': m['res'] == 'ok', 'port': m['res'], 'shared': ob['intro'].shared}
            fid = known_match(case, detail)
            if fid:
                ctx.known_hit(fid)
                ctx.count('known-deviation:' + ('accepts-nondeterministic' if impl_ok else 'refuses-deterministic'))
            else:
                ctx.failure('build outcome differs from determinism (UPA and EDC)', case, detail)


def families(ctx: Ctx, with_driver: bool = True):
    """yields (family, v11, models); without the Lean driver only the seed-independent families, whose
    deviations on the pinned tree are recorded in corpus/C15/pinned-deviations.json"""
    rng = ctx.rng
    core = c15.exh2_core()
    flat = c15.flat_choices()
    occ3 = [(1, 1), (0, 1), (0, None), (2, 2), (1, 2)]
    edc = c15.edc_models()
    edcs = c15.edc_subst_models()
    wit = json.loads((VERIF / 'corpus' / 'C15' / 'theorem-witnesses.json').read_text())['models']
    for m in wit:
        for v, e in (m.get('expect') or {}).items():
            WIT_EXPECT[(v, json.dumps(tup(m['ast']), default=list))] = e
    fseq = c15.flat_seqs()
    blk = c15.block_models()
    dps, _ = c15.dp_shapes(rng, DP_PER_KEY if ctx.quick() else 2 * DP_PER_KEY, 40000 if ctx.quick() else 100000) if with_driver else ([], {})
    fseqr = c15.flat_seqs_rep()
    for v11 in (False, True):
        yield 'theorem-witnesses', v11, [tup(m['ast']) for m in wit if ('1.1' if v11 else '1.0') in m['versions']]
        if with_driver:
            # half of the selection per XSD version (plain element references: the two versions run the same code)
            yield 'dp-shapes', v11, dps[(1 if v11 else 0)::2]
        yield 'exh2-core', v11, (rng.sample(core, 1500) if ctx.quick() else core)
        yield 'flat-choice', v11, (rng.sample(flat, 800) if ctx.quick() else flat)
        yield 'flat-seq', v11, (rng.sample(fseq, 700) if ctx.quick() else fseq)
        # without the Lean driver the known deviations are recognised by the recorded list, which predates the
        # ##defined / ##definedSibling forms
        wm = c15.wildcard_models(v11, tokens=with_driver)
        yield 'leaf-pairs', v11, (rng.sample(wm, min(len(wm), 600)) if ctx.quick() else wm)
        yield 'edc', v11, edc
        yield 'edc-subst', v11, edcs
        if not with_driver:
            continue
        yield 'flat-seq-rep', v11, (rng.sample(fseqr, 600) if ctx.quick() else fseqr)
        for cfg in c15.BLOCK_CFGS:          # block dimension: blockDefault x block of the heads (complete in both tiers)
            yield 'block:' + cfg, v11, blk
        yield 'exh2-allocc', v11, [c15.small_random(rng, rng.choice([1, 2, 2, 2]), ['a', 'b'], cm.OCC_SMALL)
                                   for _ in range(ctx.pick(1000, 15000))]
        yield 'exh2-any', v11, [c15.small_random(rng, 2, ['a'], cm.OCC_SMALL, any_p=0.5) for _ in range(ctx.pick(800, 15000))]
        yield 'exh3-sample', v11, [c15.small_random(rng, 3, ['a', 'b'], occ3) for _ in range(ctx.pick(1500, 25000))]
        yield 'random', v11, [c15.random_model(rng, v11) for _ in range(ctx.pick(1500, 25000))]
        refs = []
        while len(refs) < ctx.pick(800, 10000):
            m = c15.with_refs(rng, c15.random_model(rng, v11, max_depth=3), 0.6)
            if c15.has_refs(m):
                refs.append(m)
        yield 'group-refs', v11, refs
        yield 'shared-group-refs', v11, [c15.shared_ref_model(rng, v11) for _ in range(ctx.pick(500, 6000))]
        if v11:
            yield 'wildcard-tokens', v11, [c15.token_model(rng) for _ in range(ctx.pick(500, 8000))]
            yield 'open-content', v11, [c15.open_content_model(rng) for _ in range(ctx.pick(500, 8000))]


def dp_coverage(ctx: Ctx) -> None:
    """evidence: which cases of distinguishable_paths (kind and maxOccurs of the common group, before1/2, after1/2,
    univocal1/2, univocal leaves, depth) the explored models reached on the real code"""
    if not DP_MODELS:
        return
    marg: dict = {}
    for k, n in DP_MODELS.items():
        p = k.split()
        mk = ' '.join([p[0], p[1], p[3]])         # kind+maxOccurs, before flags, univocal flags
        c = marg.setdefault(mk, [0, 0])
        c[0] += 1
        c[1] += n
    least = sorted(DP_MODELS.items(), key=lambda kv: (kv[1], kv[0]))[:40]
    ctx.extra['distinguishable_paths_cases'] = {
        'key': 'S|C (sequence | choice/all) 1|* (maxOccurs of the common group) b<before1><before2> a<after1><after2> '
               'u<univocal1><univocal2> l<leaf1 univocal><leaf2 univocal> d<0|1: common group is the root | deeper>',
        'distinct_cases_reached': len(DP_MODELS),
        'cases_with_at_least_2_models': sum(1 for n in DP_MODELS.values() if n >= 2),
        'target_models_per_case_in_dp_shapes': DP_PER_KEY if ctx.quick() else 2 * DP_PER_KEY,
        'by_kind_before_univocal (distinct cases, models)': {k: marg[k] for k in sorted(marg)},
        'least_covered_cases': dict(least)}


def have_driver() -> bool:
    return (LEAN / '.lake' / 'build' / 'bin' / 'drv_c15').exists()


def run(ctx: Ctx, driver_ok: bool) -> None:
    import warnings
    warnings.simplefilter('ignore')        # XMLSchemaTypeTableWarning of the non-strict consistency clause
    drv = Driver('drv_c15') if driver_ok else None
    merge_local_findings(ctx)
    detect_fixes()
    ctx.notes.append('algorithm variant of the tree under test: %s %s' % (variant(), json.dumps(FX)))
    ctx.count('variant:' + variant())
    # every repair below is a `fix:` commit of /repo (known_findings.json: C15-F1..F4 and the combined patch): a tree
    # on which the witness of a repair behaves as before the repair has the fixed defect back.  The port then follows
    # the tree (FX), so the family runs would agree with it: the witness itself is the failing input.
    for k in REPAIRED:
        if not FX[k]:
            v11, ast, accepted_when_fixed = FX_WITNESS[k]
            ctx.count('repair-witness-regressed:' + k)
            ctx.failure('a repaired defect is back: the build outcome of the witness of repair `%s` is the one of the '
                        'unrepaired algorithm' % k,
                        {'v': '1.1' if v11 else '1.0', 'ast': ast, 'repair': k},
                        {'expected_accepted': accepted_when_fixed, 'observed_accepted': not accepted_when_fixed})
    if drv is None:
        ctx.notes.append('Lean driver unavailable: property judged by the reference automaton on the seed-independent '
                         'families only')
    DP_MODELS.clear()
    for fam, v11, models in families(ctx, drv is not None):
        for i in range(0, len(models), 50):
            if ctx.time_left() < 60:
                ctx.notes.append(f'time budget reached in family {fam}')
                dp_coverage(ctx)
                return
            try:
                run_batch(ctx, drv, models[i:i + 50], v11, fam, ctx.pick(0.03, 0.01))
            except BuildBroken:
                ctx.notes.append('schema construction raises in lax mode: exploration stopped at the first failing input')
                return
    dp_coverage(ctx)
    if not ctx.quick() and drv is not None:
        ctx.extra['exhaustive'] = True
        ctx.extra['exhaustive_scope'] = 'exh2-core, flat-choice, leaf-pairs and edc families are complete; the others are sampled'


def search(ctx: Ctx) -> None:
    """a proof obligation or the correspondence broke and no failing input was found: explore further with fresh
    draws of the seeded families (the PRNG has advanced; dp-shapes, the family aimed at distinguishable_paths, comes
    first), still with the port as the matcher of the known finding when the driver exists.  Capped at 60 s in the
    quick tier (300 s in the thorough tier)."""
    import time
    deadline = time.time() + (60 if ctx.quick() else 300)
    ctx.budget_s += 400
    drv = Driver('drv_c15') if have_driver() else None
    detect_fixes()
    fresh = ('dp-shapes', 'exh2-core', 'flat-choice', 'flat-seq', 'leaf-pairs') if ctx.quick() else ('dp-shapes',)
    while not ctx.failures and time.time() < deadline:
        for fam, v11, models in families(ctx, drv is not None):
            if drv is not None and fam in ('theorem-witnesses', 'edc', 'edc-subst') or (not ctx.quick() and drv is not None
                                                                           and fam not in fresh and fam in SEED_INDEPENDENT):
                continue        # already explored completely by run()
            for i in range(0, len(models), 50):
                if ctx.failures or time.time() > deadline or ctx.time_left() < 30:
                    return
                try:
                    run_batch(ctx, drv, models[i:i + 50], v11, fam, 0.0)
                except RuntimeError:
                    drv = None
                except BuildBroken:
                    return
        if drv is None:
            return              # the seed-independent families are the same on every pass


SEED_INDEPENDENT = ('theorem-witnesses', 'exh2-core', 'flat-choice', 'flat-seq', 'leaf-pairs', 'edc', 'edc-subst', 'flat-seq-rep')


def make_pinned() -> None:
    """(maintenance) record the models of the seed-independent families whose build outcome deviates from the
    reference automaton on the current tree: `/venv/bin/python -m harness.props.c15`"""
    import warnings
    warnings.simplefilter('ignore')
    out: dict[str, list[str]] = {'1.0': [], '1.1': []}
    detect_fixes()
    ctx = Ctx('C15', 'thorough', 0)
    for fam, v11, models in families(ctx, False):
        for i in range(0, len(models), 50):
            batch = models[i:i + 50]
            _, obs = observe(batch, v11)
            for ast, ob in zip(batch, obs):
                if ob is None or ob['other']:
                    continue
                ref = c15.glushkov_upa(ast, v11)
                if ref is None:
                    continue
                if (ob['kind'] is None) != (ref and c15.edc_ref(ast)):
                    out['1.1' if v11 else '1.0'].append(c15.show(ast))
    PINNED_FILE.parent.mkdir(parents=True, exist_ok=True)
    data = json.loads(PINNED_FILE.read_text()) if PINNED_FILE.exists() else {}
    rec = {k: sorted(set(v)) for k, v in out.items()}
    if variant().startswith('pinned'):
        data.update(rec)
    elif variant().startswith('patched'):
        data['patched'] = rec
    else:
        raise SystemExit('make_pinned: partially patched tree (%s): nothing recorded' % variant())
    PINNED_FILE.write_text(json.dumps(data, indent=0, ensure_ascii=False) + '\n')
    print(variant(), {k: len(v) for k, v in rec.items()})


def tup(x: Any) -> Any:
    if isinstance(x, list) and x and isinstance(x[0], str) and x[0] in ('e', 'a', 'g', 'l', 'oc'):
        return tuple(([tup(j) for j in i] if isinstance(i, list) else i) for i in x)
    return x


def replay(ctx: Ctx, obj: dict) -> int:
    print(json.dumps(obj, indent=1)[:3000])
    case = obj.get('input') or {}
    if 'ast' not in case:
        return 0
    detect_fixes()
    print('algorithm variant of the tree under test:', variant(), FX)
    c15.set_block_cfg(case.get('block'))
    full = tup(case['ast'])
    ast = full[3] if full[0] == 'oc' else full
    v11 = case['v'] == '1.1'
    try:
        _, obs = observe([full], v11)
    except Exception as e:       # noqa: BLE001
        print('implementation: schema construction in lax mode raised', type(e).__name__, str(e)[:300])
        print('judgement: property violated (a lax build records model errors, it does not raise)')
        return 1
    ob = obs[0]
    ans = Driver('drv_c15').query([dict(ob['intro'].request(v11, FUEL), fx=FX)])[0]
    so = strict_outcome(full, v11)
    impl_ok = ob['kind'] is None
    print('implementation: lax build model error =', ob['kind'], ' strict build =', so)
    print('lean port of check_model:', ans['m']['res'], ans['m']['pair'])
    print('lean oracle: UPA =', ans['o'], ' EDC =', ans['edc'])
    print('independent position automaton: deterministic =', c15.glushkov_upa(ast, v11))
    if c15.ast_of_json(ob['intro'].cjson) != c15.skeleton(ast):
        ref0 = c15.glushkov_upa(ast, v11)
        print('the built particles do not match the names the declarations give them (block configuration %r):' % c15.BLOCK_CFG)
        print('  built   ', c15.ast_of_json(ob['intro'].cjson))
        print('  declared', c15.skeleton(ast))
        bad0 = ref0 is not None and impl_ok != (ref0 and c15.edc_ref(ast))
        print('judgement (declared model, reference automaton):', 'property violated' if bad0 else 'property holds')
        c15.set_block_cfg(None)
        return 1 if bad0 else 0
    if ans['o']['upa'] == 'unknown':
        return 0
    expected = ans['o']['upa'] == 'det' and ans['edc']
    bad = impl_ok != expected and (ans['m']['res'] == 'ok') != impl_ok
    bad = bad or (so == 'ok') != impl_ok
    print('judgement:', 'property violated' if bad else
          ('deviation reproduced by the pinned port (known finding C15-F0)' if impl_ok != expected else 'property holds'))
    return 1 if bad else 0


if __name__ == '__main__':
    make_pinned()
