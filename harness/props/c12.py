"""
C12 — resource access control confines every fetch to the allowed class of locations.

What is run
-----------
A symlink-free temp tree  R/{sand, sand/sub, "sand/a b", sand_evil, other, .}  holds one target schema
per directory (each declares a uniquely named element, so "whose content got in" is observable) and a
mirror of the tree is served by a stub urllib opener under http://stub.test/ (never the network).

For every   allow mode x main-source kind x reference mechanism x location spelling   the main
schema/instance is processed by the REAL library while

  * a process-wide audit hook records every `open` (files under R) and `urllib.Request` event,
  * the stub opener records every remote request it serves,
  * wrappers around XMLResource.__init__ / access_control record what was *actually* asked and decided.

Property evaluation on the real code (independent of Lean): from the audit trail alone —
none: nothing opened; local: no remote request; remote: no file opened; sandbox: every opened file lies
(realpath) inside the sandbox directory and nothing remote; a denied location's element never shows up
in the built schema; every fetch is preceded by an `access_control` pass under the root's allow mode.

Correspondence with the Lean model (XsVerif/Model/Access.lean, driver drv_c12):
  norm     normalize_url(spelling, base)          == model normalizeUrl         (all spellings x bases)
  access   every recorded access_control call      == model accessControl        (decision enum)
  resolve  every recorded XMLResource(url source)  == model resolve (sandbox base derivation, url, decision)
  trace    random document trees (include / import / uri-mapper, local and remote documents, depth <= 4):
           EVERY XMLResource construction of the build (source, base_url, allow, url, decision, in order)
                                                   == model loadRoot (Model/AccessTrace.lean), the function the
           induction theorems every_fetch_checked / trace_sandbox_confined / ... are about
  render   normalize_url of remote-looking URLs    == model remoteUrl (get_uri + encode_url port)
  coding   posixpath.normpath, quote_from_bytes, unquote_to_bytes, os.path.dirname, urlsplit, urlunsplit,
           quote(safe=...), UTF-8 validity, is_local_url/is_remote_url of CPython / urls.py
                                                   == the model's re-implementations, string by string
  The coding theorems (unquote_quote, normpath_idempotent, normalizeUrl_idempotent, remote_render_refused)
  are also evaluated on the real functions for every generated string.
"""
from __future__ import annotations

import io
import json
import os
import shutil
import sys
import tempfile
import urllib.request
import urllib.response
import warnings
from email.message import Message
from typing import Any, Optional
from urllib.error import URLError
from urllib.parse import urlsplit, unquote

from harness.core import Ctx, Driver, LEAN, REPO

PROPS = 'XsVerif.Props.C12'
AUDIT = 'XsVerif.Audit.C12'
LEAN_TARGETS = ['XsVerif.Props.C12', 'XsVerif.Props.C12Reparse', 'drv_c12']
LEANCHECK = ['XsVerif.Model.Access', 'XsVerif.Model.AccessTrace', 'XsVerif.Lemmas.Access', 'XsVerif.Lemmas.AccessCoding',
             'XsVerif.Lemmas.AccessTrace', 'XsVerif.Lemmas.AccessRemote', 'XsVerif.Props.C12']
RULE = ('one case = (allow mode, main-source kind, reference mechanism, location spelling) processed by the real '
        'library in a temp tree with a stub remote opener; exhaustive over the catalogue in the thorough tier, '
        'every (mechanism, spelling, allow) with a rotating source kind in the quick tier, plus seeded random '
        'spellings built from path-segment operators; non-trivial = access_control took a branch other than '
        "`allow == 'all'`/`url is None` at least once (a blocking mode actually examined a URL); distinct by "
        'canonical JSON of the case')
TRUSTED = ['CPython urllib (urlopen/FileHandler/url2pathname), pathlib and the OS file system: the model '
           're-implements urlsplit, urlunsplit, unquote, quote(safe=...), posixpath.normpath and os.path.dirname for byte '
           'strings; their agreement with CPython is tested string by string (op coding), and unquote∘quote = id, normpath '
           'idempotence / no dot segments, normalize_url idempotence are proved on the model',
           'sys.addaudithook reports every file open and urllib request made by the interpreter',
           'Windows drive / UNC / backslash location forms and URLs whose percent-decoding is not valid UTF-8 are answered '
           '`out-of-scope` / not rendered by the model; for them only the audit-trail evaluation of the property applies',
           'the load-tree model covers include / redefine / override / import / uri-mapper chains of schema documents; '
           'location hints of instances, locations= and on-demand namespace loading are checked per resource '
           '(op resolve) and by the audit trail, not as trees',
           "urlsplit's IPv6 bracket / NFKC netloc validation (ValueError) is not modelled"]
ASSUMPTIONS = ['the root sandbox base names a directory, not a document (hypothesis hdir of trace_sandbox_confined), in a '
               'symlink-free tree',
               'location strings and the working directory contain no lone surrogates; the model works on UTF-8 bytes',
               'remote URLs are served by a stub opener; that the rendered URL is what urlopen receives is observed '
               '(urllib.Request audit event), not proved']

XS = 'http://www.w3.org/2001/XMLSchema'
XSI = 'http://www.w3.org/2001/XMLSchema-instance'
HOST = 'http://stub.test'
MODES = ['all', 'remote', 'local', 'sandbox', 'none']
MECHS = ['include', 'redefine', 'override', 'import', 'locations', 'locations-lazy', 'hint-fetch', 'hint-dynamic',
         'uri-mapper']
KINDS = ['path', 'file-url', 'relpath', 'pathlib', 'text', 'fileobj', 'remote-url']
DIRS = ['sand', 'sand/sub', 'sand/a b', 'sand_evil', 'other', '']


# ----------------------------------------------------------------------------------------------
# observation
# ----------------------------------------------------------------------------------------------
class Obs:
    """Process-wide observation state (the audit hook cannot be removed, so it is gated)."""
    installed = False
    active = False
    root = ''
    root2 = ''             # a second temp tree, outside the first one (working directory "outside the tree")
    events: list = []       # ('open', realpath) | ('req', url)
    served: list = []
    access: list = []       # recorded access_control calls
    inits: list = []        # recorded XMLResource.__init__ with URL-like source
    table: dict = {}


def _hook(event: str, args: tuple) -> None:
    if not Obs.active:
        return
    if event == 'open':
        p = args[0]
        if isinstance(p, bytes):
            p = os.fsdecode(p)
        if isinstance(p, str) and Obs.root:
            try:
                # the directory part is resolved, the last component is kept (no symlinks in the tree)
                rp = os.path.join(os.path.realpath(os.path.dirname(os.path.abspath(p))), os.path.basename(p))
            except (OSError, ValueError):
                return
            if rp == Obs.root or rp.startswith(Obs.root + os.sep) or \
                    (Obs.root2 and (rp == Obs.root2 or rp.startswith(Obs.root2 + os.sep))):
                Obs.events.append(('open', rp))
    elif event == 'urllib.Request':
        Obs.events.append(('req', str(args[0])))


class StubHandler(urllib.request.BaseHandler):
    handler_order = 100

    def _serve(self, req):      # noqa
        url = req.full_url
        Obs.served.append(url)
        body = Obs.table.get(urlsplit(url).path)
        if body is None:
            raise URLError('stub: no such resource')
        msg = Message()
        msg['Content-Type'] = 'application/xml'
        resp = urllib.response.addinfourl(io.BytesIO(body), msg, url, 200)
        resp.msg = 'OK'
        return resp

    http_open = https_open = ftp_open = xyz_open = _serve


def install_observers() -> None:
    if Obs.installed:
        return
    Obs.installed = True
    sys.addaudithook(_hook)
    urllib.request.install_opener(urllib.request.build_opener(StubHandler()))
    from xmlschema.resources.xml_resource import XMLResource
    from xmlschema.exceptions import XMLResourceBlocked
    from xmlschema.utils.urls import is_url
    orig_ac = XMLResource.access_control
    orig_init = XMLResource.__init__

    def access_control(self, url):          # noqa
        rec = {'allow': self._allow, 'base': self._base_url, 'url': url, 'decision': 'ok'}
        try:
            return orig_ac(self, url)
        except XMLResourceBlocked as e:
            rec['decision'] = blocked_kind(str(e))
            raise
        finally:
            if Obs.active:
                Obs.access.append(rec)

    def __init__(self, source, base_url=None, allow='all', *args, **kwargs):       # noqa
        rec = None
        if Obs.active and isinstance(source, (str, bytes, os.PathLike)) and is_url(source):
            um = kwargs.get('uri_mapper')
            rec = {'source': os.fsdecode(source) if not isinstance(source, str) else source,
                   'base': None if base_url is None else os.fsdecode(base_url) if not isinstance(base_url, str) else base_url,
                   'allow': allow, 'mapper': dict(um) if isinstance(um, dict) else None,
                   'url': None, 'decision': 'error', 'n_access': len(Obs.access), 'callers': callers()}
            Obs.inits.append(rec)
        try:
            orig_init(self, source, base_url, allow, *args, **kwargs)
            if rec is not None:
                rec['decision'] = 'ok'
        except XMLResourceBlocked as e:
            if rec is not None:
                rec['decision'] = blocked_kind(str(e))
            raise
        except BaseException as e:
            if rec is not None:
                # the access check is the first thing done with the URL: it passed iff a record was made
                passed = any(a['decision'] == 'ok' for a in Obs.access[rec['n_access']:rec['n_access'] + 1])
                rec['decision'] = 'ok' if passed else 'error:' + type(e).__name__
            raise
        finally:
            if rec is not None:
                rec['url'] = getattr(self, 'url', None)
                rec['eff_base'] = getattr(self, '_base_url', None)

    XMLResource.access_control = access_control
    XMLResource.__init__ = __init__


def callers() -> list:
    """names of the library functions on the stack (innermost first) — identifies the call site"""
    out = []
    f = sys._getframe(2)
    while f is not None and len(out) < 12:
        fn = f.f_code.co_filename
        if '/xmlschema/' in fn:
            out.append(os.path.basename(fn)[:-3] + '.' + f.f_code.co_name)
        f = f.f_back
    return out


def blocked_kind(msg: str) -> str:
    if msg.startswith('block access to resource'):
        return 'blocked-none'
    if msg.startswith('block access to local resource'):
        return 'blocked-local'
    if msg.startswith('block access to remote resource'):
        return 'blocked-remote'
    if msg.startswith('block access to out of sandbox'):
        return 'blocked-sandbox'
    return 'blocked-other'


# ----------------------------------------------------------------------------------------------
# the tree
# ----------------------------------------------------------------------------------------------
def tag_of(d: str, what: str, remote: bool = False) -> str:
    return ('r_' if remote else 't_') + what + '_' + (d.replace('/', '_').replace(' ', '-') or 'root')


def leaf_inc(name: str) -> str:
    return f'<xs:schema xmlns:xs="{XS}"><xs:element name="{name}" type="xs:string"/></xs:schema>'


def leaf_imp(name: str) -> str:
    return (f'<xs:schema xmlns:xs="{XS}" targetNamespace="urn:imp" elementFormDefault="qualified">'
            f'<xs:element name="{name}" type="xs:string"/><xs:element name="r" type="xs:string"/></xs:schema>')


# Component names and their TWINS: names that differ byte-wise but become equal under a normalisation that a
# comparison could wrongly apply.  Each group gets its own sub-tree  R/tw<k>/<name>/<name>  (the sandbox; its parent
# carries the same name so that twins occur as SIBLINGS and as ANCESTORS of the base), with target files in every twin.
TWIN_GROUPS: list[tuple[str, list[tuple[str, str]]]] = [
    ('B\u00e9 a', [('b\u00e9 a', 'case:lower'), ('B\u00c9 A', 'case:upper'), ('Be\u0301 a', 'unicode:NFD'),
                   ('B\u00e9+a', 'plus-vs-space'), ('B\u00e9 a.', 'trailing-dot'), ('B\u00e9 a ', 'trailing-space'),
                   ('B\u00e9%20a', 'literal-percent:space'), ('B%C3%A9 a', 'literal-percent:utf8'),
                   ('B\u00e9\u00a0a', 'unicode:NFKC-nbsp')]),
    ('p%2eq', [('p%2Eq', 'percent-hex-case'), ('p.q', 'percent-decoded'), ('P%2EQ', 'case:upper')]),
    ('%41b', [('Ab', 'percent-decoded'), ('%61b', 'percent-vs-case'), ('ab', 'case:lower')]),
    ('stra\u00dfe', [('strasse', 'casefold'), ('STRASSE', 'casefold:upper'), ('Stra\u00dfe', 'case:title')]),
    ('\ufb01x1', [('fix1', 'unicode:NFKC-ligature'), ('\ufb01x\u00b9', 'unicode:NFKC-superscript')]),
]


def build_twins(tree: 'Tree') -> list[dict]:
    """creates the twin sub-trees; returns one record per (group, twin, position)"""
    out = []
    for k, (name, twins) in enumerate(TWIN_GROUPS):
        top = os.path.join(tree.root, f'tw{k}')
        sb = os.path.join(top, name, name)
        os.makedirs(os.path.join(sb, 'sub'), exist_ok=True)
        files = [(sb, 'in', 'inc.xsd', 'imp.xsd'), (os.path.join(sb, 'sub'), 'insub', 'inc.xsd', 'imp.xsd'),
                 (sb, 'in-upper', 'INC.XSD', 'IMP.XSD')]           # file-name twins INSIDE the sandbox
        for ti, (tw, why) in enumerate(twins):
            sib = os.path.join(top, name, tw)                       # sibling of the base
            anc = os.path.join(top, tw, name)                       # same base name below a twin ancestor
            files.append((sib, f'sib{ti}', 'inc.xsd', 'imp.xsd'))
            files.append((anc, f'anc{ti}', 'inc.xsd', 'imp.xsd'))
            out.append({'k': k, 'name': name, 'twin': tw, 'why': why, 'pos': 'sibling', 'dir': sib, 'sb': sb})
            out.append({'k': k, 'name': name, 'twin': tw, 'why': why, 'pos': 'ancestor', 'dir': anc, 'sb': sb})
        for d, tag, finc, fimp in files:
            os.makedirs(d, exist_ok=True)
            for fn, leaf, what in ((finc, leaf_inc, 'inc'), (fimp, leaf_imp, 'imp')):
                el = f'tw{k}_{tag}_{what}'
                with open(os.path.join(d, fn), 'w') as f:
                    f.write(leaf(el))
                tree.owner[el] = ('file', os.path.join(d, fn))
    # every twin is a different directory of a case-/normalisation-sensitive file system
    for t in out:
        if os.path.samefile(t['dir'], t['sb']) or not os.path.isdir(t['dir']):
            raise RuntimeError('the temp file system identifies twin directories: ' + repr(t))
    return out


class Tree:
    def __init__(self) -> None:
        self.root = os.path.realpath(tempfile.mkdtemp(prefix='c12-', dir='/tmp'))
        self.owner: dict[str, tuple[str, str]] = {}       # element name -> ('file', path) | ('remote', urlpath)
        table: dict[str, bytes] = {}
        for d in DIRS:
            full = os.path.join(self.root, d)
            os.makedirs(full, exist_ok=True)
            for what, leaf in (('inc', leaf_inc), ('imp', leaf_imp)):
                n = tag_of(d, what)
                p = os.path.join(full, what + '.xsd')
                with open(p, 'w') as f:
                    f.write(leaf(n))
                self.owner[n] = ('file', p)
                rn = tag_of(d, what, True)
                up = '/' + (d + '/' if d else '') + what + '.xsd'
                table[up] = leaf(rn).encode()
                self.owner[rn] = ('remote', up)
        self.table = table
        self.sand = os.path.join(self.root, 'sand')
        self.twins = build_twins(self)
        # a second tree OUTSIDE the first (for runs whose working directory / sandbox is not under R)
        self.root2 = os.path.realpath(tempfile.mkdtemp(prefix='c12b-', dir='/tmp'))
        for d in ('', 'sub'):
            full = os.path.join(self.root2, d)
            os.makedirs(full, exist_ok=True)
            for what, leaf in (('inc', leaf_inc), ('imp', leaf_imp)):
                n = 't2_' + what + '_' + (d or 'root')
                with open(os.path.join(full, what + '.xsd'), 'w') as f:
                    f.write(leaf(n))
                self.owner[n] = ('file', os.path.join(full, what + '.xsd'))
        Obs.root2 = self.root2

    def close(self) -> None:
        shutil.rmtree(self.root, ignore_errors=True)
        shutil.rmtree(self.root2, ignore_errors=True)
        Obs.root2 = ''


def spellings(R: str, f: str) -> list[tuple[str, str]]:
    """(spelling, intended target class) relative to a main document in R/sand; f = inc.xsd | imp.xsd"""
    b = os.path.basename(R)
    up = '../' * (R.count('/') + 1)
    S = [
        (f, 'in'), ('./' + f, 'in'), ('sub/../' + f, 'in'), (f'{R}/sand/{f}', 'in'), (f'file://{R}/sand/{f}', 'in'),
        (f'file:{R}/sand/{f}', 'in'), (f'{R}/sand/../sand/{f}', 'in'), (f'{R}/sand/./{f}', 'in'),
        ('%69' + f[1:], 'in'), (' ' + f, 'in'), ('file:' + f, 'in'), (f'{R}//sand///{f}', 'in'),
        (f'sub/{f}', 'in'), (f'sub//{f}', 'in'), (f'./sub/./{f}', 'in'),
        (f'a b/{f}', 'in'), (f'a%20b/{f}', 'in'), (f'file://{R}/sand/a%20b/{f}', 'in'),
        (f'../sand_evil/{f}', 'sibling'), (f'{R}/sand_evil/{f}', 'sibling'), (f'file://{R}/sand_evil/{f}', 'sibling'),
        (f'sub/../../sand_evil/{f}', 'sibling'), (f'%2e%2e/sand_evil/{f}', 'sibling'),
        (f'..%2Fsand_evil%2F{f}', 'sibling'), (f'{R}/sand/../sand_evil/{f}', 'sibling'),
        (f'{R}/sand%2F..%2Fsand_evil/{f}', 'sibling'), (f'file:../sand_evil/{f}', 'sibling'),
        (f'.%2e/sand_evil/{f}', 'sibling'), (f'../sand/../sand_evil/{f}', 'sibling'),
        (f'../other/{f}', 'outside'), (f'{R}/other/{f}', 'outside'), (f'../../{b}/other/{f}', 'outside'),
        (f'file:///{R}/other/{f}', 'outside'), (f'/../..{R}/other/{f}', 'outside'), (f'{up}{R[1:]}/other/{f}', 'outside'),
        (f'file:{R}/sand/../other/{f}', 'outside'), (f'sub/../../other/{f}', 'outside'),
        (f'../{f}', 'outside'), (f'{R}/{f}', 'outside'), (f'sub/../../{f}', 'outside'),
        (f'%252e%252e/other/{f}', 'missing'), (f'..%252Fother/{f}', 'missing'),
        # Windows / UNC forms (model: out of scope; the audit-trail evaluation still applies)
        (f'//{R}/other/{f}', 'unc'), (f'file://localhost{R}/other/{f}', 'unc'), (f'..\\other\\{f}', 'unc'),
        (f'\\\\host\\share\\{f}', 'unc'), (f'c:/other/{f}', 'unc'), (f'file:////{R}/other/{f}', 'unc'),
        (f'///{R}/other/{f}', 'unc'),
        # remote-looking schemes served by the stub opener
        (f'{HOST}/other/{f}', 'remote'), (f'HTTPS://stub.test/other/{f}', 'remote'), (f'ftp://stub.test/other/{f}', 'remote'),
        (f'{HOST}/sand/../other/{f}', 'remote'), (f'xyz://stub.test/other/{f}', 'remote'), (f'{HOST}/sand/{f}', 'remote'),
        (f' {HOST}/other/{f}', 'remote'), (f'{HOST}/other/{f}?x=1#frag', 'remote'),
        ('nope.xsd', 'missing'), (f'../nope/{f}', 'missing'),
    ]
    return S


# dot segments x how they are ENCODED x what kind of location carries them.  A location is normalised in several
# steps (urlsplit, percent-decoding, joining to the base, '..' collapsing): a parent step that is still percent-encoded
# when one of those steps looks at the string must be collapsed all the same, in absolute paths and file URLs as well
# as in relative locations.
DOTSEG_ENCODINGS = [('literal', '..', '.'), ('upper', '%2E%2E', '%2E'), ('lower', '%2e%2e', '%2e'), ('half1', '.%2E', '%2E'),
                    ('half2', '%2e.', '%2e'), ('mixed', '%2E%2e', '%2e')]
DOTSEG_CARRIERS = [('abs-path', ''), ('file-url', 'file://'), ('file-colon', 'file:'), ('file-url3', 'file:///'),
                   ('relative', None)]
DOTSEG_ROUTES = [   # (route through the tree from R/sand, target directory class); P = parent step, D = '.' step
    ('{S}/P/other/{f}', 'outside'), ('{S}/P/sand_evil/{f}', 'sibling'), ('{S}/sub/P/P/other/{f}', 'outside'),
    ('{S}/sub/P/{f}', 'in'), ('{S}/D/{f}', 'in'), ('{S}/sub/D/P/P/{f}', 'outside'), ('{S}/a b/P/P/sand_evil/{f}', 'sibling'),
    ('{S}/P/sand/sub/{f}', 'in'),
]


def dotseg_spellings(R: str, f: str) -> list[tuple[str, str, str]]:
    """(spelling, target class, tag 'dotseg:<carrier>:<encoding>[:sep]') — the full product"""
    out = []
    for route, cls in DOTSEG_ROUTES:
        for cname, prefix in DOTSEG_CARRIERS:
            for ename, pp, dd in DOTSEG_ENCODINGS:
                for sepname, enc_sep in (('slash', False), ('pct-sep', True)):
                    if cname == 'relative':
                        body = route.replace('{S}/', '')
                    else:
                        body = route.replace('{S}', R + '/sand')
                    segs = body.replace('{f}', f).split('/')
                    o = ''
                    for i, sg in enumerate(segs):
                        if i:
                            # the separator in front of an encoded dot segment may be encoded too
                            o += '%2F' if (enc_sep and sg in ('P', 'D') and ename != 'literal') else '/'
                        o += pp if sg == 'P' else dd if sg == 'D' else sg
                    if cname == 'file-url3':
                        o = o.lstrip('/')
                    loc = (prefix or '') + o
                    out.append((loc, cls, f'dotseg:{cname}:{ename}:{sepname}'))
    return out


# random spellings: a walk over the tree written with segment operators
def random_spelling(rng, R: str, f: str) -> tuple[str, str]:
    dirs = ['sand', 'sand/sub', 'sand/a b', 'sand_evil', 'other', '']
    target = rng.choice(dirs)
    tgt = [s for s in (R[1:] + ('/' + target if target else '')).split('/') if s]
    cur = [s for s in (R[1:] + '/sand').split('/') if s]
    absolute = rng.random() < 0.4
    segs: list[str] = []
    if absolute:
        cur = []
    # go up to the common ancestor (maybe higher), then down, with noise
    common = 0
    while common < min(len(cur), len(tgt)) and cur[common] == tgt[common]:
        common += 1
    extra = rng.randint(0, min(2, common)) if not absolute else 0
    for _ in range(len(cur) - common + extra):
        segs.append('..')
    path = tgt[common - extra:] if not absolute else tgt
    for s in path:
        r = rng.random()
        if r < 0.15:
            segs.append('.')
        if r > 0.85:
            segs.extend([s, '..'])
        if 0.4 < r < 0.5:
            segs.extend(['zz', '..'])
        segs.append(s)
    segs.append(f)

    def enc(s: str) -> str:
        out = []
        for ch in s:
            r = rng.random()
            if r < 0.12:
                out.append('%%%02X' % ord(ch) if rng.random() < 0.5 else '%%%02x' % ord(ch))
            elif ch == ' ':
                out.append(rng.choice([' ', '%20']))
            else:
                out.append(ch)
        return ''.join(out)
    seps = []
    for _ in segs[1:]:
        r = rng.random()
        seps.append('//' if r < 0.08 else '%2F' if r < 0.16 else '/')
    body = enc(segs[0]) + ''.join(sp + enc(sg) for sp, sg in zip(seps, segs[1:]))
    if absolute:
        pre = rng.choice(['/', '/', 'file:///', 'file:/', 'file://' if False else '/', '/../', 'file:'])
        if pre == 'file:':
            pre = 'file:/'
        s = pre + body
    else:
        s = rng.choice(['', '', '', './', 'file:', ' ']) + body
    cls = {'sand': 'in', 'sand/sub': 'in', 'sand/a b': 'in', 'sand_evil': 'sibling'}.get(target, 'outside')
    return s, cls


# ----------------------------------------------------------------------------------------------
# one case on the real code
# ----------------------------------------------------------------------------------------------
def main_text(mech: str, loc: str) -> str:
    from xml.sax.saxutils import quoteattr
    q = quoteattr(loc)
    if mech in ('include', 'redefine', 'override'):
        return (f'<xs:schema xmlns:xs="{XS}"><xs:{mech} schemaLocation={q}/>'
                f'<xs:element name="m" type="xs:string"/></xs:schema>')
    if mech == 'import':
        return (f'<xs:schema xmlns:xs="{XS}"><xs:import namespace="urn:imp" schemaLocation={q}/>'
                f'<xs:element name="m" type="xs:string"/></xs:schema>')
    if mech == 'uri-mapper':
        return (f'<xs:schema xmlns:xs="{XS}"><xs:include schemaLocation="urn:c12:mapped"/>'
                f'<xs:element name="m" type="xs:string"/></xs:schema>')
    if mech == 'locations':
        return f'<xs:schema xmlns:xs="{XS}"><xs:element name="m" type="xs:string"/></xs:schema>'
    if mech == 'locations-lazy':   # the namespace of the hint is only needed when an instance is validated
        return DYN_SCHEMA.replace('"lax"', '"strict"')
    if mech == 'hint-fetch':       # an instance document whose schema is found through its hint
        return f'<r xmlns="urn:imp" xmlns:xsi="{XSI}" xsi:schemaLocation={quoteattr("urn:imp " + loc.replace(" ", "%20"))}>x</r>'
    if mech == 'hint-dynamic':     # a hint below the root, schema given
        return (f'<m xmlns:xsi="{XSI}"><i:r xmlns:i="urn:imp" '
                f'xsi:schemaLocation={quoteattr("urn:imp " + loc.replace(" ", "%20"))}>x</i:r></m>')
    raise ValueError(mech)


DYN_SCHEMA = (f'<xs:schema xmlns:xs="{XS}"><xs:element name="m"><xs:complexType><xs:sequence>'
              f'<xs:any namespace="##other" processContents="lax"/></xs:sequence></xs:complexType></xs:element></xs:schema>')


def run_real(tree: Tree, allow: str, kind: str, mech: str, loc: str, idx: int) -> dict:
    """Process one case with the real library; returns the observation record."""
    import xmlschema
    from xmlschema import XMLSchema10, XMLSchema11
    from xmlschema.exceptions import XMLSchemaException
    R = tree.root
    is_instance = mech in ('hint-fetch', 'hint-dynamic')
    ext = 'xml' if is_instance else 'xsd'
    name = f'main_{idx % 7}.{ext}'
    text = main_text(mech, loc)
    path = os.path.join(tree.sand, name)
    with open(path, 'w') as f:
        f.write(text)
    Obs.table = dict(tree.table)
    Obs.table[f'/sand/{name}'] = text.encode()
    kwargs: dict[str, Any] = {'allow': allow}
    fobj = None
    sandbox_dir: Optional[str] = tree.sand
    if kind == 'path':
        src: Any = path
    elif kind == 'file-url':
        src = 'file://' + path
    elif kind == 'file-url-quoted':      # the only correct way to name a path with a literal '%' in a component
        src = url_of_path(path)
    elif kind == 'relpath':
        src = name                       # cwd is R/sand
    elif kind == 'pathlib':
        import pathlib
        src = pathlib.Path(path)
        if allow == 'sandbox':
            kwargs['base_url'] = tree.sand          # the constructor asserts a str source without base_url
    elif kind == 'text':
        src = text
        kwargs['base_url'] = tree.sand
    elif kind == 'fileobj':
        fobj = open(path, 'rb')
        src = fobj
        kwargs['base_url'] = tree.sand
    elif kind == 'remote-url':
        src = f'{HOST}/sand/{name}'
        sandbox_dir = None
        if allow == 'sandbox':
            kwargs['base_url'] = tree.sand
            sandbox_dir = tree.sand
    else:
        raise ValueError(kind)
    if mech == 'uri-mapper':
        kwargs['uri_mapper'] = {'urn:c12:mapped': loc}
    if mech in ('locations', 'locations-lazy'):
        kwargs['locations'] = {'urn:imp': loc}
    doc_lazy = os.path.join(tree.sand, 'doc_lazy.xml')
    if mech == 'locations-lazy' and not os.path.exists(doc_lazy):
        with open(doc_lazy, 'w') as f:
            f.write('<m><i:r xmlns:i="urn:imp">x</i:r></m>')
    Obs.events, Obs.served, Obs.access, Obs.inits = [], [], [], []
    out: dict[str, Any] = {'outcome': 'ok', 'elements': [], 'main_open_by_harness': kind == 'fileobj'}
    schema = None
    with warnings.catch_warnings():
        warnings.simplefilter('ignore')
        Obs.active = True
        try:
            if mech == 'hint-fetch':
                kwargs.pop('locations', None)
                try:
                    xmlschema.validate(src, **kwargs)
                except xmlschema.XMLSchemaValidationError:
                    out['outcome'] = 'invalid'
            elif mech == 'hint-dynamic':
                schema = XMLSchema10(DYN_SCHEMA, allow=allow, base_url=kwargs.get(
                    'base_url', url_of_path(tree.sand) if kind == 'file-url-quoted' else tree.sand))
                errs = list(schema.iter_errors(src, use_location_hints=True))
                out['outcome'] = 'invalid' if errs else 'ok'
            else:
                cls = XMLSchema11 if mech == 'override' else XMLSchema10
                schema = cls(src, **kwargs)
                if mech == 'locations-lazy':
                    out['lazy_errors'] = len(list(schema.iter_errors(doc_lazy)))
        except (XMLSchemaException, OSError) as e:
            out['outcome'] = type(e).__name__
            out['message'] = str(e)[:160]
        except Exception as e:      # noqa
            out['outcome'] = 'FOREIGN:' + type(e).__name__
            out['message'] = str(e)[:160]
        finally:
            Obs.active = False
            if fobj is not None:
                fobj.close()
    if schema is not None:
        try:
            out['elements'] = sorted(k.split('}')[-1] for k in schema.maps.elements if not k.startswith('{' + XS))
        except Exception as e:      # noqa
            out['elements_error'] = type(e).__name__
    out['events'] = list(Obs.events)
    out['served'] = list(Obs.served)
    out['access'] = list(Obs.access)
    out['inits'] = list(Obs.inits)
    out['sandbox_dir'] = sandbox_dir
    out['main_path'] = path
    return out


def inside(d: str, p: str) -> bool:
    """byte-exact, component-wise containment of real paths (what trace_sandbox_confined states: `comps d <+: comps p`):
    no case folding, no Unicode normalisation, no percent decoding — a twin of a component is another component"""
    db = [c for c in os.fsencode(d).split(b'/') if c]
    pb = [c for c in os.fsencode(p).split(b'/') if c]
    return pb[:len(db)] == db


def is_remote_scheme(url: str) -> bool:
    s = urlsplit(url.strip()).scheme
    return not (s == '' or s == 'file' or (len(s) == 1 and s.isalpha()))


def evaluate(ctx: Ctx, tree: Tree, case: dict, obs: dict) -> None:
    """The property itself, from the audit trail of the real run (no model involved)."""
    allow = case['allow']
    opens = [p for e, p in obs['events'] if e == 'open']
    reqs = [u for e, u in obs['events'] if e == 'req']
    remote_reqs = [u for u in reqs if is_remote_scheme(u)]
    file_reqs = [u for u in reqs if not is_remote_scheme(u)]
    served = obs['served']
    sb = obs['sandbox_dir']
    det = {'outcome': obs['outcome'], 'opened': list(opens), 'requests': list(reqs), 'served': served,
           # resources constructed in sandbox mode WITHOUT a base_url although they are not the main source:
           # their sandbox is derived from their own location (call sites of the known findings)
           'selfbase': [{'url': r['url'] or '', 'callers': r['callers']}
                        for r in obs['inits'] if r['allow'] == 'sandbox' and r['base'] is None
                        and unquote(r['url'] or '') != 'file://' + obs.get('main_path', '')],
           # resources constructed with allow='all' although the configured mode is another one
           'allow_all': [{'url': r['url'] or '', 'callers': r['callers']}
                         for r in obs['inits'] if r['allow'] == 'all' and allow != 'all']}

    def fail(what: str) -> None:
        fid = known_match(case, {'what': what, **det})
        if fid:
            ctx.known_hit(fid)
        else:
            ctx.failure(what, case, json.loads(json.dumps(det).replace(tree.root, '$R')))

    if allow == 'none':
        if opens or reqs or served:
            fail("allow='none' but a file or URL was opened")
    elif allow == 'local':
        if remote_reqs or served:
            fail("allow='local' but a remote URL was requested")
    elif allow == 'remote':
        if opens or file_reqs:
            fail("allow='remote' but a local file was opened")
    elif allow == 'sandbox':
        if remote_reqs or served:
            fail("allow='sandbox' but a remote URL was requested")
        elif sb is not None:
            bad = [p for p in opens if not inside(sb, p)]
            if bad:
                det['outside'] = list(bad)
                fail("allow='sandbox' but a file outside the base directory was opened")
    # content of a denied location never influences the result
    for el in obs['elements']:
        own = tree.owner.get(el)
        if own is None:
            continue
        where, p = own
        denied = (allow == 'none' or (allow == 'local' and where == 'remote') or
                  (allow == 'remote' and where == 'file') or
                  (allow == 'sandbox' and (where == 'remote' or (sb is not None and not inside(sb, p)))))
        if denied:
            det['element'] = el
            if where == 'file':
                det['outside'] = [p]
            fail('a component of a denied location is part of the built schema')
    # every fetch was preceded by a passed access check made with the root's allow mode
    ok_urls = {a['url'] for a in obs['access'] if a['decision'] == 'ok' and a['allow'] == allow}
    for u in reqs:
        if u not in ok_urls and allow != 'all':
            det['unchecked'] = u
            fail('a URL was requested without a passed access_control under the configured allow mode')
            break
    if obs['outcome'].startswith('FOREIGN:'):
        blocked = any(a['decision'] != 'ok' for a in obs['access'])
        if blocked:
            fail('a denied location was reported by a non-library exception')


def url_path(url: str) -> str:
    q = os.path.normpath(unquote(urlsplit(url).path))
    return '/' + q.lstrip('/')


SANDBOX_WHATS = ("allow='sandbox' but a file outside the base directory was opened",
                 'a component of a denied location is part of the built schema')


def load_findings(ctx: Ctx) -> None:
    """entries of notes/findings/C12.json that the committed known_findings.json does not list yet"""
    p = os.path.join(os.path.dirname(os.path.dirname(os.path.dirname(os.path.abspath(__file__)))), 'notes', 'findings', 'C12.json')
    try:
        with open(p) as f:
            entries = json.load(f).get('findings', [])
    except (OSError, ValueError):
        return
    have = {e.get('id') for e in ctx.known}
    for e in entries:
        if e.get('id') not in have:
            ctx.known.append(e)


def match_f5(case: dict, detail: dict) -> Optional[str]:
    """C12-F5: mechanism parse-xmldocument; EVERY fetch of the run (request, served URL, opened file) is the url of an
    XMLResource that the library constructed with allow='all' (the configured mode being another one) from
    XMLResource.parse() rebuilding an XmlDocument."""
    if not str(case.get('mech', '')).endswith('parse-xmldocument') or case.get('allow') == 'all':
        return None
    recs = [r for r in detail.get('allow_all', ()) if 'xml_resource.parse' in r['callers'] and
            'documents.__init__' in r['callers']]
    urls = {r['url'] for r in recs}
    paths = {url_path(u) for u in urls if not is_remote_scheme(u)}
    fetched = list(detail.get('requests', ())) + list(detail.get('served', ()))
    if not recs or not (fetched or detail.get('opened')):
        return None
    if all(u in urls for u in fetched) and all(p in paths for p in detail.get('opened', ())):
        return 'C12-F5'
    return None


def match_f6(case: dict, detail: dict) -> Optional[str]:
    """C12-F6: mechanism hint-meta-ns; EVERY fetch of the run is the url of an XMLResource constructed with allow='all'
    (the configured mode being another one) from check_dynamic_context (hint for a meta-schema namespace)."""
    if not str(case.get('mech', '')).endswith('hint-meta-ns') or case.get('allow') == 'all':
        return None
    recs = [r for r in detail.get('allow_all', ()) if 'elements.check_dynamic_context' in r['callers']]
    urls = {r['url'] for r in recs}
    paths = {url_path(u) for u in urls if not is_remote_scheme(u)}
    fetched = list(detail.get('requests', ())) + list(detail.get('served', ()))
    if not recs or not (fetched or detail.get('opened')):
        return None
    if all(u in urls for u in fetched) and all(p in paths for p in detail.get('opened', ())):
        return 'C12-F6'
    return None


def known_match(case: dict, detail: dict) -> Optional[str]:
    """Exact rules of notes/findings/C12.json.

    C12-F2 / C12-F3: allow='sandbox', no explicit base_url; every file opened outside the sandbox is the URL
    of an XMLResource that the library constructed with base_url=None (so that its sandbox was derived from
    its own location) from the finding's call site.  Anything else opened outside the sandbox is a violation."""
    f5 = match_f5(case, detail) or match_f6(case, detail)
    if f5:
        return f5
    if case.get('allow') != 'sandbox' or detail.get('what') not in SANDBOX_WHATS:
        return None
    outside = detail.get('outside')
    if not outside:
        return None
    sites = {'C12-F2': ('fetchers.fetch_schema_locations', 'documents.get_resource_schema'),
             'C12-F3': ('loaders.load_namespace',)}
    hit = None
    for p in outside:
        fids = {fid for sb in detail.get('selfbase', ()) if url_path(sb['url']) == p
                for fid, fns in sites.items() if any(fn in sb['callers'] for fn in fns)}
        if len(fids) != 1:
            return None
        fid = fids.pop()
        if hit not in (None, fid):
            return None
        hit = fid
    if hit == 'C12-F2' and case.get('mech') != 'hint-fetch':
        return None
    if hit == 'C12-F3' and case.get('mech') != 'locations-lazy':
        return None
    return hit


# ----------------------------------------------------------------------------------------------
# model correspondence
# ----------------------------------------------------------------------------------------------
def enc(s: Optional[str]) -> Optional[str]:
    """str -> latin-1 view of its UTF-8 bytes (the model works on bytes)"""
    if s is None:
        return None
    return s.encode('utf-8', 'surrogateescape').decode('latin-1')


def in_model_domain(*strings: Optional[str]) -> bool:
    for s in strings:
        if s is None:
            continue
        try:
            s.encode('utf-8')
        except UnicodeEncodeError:
            return False
        # str.strip() also strips non-ASCII white space; keep those out of the byte model
        if s != s.strip() and (not s.strip(' \t\n\r\x0b\x0c\x1c\x1d\x1e\x1f') == s.strip()):
            return False
    return True


def impl_norm(url: str, base: Optional[str]) -> dict:
    from xmlschema.utils.urls import normalize_url
    try:
        r = normalize_url(url, base)
    except Exception as e:      # noqa
        return {'kind': 'error', 'exc': type(e).__name__}
    if is_remote_scheme(r):
        sp = urlsplit(r)
        tail = sp.path + ('?' + sp.query if sp.query else '') + ('#' + sp.fragment if sp.fragment else '')
        return {'kind': 'remote', 'scheme': sp.scheme, 'netloc': sp.netloc, 'tail': unquote(tail), 'url': r}
    return {'kind': 'file', 'url': r}


def compare_norm(ctx: Ctx, case: Any, impl: dict, m: dict) -> bool:
    """True when compared (in scope)"""
    k = m['kind']
    if k == 'out-of-scope':
        ctx.count('norm:out-of-scope')
        return False
    ctx.traces += 1
    if k == 'error':
        if impl['kind'] != 'error':
            ctx.mismatch('normalize_url', case, impl, m)
    elif k == 'file':
        if impl['kind'] != 'file' or enc(impl['url']) != m['url']:
            ctx.mismatch('normalize_url', case, impl, m)
    else:
        if impl['kind'] != 'remote' or enc(impl['scheme']) != m['scheme']:
            ctx.mismatch('normalize_url', case, impl, m)
        elif m['joined'] is not None and '%' not in m['joined'] and '%' not in impl['url']:
            j = m['joined']
            if not j.startswith('/'):
                j = '/' + j
            if enc(impl['tail']) != j or enc(impl['netloc']) != m['netloc']:
                ctx.mismatch('normalize_url (joined to a remote base)', case, impl, m)
    ctx.count('norm:' + k)
    return True


class Batch:
    """requests for the driver collected over the run, answered in one batch"""

    def __init__(self) -> None:
        self.reqs: list = []
        self.pend: list = []
        self.seen: set = set()

    def add(self, req: dict, what: str, case: Any, impl: Any) -> None:
        key = json.dumps(req, sort_keys=True)
        if key in self.seen:
            return
        self.seen.add(key)
        self.reqs.append(req)
        self.pend.append((what, case, impl))


def collect_model_requests(batch: Batch, case: dict, obs: dict, cwd: str) -> None:
    from xmlschema.utils.urls import normalize_url
    for a in obs['access']:
        if not in_model_domain(a['url'], a['base']):
            continue
        base_norm = None
        if a['base'] is not None:
            try:
                base_norm = normalize_url(a['base'])
            except Exception:       # noqa
                continue
        batch.add({'op': 'access', 'allow': a['allow'], 'base': enc(base_norm), 'url': enc(a['url'])},
                  'access', {'allow': a['allow'], 'base': a['base'], 'url': a['url']}, a['decision'])
    for r in obs['inits']:
        loc = r['source'].strip()
        if r['mapper'] and loc in r['mapper']:
            loc = r['mapper'][loc]
        if not in_model_domain(loc, r['base']):
            continue
        batch.add({'op': 'resolve', 'allow': r['allow'], 'cwd': enc(cwd), 'base': enc(r['base']), 'loc': enc(loc)},
                  'resolve', {'allow': r['allow'], 'base': r['base'], 'loc': loc},
                  {'decision': r['decision'], 'url': r['url'], 'eff_base': r.get('eff_base')})


def compare_batch(ctx: Ctx, batch: Batch, drv: Driver) -> None:
    answers = drv.query(batch.reqs)
    for (what, case, impl), m in zip(batch.pend, answers):
        if 'err' in m:
            ctx.mismatch('driver error', case, impl, m)
            continue
        if what == 'access':
            ctx.traces += 1
            ctx.count('access:' + m['decision'])
            if m['decision'] != impl:
                ctx.mismatch('access_control', case, impl, m)
        elif what == 'norm':
            compare_norm(ctx, case, impl, m['norm'])
        elif what == 'resolve':
            if m['decision'] is None:
                ctx.count('resolve:out-of-scope')
                continue
            ctx.traces += 1
            ctx.count('resolve:' + m['decision'])
            d = impl['decision']
            if d.startswith('error:'):
                # the constructor failed before/without a decision (e.g. sandbox + remote source + no base_url)
                ctx.count('resolve:impl-' + d)
                continue
            if m['decision'] != d:
                ctx.mismatch('XMLResource access decision', case, impl, m)
            elif m['norm']['kind'] == 'file' and impl['url'] is not None and enc(impl['url']) != m['norm']['url']:
                ctx.mismatch('XMLResource url', case, impl, m)


# ----------------------------------------------------------------------------------------------
# coding: the stdlib re-implementations of the model against CPython, and the coding theorems on
# the real functions
# ----------------------------------------------------------------------------------------------
CODING_ALPHABET = ['/', '/', '/', '.', '.', '..', 'a', 'b', 'Z', '0', '9', '%', '%2', '%2F', '%2e', '%41', '%c3%a9', '%ff',
                   '%C3', ' ', '~', '_', '-', ':', '?', '#', '@', '&', '=', '+', ';', '\\', 'é', '€', '\t', '\x1f', '|', '"',
                   '<', '[', '$', "'", '(', ',', '!', '*', '{', '^', '`', '\x7f', '😀']
CODING_FIXED = ['', '/', '//', '///', '.', '..', './', '/.', '/..', '../..', 'a/..', '/a/../..', 'a//b', '//a/../b', '///a',
                'file:///a/b', 'file:', 'file://', 'file:///', 'file:////a', 'http://h/p?q#f', 'HTTP://H/%7e', 'a b', '%',
                '%%', '%4', '%zz', '%41%42', 'urn:x:y', 'c:/x', 'x:', ':x', 'http:', 'http:/a', 'http:a', 'xyz:///p',
                'ftp://u:p@h:21/%2Fetc', 'http://h/a b', 'http://h/é', 'http://h/%C3%A9', 'http://h/%ff', 'http://h/a+b',
                'http://h/a+b c', 'http://h/?a=1&b=2', 'http://h/#%20', 'svn+ssh://h/p', 'git:p', 'mailto:a@b', 'data:,x']


def coding_strings(rng, n: int) -> list[str]:
    out = list(CODING_FIXED)
    for _ in range(n):
        k = rng.randint(1, 9)
        out.append(''.join(rng.choice(CODING_ALPHABET) for _ in range(k)))
    return out


def coding_cases(ctx: Ctx, drv: Optional[Driver]) -> None:
    import posixpath
    from urllib.parse import quote_from_bytes, unquote_to_bytes, urlunsplit, quote
    from xmlschema.utils.urls import is_local_url, is_remote_url
    strs = coding_strings(ctx.rng, ctx.pick(700, 6000))
    reqs, keep = [], []
    for t in strs:
        b = t.encode('utf-8')
        # the coding theorems on the real functions
        np = posixpath.normpath(t)
        if posixpath.normpath(np) != np:
            ctx.failure('posixpath.normpath is not idempotent', {'p': t}, {'once': np, 'twice': posixpath.normpath(np)})
        if unquote_to_bytes(quote_from_bytes(b)) != b:
            ctx.failure('unquote_to_bytes(quote_from_bytes(p)) != p', {'p': t}, None)
        if np != '.' and any(c in ('.', '') for c in np.strip('/').split('/')) and np.strip('/') != '':
            ctx.failure("posixpath.normpath left a '.' or empty segment", {'p': t}, {'normpath': np})
        ctx.case({'coding': t}, True, tag='coding')
        ctx.count('coding:strings')
        if drv is None or not in_model_domain(t):
            continue
        reqs.append({'op': 'coding', 'p': enc(t)})
        keep.append(t)
    if drv is None:
        return
    for t, m in zip(keep, drv.query(reqs)):
        if 'err' in m:
            ctx.mismatch('driver error', {'coding': t}, None, m)
            continue
        b = t.encode('utf-8')
        try:
            sp = urlsplit(t)
            split = [sp.scheme, sp.netloc, sp.path, sp.query, sp.fragment]
            unsplit = urlunsplit(sp)
        except ValueError:
            split = unsplit = None
        try:
            unquote_to_bytes(b).decode('utf-8')
            uq_utf8 = True
        except UnicodeDecodeError:
            uq_utf8 = False
        cls = 'local' if is_local_url(t) else 'remote' if is_remote_url(t) else 'neither'
        impl = {'normpath': posixpath.normpath(t), 'quote': quote_from_bytes(b), 'unquote': unquote_to_bytes(b).decode('latin-1'),
                'dirname': os.path.dirname(t), 'utf8': True, 'uq_utf8': uq_utf8, 'quote_path': quote(t, safe='/'),
                'quote_netloc': quote(t, safe='@:'), 'quote_query': quote(t, safe=';/?:@=&'),
                'quote_local': quote(t, safe=':/\\'), 'class': cls}
        for k, v in impl.items():
            if k == 'class' and ('[' in t or ']' in t):
                # urlsplit raises ValueError for unbalanced IPv6 brackets in the netloc (the code then answers
                # "not a URL" and nothing is fetched); the bracket validation is not modelled
                ctx.count('coding:brackets-skipped')
                continue
            ctx.traces += 1
            mv = m[k]
            if k in ('normpath', 'dirname'):
                v = enc(v)
            if mv != v:
                ctx.mismatch('coding:' + k, {'p': t}, v, mv)
        if split is not None and '[' not in t and ']' not in t:
            ctx.traces += 2
            if [enc(x) for x in split] != m['split']:
                ctx.mismatch('coding:urlsplit', {'p': t}, split, m['split'])
            if enc(unsplit) != m['unsplit']:
                ctx.mismatch('coding:urlunsplit', {'p': t}, unsplit, m['unsplit'])


# ----------------------------------------------------------------------------------------------
# render: normalize_url of locations that are not local files
# ----------------------------------------------------------------------------------------------
RENDER_URLS = ['http://stub.test/other/inc.xsd', 'HTTP://Stub.Test/a b/c', 'http://stub.test/a%20b/c', 'http://stub.test/é',
               'https://u:p@stub.test:8080/p;x?q=1&r=a b#f g', 'ftp://stub.test/%2Fetc/x', 'http:/rooted', 'http:rel/x',
               'xyz:///p/q', 'xyz:opaque', 'http://stub.test', 'http://stub.test/', 'http://stub.test/a/../b/./c',
               'http://stub.test/a+b', 'http://stub.test/a+b%20c', 'http://stub.test/%41', 'http://stub.test/%zz',
               'http://stub.test/p?x=%26', 'http://stub.test/p#%23', ' http://stub.test/lead', 'http://stub.test/trail ',
               'svn+ssh://h/p', 'git:p/q', 'mailto:a@b.c', 'data:text/plain,hi there', 'http://stub.test/\\back',
               'http://stub.test/~t/_-.', 'ab://h/p', 'http://h/a|b', 'http://[::1]/p', 'urn:c12:mapped', 'urn:a:b?x',
               'x.xsd', '../up/x.xsd', 'sub/./y.xsd', '/abs/z.xsd', 'a b.xsd', 'a%20b.xsd', '%2e%2e/x', '?q', '#f', '']
RENDER_BASES = [None, HOST + '/sand/', HOST + '/sand', HOST, 'https://stub.test/p/../q/', 'http://stub.test/a b/', 'xyz://h/d/',
                'http://stub.test/a%20b/x', '{R}/sand']


def render_cases(ctx: Ctx, drv: Optional[Driver], tree: 'Tree') -> None:
    from xmlschema.utils.urls import normalize_url, is_remote_url, is_local_url
    urls = list(RENDER_URLS)
    for _ in range(ctx.pick(150, 1500)):
        k = ctx.rng.randint(0, 5)
        urls.append(ctx.rng.choice(['http://stub.test/', 'http://stub.test', 'xyz:', 'https://u@h:1/', 'ftp://h/', '', '', 'HTTP://H/']) +
                    ''.join(ctx.rng.choice(CODING_ALPHABET) for _ in range(k)))
    reqs, keep = [], []
    for u in urls:
        for b0 in RENDER_BASES:
            b = None if b0 is None else b0.replace('{R}', tree.root)
            try:
                r = normalize_url(u, b)
            except Exception as e:      # noqa
                r = None
                exc = type(e).__name__
            case = {'url': u, 'base': b0}
            ctx.case({'render': case}, True, tag='render')
            if r is not None and is_remote_scheme(r):
                # a location that normalises to a non-local URL is a remote URL for access_control and is
                # never handed to the file handler of urlopen (dispatch on the scheme of the rendered URL)
                ctx.count('render:remote')
                if not is_remote_url(r) or is_local_url(r) or urlsplit(r).scheme in ('', 'file'):
                    ctx.failure('a remote location was rendered as a URL that is treated as local', case, {'rendered': r})
            elif r is not None and is_remote_scheme(u.lstrip()):
                ctx.failure('a location with a non-local scheme was normalised to a local URL', case, {'rendered': r})
            if drv is not None and in_model_domain(u, b) and '[' not in u and ']' not in u:
                reqs.append({'op': 'render', 'cwd': enc(tree.sand), 'base': enc(b), 'url': enc(u)})
                keep.append((case, r))
    if drv is None:
        return
    for (case, r), m in zip(keep, drv.query(reqs)):
        if 'err' in m:
            ctx.mismatch('driver error', case, r, m)
            continue
        kind = m['norm']['kind']
        if kind != 'remote':
            ctx.count('render:model-' + kind)
            continue
        if m['url'] is None:
            # get_uri raises (URN forms) or a UTF-8 replacement is needed: not rendered by the model
            ctx.count('render:model-none')
            if r is not None:
                try:
                    unquote(case['url'], errors='strict')
                    ok = True
                except UnicodeDecodeError:
                    ok = False
                if ok and not case['url'].lstrip().lower().startswith('urn:'):
                    ctx.traces += 1
                    ctx.mismatch('remote rendering (model gives up, code renders)', case, r, m)
            continue
        ctx.traces += 1
        ctx.count('render:compared')
        if r is None or enc(r) != m['url']:
            ctx.mismatch('remote rendering', case, r, m)
        elif m['class'] != 'remote':
            ctx.mismatch('class of the rendered remote URL', case, r, m)


# ----------------------------------------------------------------------------------------------
# trace: whole load trees against the model the induction theorems are about
# ----------------------------------------------------------------------------------------------
TRACE_DIRS = ['sand', 'sand/sub', 'sand/sub/deep', 'sand/a b', 'sand_evil', 'other', '']


def encode_dotsegs(rng, loc: str) -> str:
    """percent-encode the dot segments of a spelling (whole segments only), each with probability 1/2"""
    head = ''
    for pre in ('file:///', 'file://', 'file:'):
        if loc.startswith(pre):
            head, loc = pre, loc[len(pre):]
            break
    segs = loc.split('/')
    for i, sg in enumerate(segs):
        if sg in ('.', '..') and rng.random() < 0.5:
            segs[i] = rng.choice(['%2E', '%2e']) if sg == '.' else rng.choice(['%2E%2E', '%2e%2e', '.%2E', '%2e.'])
    return head + '/'.join(segs)


def spell_local(rng, cur_dir: str, target: str, R: str) -> str:
    """a spelling of the absolute path `target` as seen from a document in the local directory `cur_dir`"""
    if rng.random() < 0.3:
        # an absolute location that climbs out of the referring document's directory with (encoded) parent steps
        deep = cur_dir + '/' + os.path.relpath(target, cur_dir)
        return rng.choice(['', 'file://', 'file:']) + encode_dotsegs(rng, deep)
    style = rng.random()
    if style < 0.55:
        body = os.path.relpath(target, cur_dir)
        segs = body.split('/')
        out = []
        for sg in segs:
            r = rng.random()
            if r < 0.12:
                out.append('.')
            if 0.2 < r < 0.28 and sg != '..':
                out.extend([sg, '..'])
            out.append(sg)
        if rng.random() < 0.2:
            # climb above the file system root and come back: normpath clamps at '/'
            pass
        body = '/'.join(out)
        pre = rng.choice(['', '', '', './', 'file:', ' '])
    elif style < 0.8:
        body = target if rng.random() < 0.6 else cur_dir + '/' + os.path.relpath(target, cur_dir)
        pre = rng.choice(['', '', 'file://', 'file:', 'file:///'])
        if pre == 'file:///':
            body = body[1:]
    else:
        body = target
        pre = 'file://'

    def pe(s: str) -> str:
        o = []
        for ch in s:
            r = rng.random()
            if r < 0.07 and ch != '/':
                o.append(('%%%02X' if rng.random() < 0.5 else '%%%02x') % ord(ch))
            elif ch == ' ':
                o.append(rng.choice([' ', '%20']))
            elif ch == '/' and r < 0.05:
                o.append(rng.choice(['//', '%2F']))
            else:
                o.append(ch)
        return ''.join(o)
    return pre + pe(body)


class TraceGen:
    """A random tree of documents written into the temp tree (local) or served by the stub (remote)."""

    def __init__(self, rng, tree: 'Tree', cid: int, allow: str) -> None:
        self.rng, self.tree, self.cid, self.allow = rng, tree, cid, allow
        self.n = 0
        self.files: list[str] = []          # created local files
        self.served: dict[str, bytes] = {}  # created remote documents (url path -> body)
        self.owner: dict[str, tuple[str, str]] = {}
        self.mapper: dict[str, str] = {}
        self.post: list = []                # postorder [loc, strict, n_children]
        self.size = 0

    def new_doc(self, remote: bool, depth: int, budget: list, imported: bool) -> tuple[str, str]:
        """creates a document (with its references, recursively); returns (where, location id)"""
        self.n += 1
        i = self.n
        d = self.rng.choice(TRACE_DIRS if self.allow != 'sandbox' or self.rng.random() < 0.35
                            else ['sand', 'sand/sub', 'sand/sub/deep', 'sand/a b'])
        name = f't{self.cid}_{i}.xsd'
        el = f'e{self.cid}_{i}'
        if remote:
            where = '/' + (d.replace(' ', '_') + '/' if d else '') + name
            cur = ('remote', os.path.dirname(where))
        else:
            where = os.path.join(self.tree.root, d, name) if d else os.path.join(self.tree.root, name)
            cur = ('local', os.path.dirname(where))
        refs = []
        kids = 0
        n_refs = 0 if depth >= 4 else self.rng.choice([0, 1, 1, 2, 2, 3])
        for _ in range(n_refs):
            if budget[0] <= 0:
                break
            budget[0] -= 1
            refs.append(self.new_ref(cur, depth + 1, budget))
            kids += 1
        tns = f' targetNamespace="urn:n{self.cid}_{i}"' if imported else ''
        body = (f'<xs:schema xmlns:xs="{XS}"{tns}>' + ''.join(refs) +
                f'<xs:element name="{el}" type="xs:string"/></xs:schema>')
        if remote:
            self.served[where] = body.encode()
            self.owner[el] = ('remote', where)
        else:
            os.makedirs(os.path.dirname(where), exist_ok=True)
            with open(where, 'w') as f:
                f.write(body)
            self.files.append(where)
            self.owner[el] = ('file', where)
        return where, kids, tns

    def new_ref(self, cur: tuple[str, str], depth: int, budget: list) -> str:
        """one reference element inside a document living in `cur`; appends the subtree in postorder"""
        from xml.sax.saxutils import quoteattr
        rng = self.rng
        r = rng.random()
        imported = rng.random() < 0.4
        kids = 0
        tns_attr = ''
        if r < 0.68:            # an existing local document
            where, kids, tns = self.new_doc(False, depth, budget, imported)
            if cur[0] == 'local':
                loc = spell_local(rng, cur[1], where, self.tree.root)
            else:
                loc = rng.choice(['file://', '']) + where
        elif r < 0.80:          # an existing remote document
            where, kids, tns = self.new_doc(True, depth, budget, imported)
            if cur[0] == 'remote' and rng.random() < 0.6:
                loc = os.path.relpath(where, cur[1])
            else:
                loc = rng.choice([HOST, 'HTTP://stub.test', HOST]) + where
        else:                   # nothing there: a missing file, a directory, an unserved URL
            tns = ' targetNamespace="urn:none"' if imported else ''
            if cur[0] == 'local':
                loc = rng.choice(['nope.xsd', '../nope/x.xsd', '.', '..', '../../other/nope.xsd', self.tree.root + '/other',
                                  HOST + '/nope.xsd', 'sub/', self.tree.root + '/sand_evil/nope.xsd', '../sand_evil/.'])
            else:
                loc = rng.choice(['nope.xsd', '../nope.xsd', self.tree.root + '/other/nope.xsd', HOST + '/nope2.xsd'])
        if not imported and rng.random() < 0.15:      # (an import normalises the location before the mapper sees it)
            key = f'urn:c12:k{len(self.mapper)}'
            self.mapper[key] = loc
            loc = key
        self.post.append([loc, not imported, kids])
        if imported:
            ns = tns.split('"')[1] if tns else 'urn:none'
            return f'<xs:import namespace="{ns}" schemaLocation={quoteattr(loc)}/>'
        return f'<xs:include schemaLocation={quoteattr(loc)}/>'

    def cleanup(self) -> None:
        for p in self.files:
            try:
                os.remove(p)
            except OSError:
                pass


def url_of_path(p: str) -> str:
    from urllib.parse import quote_from_bytes
    return 'file://' + quote_from_bytes(os.fsencode(p))


def run_trace_case(ctx: Ctx, tree: 'Tree', cid: int, seed: Any, with_req: bool) -> tuple[dict, dict, Optional[dict]]:
    """one load tree, reproducible from (seed, cid): generate the documents, build on the real code, evaluate"""
    import random
    from xmlschema import XMLSchema10
    from xmlschema.exceptions import XMLSchemaException
    os.makedirs(os.path.join(tree.root, 'sand/sub/deep'), exist_ok=True)
    rng = random.Random(f'{seed}:trace:{cid}')
    allow = MODES[cid % len(MODES)]
    gen = TraceGen(rng, tree, cid, allow)
    remote_root = allow in ('remote', 'all') and rng.random() < (0.8 if allow == 'remote' else 0.25)
    budget = [rng.choice([2, 4, 6, 9])]
    root_kids = 0
    refs = []
    cur = ('remote', '/sand') if remote_root else ('local', tree.sand)
    for _ in range(rng.choice([1, 2, 2, 3])):
        refs.append(gen.new_ref(cur, 1, budget))
        root_kids += 1
    body = (f'<xs:schema xmlns:xs="{XS}">' + ''.join(refs) + f'<xs:element name="e{cid}_0" type="xs:string"/></xs:schema>')
    name = f't{cid}_0.xsd'
    main_path = os.path.join(tree.sand, name)
    if remote_root:
        gen.served['/sand/' + name] = body.encode()
        src = HOST + '/sand/' + name
    else:
        with open(main_path, 'w') as f:
            f.write(body)
        gen.files.append(main_path)
        src = rng.choice([main_path, 'file://' + main_path, name, './' + name, tree.sand + '/sub/../' + name])
    base = rng.choice([None, None, tree.sand, tree.root, 'file://' + tree.sand]) if not remote_root else None
    if allow == 'sandbox' and remote_root:
        base = tree.sand
    gen.post.append([src, True, root_kids])
    kwargs: dict[str, Any] = {'allow': allow}
    if base is not None:
        kwargs['base_url'] = base
    if gen.mapper:
        kwargs['uri_mapper'] = dict(gen.mapper)
    Obs.table = dict(tree.table)
    Obs.table.update(gen.served)
    saved_owner = dict(tree.owner)
    tree.owner.update(gen.owner)
    Obs.events, Obs.served, Obs.access, Obs.inits = [], [], [], []
    sandbox_dir = None
    if allow == 'sandbox':
        sandbox_dir = tree.sand if base is None else (base[7:] if base.startswith('file://') else base)
    obs: dict[str, Any] = {'outcome': 'ok', 'elements': [], 'sandbox_dir': sandbox_dir, 'main_path': main_path}
    schema = None
    with warnings.catch_warnings():
        warnings.simplefilter('ignore')
        Obs.active = True
        try:
            schema = XMLSchema10(src, **kwargs)
        except (XMLSchemaException, OSError) as e:
            obs['outcome'] = type(e).__name__
            obs['message'] = str(e)[:160]
        except Exception as e:      # noqa
            obs['outcome'] = 'FOREIGN:' + type(e).__name__
            obs['message'] = str(e)[:160]
        finally:
            Obs.active = False
    if schema is not None:
        obs['elements'] = sorted(k.split('}')[-1] for k in schema.maps.elements if not k.startswith('{' + XS))
    obs.update(events=list(Obs.events), served=list(Obs.served), access=list(Obs.access), inits=list(Obs.inits))
    case = {'allow': allow, 'kind': 'remote-url' if remote_root else 'path', 'mech': 'trace', 'loc': src.replace(tree.root, '$R'),
            'base': None if base is None else base.replace(tree.root, '$R'), 'seed_case': cid, 'trace_seed': seed,
            'nodes': json.loads(json.dumps(gen.post).replace(tree.root, '$R')),
            'mapper': json.loads(json.dumps(gen.mapper).replace(tree.root, '$R'))}
    evaluate(ctx, tree, case, obs)
    # every child resource is constructed with the root's allow mode (settings.py:259-285)
    for r in obs['inits']:
        if r['allow'] != allow:
            ctx.failure('a sub-resource was constructed with another allow mode than the root', case,
                        {'source': r['source'], 'allow': r['allow']})
    req = None
    if with_req and in_model_domain(src, base, *[x[0] for x in gen.post], *gen.mapper.values()):
        req = {'op': 'trace', 'allow': allow, 'cwd': enc(tree.sand), 'base': enc(base), 'root': True,
               'docs': [enc(url_of_path(p)) for p in gen.files],
               'mapper': [[enc(k), enc(v)] for k, v in gen.mapper.items()],
               'nodes': [[enc(l), st, k] for l, st, k in gen.post]}
    tree.owner.clear()
    tree.owner.update(saved_owner)
    gen.cleanup()
    return case, obs, req


def trace_cases(ctx: Ctx, drv: Optional[Driver], tree: 'Tree') -> None:
    n_cases = ctx.pick(260, 2500)
    reqs, keep = [], []
    for cid in range(n_cases):
        case, obs, req = run_trace_case(ctx, tree, cid, ctx.seed, drv is not None)
        allow = case['allow']
        ctx.case(case, any(a['allow'] != 'all' and a['url'] is not None for a in obs['access']) or len(obs['inits']) > 1,
                 tag='mech:trace')
        ctx.count(f'trace:allow:{allow}')
        ctx.count('trace:resources', len(obs['inits']))
        ctx.count('trace:depth>=3' if any(r['callers'].count('schemas.__init__') >= 3 for r in obs['inits'])
                  else 'trace:depth<3')
        for a in obs['access']:
            ctx.count('trace:access:' + a['decision'])
        if req is not None:
            reqs.append(req)
            keep.append((case, [dict(r) for r in obs['inits']], obs['outcome']))
    if drv is None:
        return
    for (case, inits, outcome), m in zip(keep, drv.query(reqs)):
        if 'err' in m:
            ctx.mismatch('driver error', case, None, m)
            continue
        compare_trace(ctx, case, inits, outcome, m)


def compare_trace(ctx: Ctx, case: dict, inits: list, outcome: str, m: dict) -> None:
    """recorded XMLResource constructions of the real build, in order, against the model's events"""
    evs = m['events']
    k = 0
    for ev in evs:
        if ev['ev'] == 'undecided':
            # a Windows / UNC / URN form or an unrendered remote URL: the model stops describing this branch;
            # the part of the trace before it is still compared
            ctx.count('trace:undecided')
            break
        if k >= len(inits):
            ctx.traces += 1
            ctx.mismatch('trace: the model predicts a resource construction the build did not make', case,
                         [(r['source'], r['base'], r['decision']) for r in inits], evs)
            return
        r = inits[k]
        k += 1
        ctx.traces += 1
        ctx.count('trace:events')
        d = r['decision']
        if d.startswith('error:'):
            ctx.count('trace:impl-' + d)
            return
        exp_dec = 'ok' if ev['ev'] == 'opened' else ev['decision']
        rbase = r['base']
        if k == 1 and rbase is None and case['allow'] == 'sandbox':
            rbase = r.get('eff_base')       # the root derives its sandbox from the main source itself
        same = (enc(r['source'].strip()) == ev['loc'].strip() and enc(rbase) == ev['base'] and d == exp_dec)
        if same and ev['ev'] == 'opened':
            n = ev['norm']
            if n['kind'] == 'file':
                same = enc(r['url']) == n['url']
            elif n['kind'] == 'remote' and ev.get('rurl') is not None:
                same = enc(r['url']) == ev['rurl']
        if not same:
            ctx.mismatch('trace: resource construction #%d differs' % k, case,
                         {'source': r['source'], 'base': r['base'], 'url': r['url'], 'decision': d}, ev)
            return
    else:
        ctx.traces += 1
        if k != len(inits):
            ctx.mismatch('trace: the build constructed more resources than the model predicts', case,
                         [(r['source'], r['base'], r['decision']) for r in inits[k:]], evs)
        elif m['aborted'] != (outcome == 'XMLResourceBlocked'):
            ctx.mismatch('trace: abort by a blocked strict reference', case, outcome, m['aborted'])
        else:
            ctx.count('trace:complete')


# ----------------------------------------------------------------------------------------------
# driver of the run
# ----------------------------------------------------------------------------------------------
BASES_FOR_NORM = [None, '{R}/sand', '{R}/sand/', 'file://{R}/sand', 'sub', '../sand_evil', HOST + '/sand/', HOST,
                  '', '/', '{R}/sand/a b', '{R}/sand/a%20b', 'https://stub.test/p/../q/', '{R}/sand/%2e%2e/other', '.']


def explore(ctx: Ctx, drv: Optional[Driver], full: bool) -> None:
    install_observers()
    tree = Tree()
    Obs.root = tree.root
    old_cwd = os.getcwd()
    os.chdir(tree.sand)
    batch = Batch()
    try:
        import xmlschema
        xmlschema.XMLSchema10(leaf_inc('warm'))
        xmlschema.XMLSchema11(leaf_inc('warm'))
        R = tree.root
        idx = 0
        # ---- 1. the catalogue -------------------------------------------------------------
        for mi, mech in enumerate(MECHS):
            f = 'inc.xsd' if mech in ('include', 'redefine', 'override', 'uri-mapper') else 'imp.xsd'
            sp = spellings(R, f)
            n_rand = ctx.pick(25, 150)
            sp = sp + [random_spelling(ctx.rng, R, f) for _ in range(n_rand)]
            # dot-segment encodings x carriers x routes: the full product in the thorough tier; in the quick tier every
            # (carrier, encoding) pair with a rotating route / separator, different for every mechanism
            ds = dotseg_spellings(R, f)
            if not full:
                pick: dict[tuple, list] = {}
                for loc, cls, tag in ds:
                    pick.setdefault(tuple(tag.split(':')[1:3]), []).append((loc, cls, tag))
                ds = [v[(mi * 5 + ctx.rng.randrange(len(v))) % len(v)] for v in pick.values()] + \
                     [v[(mi * 7 + 3 + ctx.rng.randrange(len(v))) % len(v)] for v in pick.values()]
            tags = {}
            for loc, cls, tag in ds:
                tags[loc] = tag
                sp.append((loc, cls))
            for si, (loc, cls) in enumerate(sp):
                for ai, allow in enumerate(MODES):
                    kinds = KINDS if full else [KINDS[(mi + si + ai) % len(KINDS)]]
                    for kind in kinds:
                        idx += 1
                        case = {'allow': allow, 'kind': kind, 'mech': mech, 'loc': loc.replace(R, '$R'), 'class': cls}
                        obs = run_real(tree, allow, kind, mech, loc, idx)
                        evaluate(ctx, tree, case, obs)
                        nontrivial = any(a['allow'] != 'all' and a['url'] is not None for a in obs['access'])
                        ctx.case(case, nontrivial, tag=f'mech:{mech}')
                        ctx.count(f'allow:{allow}')
                        if loc in tags:
                            ctx.count(':'.join(tags[loc].split(':')[:3]))
                            ctx.count('dotseg-class:' + cls)
                        ctx.count(f'kind:{kind}')
                        ctx.count(f'class:{cls}')
                        ctx.count('outcome:' + obs['outcome'])
                        for a in obs['access']:
                            ctx.count('impl-access:' + a['decision'])
                        if drv is not None:
                            collect_model_requests(batch, case, obs, tree.sand)
                # normalisation of the spelling against every base
                if drv is not None and mi in (0, 3):
                    for b in BASES_FOR_NORM:
                        base = None if b is None else b.replace('{R}', R)
                        if in_model_domain(loc, base):
                            batch.add({'op': 'norm', 'cwd': enc(tree.sand), 'base': enc(base), 'url': enc(loc)},
                                      'norm', {'url': loc.replace(R, '$R'), 'base': b}, impl_norm(loc, base))
        # ---- 2. nested references: the sandbox of a sub-resource -----------------------------
        nested(ctx, tree, batch if drv is not None else None)
        # ---- 3. whole load trees, remote rendering, the stdlib re-implementations ------------------
        newline_cases(ctx, tree, batch if drv is not None else None)
        remote_base_cases(ctx, tree, batch if drv is not None else None)
        twin_cases(ctx, tree, batch if drv is not None else None)
        degenerate_base_cases(ctx, tree, batch if drv is not None else None)
        trace_cases(ctx, drv, tree)
        render_cases(ctx, drv, tree)
        coding_cases(ctx, drv)
        construct_cases(ctx, tree, batch if drv is not None else None)
        reparse_cases(ctx, tree, batch if drv is not None else None)
        if drv is not None:
            compare_batch(ctx, batch, drv)
            ctx.extra['driver_requests'] = len(batch.reqs)
        # report an actually forbidden fetch before the weaker 'fetch without a passed check' symptom
        ctx.failures.sort(key=lambda f: ('without a passed access_control' in f['what'], 'non-library' in f['what'],
                                         'settings' in f['what']))
    finally:
        os.chdir(old_cwd)
        Obs.active = False
        tree.close()


def nested(ctx: Ctx, tree: Tree, batch: Optional[Batch]) -> None:
    """Chains main -> sub/a.xsd -> <spelling>: the reference is made from a sub-directory of the sandbox."""
    from xmlschema import XMLSchema10
    from xmlschema.exceptions import XMLSchemaException
    R = tree.root
    hops = [('inc.xsd', 'in'), ('../inc.xsd', 'in'), ('../../sand_evil/inc.xsd', 'sibling'), ('../../other/inc.xsd', 'outside'),
            (f'{R}/sand/inc.xsd', 'in'), (f'{R}/other/inc.xsd', 'outside'), ('../../sand/a%20b/inc.xsd', 'in'),
            ('../../inc.xsd', 'outside'), (f'{HOST}/other/inc.xsd', 'remote'), ('..%2F..%2Fsand_evil/inc.xsd', 'sibling')]
    for allow in MODES:
        for loc, cls in hops:
            for explicit_base in (False, True):
                a_path = os.path.join(tree.sand, 'sub', 'a.xsd')
                with open(a_path, 'w') as f:
                    f.write(main_text('include', loc).replace('name="m"', 'name="a"'))
                m_path = os.path.join(tree.sand, 'main_n.xsd')
                with open(m_path, 'w') as f:
                    f.write(main_text('include', 'sub/a.xsd'))
                case = {'allow': allow, 'kind': 'path', 'mech': 'nested-include', 'loc': loc.replace(R, '$R'),
                        'class': cls, 'explicit_base': explicit_base}
                Obs.table = dict(tree.table)
                Obs.events, Obs.served, Obs.access, Obs.inits = [], [], [], []
                obs: dict[str, Any] = {'outcome': 'ok', 'elements': [], 'sandbox_dir': tree.sand, 'main_path': m_path}
                schema = None
                with warnings.catch_warnings():
                    warnings.simplefilter('ignore')
                    Obs.active = True
                    try:
                        kw = {'base_url': tree.sand} if explicit_base else {}
                        schema = XMLSchema10(m_path, allow=allow, **kw)
                    except (XMLSchemaException, OSError) as e:
                        obs['outcome'] = type(e).__name__
                    except Exception as e:      # noqa
                        obs['outcome'] = 'FOREIGN:' + type(e).__name__
                    finally:
                        Obs.active = False
                if schema is not None:
                    obs['elements'] = sorted(k for k in schema.maps.elements if not k.startswith('{'))
                obs.update(events=list(Obs.events), served=list(Obs.served), access=list(Obs.access), inits=list(Obs.inits))
                evaluate(ctx, tree, case, obs)
                ctx.case(case, any(a['allow'] != 'all' for a in obs['access']), tag='mech:nested-include')
                ctx.count('outcome:' + obs['outcome'])
                if batch is not None:
                    collect_model_requests(batch, case, obs, tree.sand)
                try:
                    os.remove(a_path)
                except OSError:
                    pass


def newline_cases(ctx: Ctx, tree: Tree, batch: Optional[Batch]) -> None:
    """Locations with percent-encoded control characters, joined to a REMOTE base (regression family of C12-F4, fixed by
    600200c, and of remote_render_newline_witness): under local / sandbox / none no remote request may be made."""
    locs = ['in%0Ac.xsd', 'in%0ac.xsd', 'in%0Dc.xsd', 'in%09c.xsd', '%0A/../inc.xsd', 'in%0A%0Ac.xsd', 'i%0Anc.xsd?x=1', 'inc.xsd',
            'imp%0A.xsd']
    for allow in MODES:
        for loc in locs:
            for base in (HOST + '/other/', 'HTTP://stub.test/other/x.xsd', 'ftp://stub.test/other/'):
                case = {'allow': allow, 'kind': 'text', 'mech': 'newline-remote-base', 'loc': loc, 'base': base, 'class': 'remote'}
                obs = run_remote_base(tree, allow, 'text', 'include', loc, base, 0)
                evaluate(ctx, tree, case, obs)
                ctx.case(case, any(a['allow'] != 'all' for a in obs['access']), tag='mech:newline-remote-base')
                ctx.count('outcome:' + obs['outcome'])
                if batch is not None:
                    collect_model_requests(batch, case, obs, tree.sand)


_PLAIN_SCHEMA: list = []


def plain_schema() -> Any:
    if not _PLAIN_SCHEMA:
        from xmlschema import XMLSchema10
        _PLAIN_SCHEMA.append(XMLSchema10(leaf_inc('m')))
    return _PLAIN_SCHEMA[0]


def run_remote_base(tree: Tree, allow: str, kind: str, mech: str, loc: str, base: Any, idx: int,
                    sandbox_dir: Optional[str] = None, main_dir: Optional[str] = None) -> dict:
    """one case on the real code with an explicit `base_url` of any accepted type (remote-base and degenerate-base
    families); kind 'path': the main document is written into `main_dir`; mechanisms parse-resource /
    parse-xmldocument: a resource / document built from text is re-parsed from `loc`"""
    import xml.etree.ElementTree as ET
    import xmlschema
    from xmlschema import XMLSchema10, XMLSchema11, XMLResource, XmlDocument
    from xmlschema.exceptions import XMLSchemaException
    is_parse = mech.startswith('parse-')
    text = '<m>x</m>' if is_parse else main_text(mech, loc)
    name = f'rb_{idx % 5}.' + ('xml' if mech.startswith('hint') else 'xsd')
    Obs.table = dict(tree.table)
    Obs.table[f'/sand/{name}'] = text.encode()
    kwargs: dict[str, Any] = {'allow': allow, 'base_url': base}
    main_path = ''
    if kind == 'text' or is_parse:
        src: Any = text
    elif kind == 'fileobj':
        src = io.BytesIO(text.encode())
    elif kind == 'element':
        src = ET.fromstring(text)
    elif kind == 'path':
        main_path = os.path.join(main_dir or tree.sand, 'dg_' + name)
        with open(main_path, 'w') as f:
            f.write(text)
        src = main_path
    else:
        src = f'{HOST}/sand/{name}'
    if mech == 'uri-mapper':
        kwargs['uri_mapper'] = {'urn:c12:mapped': loc}
    if mech == 'locations':
        kwargs['locations'] = {'urn:imp': loc}
    Obs.events, Obs.served, Obs.access, Obs.inits = [], [], [], []
    obs: dict[str, Any] = {'outcome': 'ok', 'elements': [], 'sandbox_dir': sandbox_dir, 'main_path': main_path}
    schema = None
    with warnings.catch_warnings():
        warnings.simplefilter('ignore')
        Obs.active = True
        try:
            if mech == 'parse-resource':
                res = XMLResource(src, **kwargs)
                res.parse(loc)
            elif mech == 'parse-xmldocument':
                doc = XmlDocument(src, schema=plain_schema(), validation='skip', **kwargs)
                doc.parse(loc)
            elif mech == 'hint-fetch':
                try:
                    xmlschema.validate(src, **kwargs)
                except xmlschema.XMLSchemaValidationError:
                    obs['outcome'] = 'invalid'
            elif mech == 'hint-dynamic':
                schema = XMLSchema10(DYN_SCHEMA, allow=allow, base_url=base)
                errs = list(schema.iter_errors(src, use_location_hints=True))
                obs['outcome'] = 'invalid' if errs else 'ok'
            else:
                cls = XMLSchema11 if mech == 'override' else XMLSchema10
                schema = cls(src, **kwargs)
        except (XMLSchemaException, OSError) as e:
            obs['outcome'] = type(e).__name__
            obs['message'] = str(e)[:160]
        except Exception as e:      # noqa
            obs['outcome'] = 'FOREIGN:' + type(e).__name__
            obs['message'] = str(e)[:160]
        finally:
            Obs.active = False
    if schema is not None:
        try:
            obs['elements'] = sorted(k.split('}')[-1] for k in schema.maps.elements if not k.startswith('{' + XS))
        except Exception:       # noqa
            pass
    obs.update(events=list(Obs.events), served=list(Obs.served), access=list(Obs.access), inits=list(Obs.inits))
    return obs


def remote_base_cases(ctx: Ctx, tree: Tree, batch: Optional[Batch]) -> None:
    """allow mode x REMOTE base_url x main-source kind x mechanism x spelling (relative to the remote base /
    absolute remote / local).  In sandbox mode every remote URL is refused, also when it lies below the remote
    sandbox base; a remote main source with a remote base is refused as well."""
    R = tree.root
    bases = [HOST + '/sand/', HOST + '/sand', 'HTTP://stub.test/sand/x.xsd', 'https://stub.test/']
    kinds = ['text', 'fileobj', 'element', 'remote-url']
    mechs = ['include', 'redefine', 'override', 'import', 'uri-mapper', 'locations', 'hint-fetch', 'hint-dynamic']
    idx = 0
    for allow in MODES:
        for mi, mech in enumerate(mechs):
            f = 'inc.xsd' if mech in ('include', 'redefine', 'override', 'uri-mapper') else 'imp.xsd'
            spell = [f, './' + f, 'sub/' + f, 'sub/../' + f, '../other/' + f, '/sand/' + f, f'{HOST}/sand/{f}', f'{HOST}/sand/sub/{f}',
                     f'{HOST}/other/{f}', f'HTTP://stub.test/sand/{f}', f'{R}/sand/{f}', f'file://{R}/sand/{f}', '%2e/' + f]
            for si, loc in enumerate(spell):
                for bi, base in enumerate(bases):
                    ks = kinds if (not ctx.quick() or allow == 'sandbox') else [kinds[(mi + si + bi) % len(kinds)]]
                    for kind in ks:
                        if mech == 'hint-fetch' and kind == 'element':
                            continue
                        idx += 1
                        case = {'allow': allow, 'kind': kind, 'mech': 'remote-base:' + mech, 'loc': loc.replace(R, '$R'),
                                'base': base, 'class': 'remote-base', 'idx': idx}
                        obs = run_remote_base(tree, allow, kind, mech, loc, base, idx)
                        evaluate(ctx, tree, case, obs)
                        ctx.case(case, any(a['allow'] != 'all' and a['url'] is not None for a in obs['access']),
                                 tag='mech:remote-base')
                        ctx.count(f'remote-base:{allow}')
                        ctx.count('outcome:' + obs['outcome'])
                        for a in obs['access']:
                            ctx.count('impl-access:' + a['decision'])
                        if batch is not None:
                            collect_model_requests(batch, case, obs, tree.sand)


DEGENERATE_MECHS = ['include', 'redefine', 'override', 'import', 'uri-mapper', 'locations', 'locations-lazy', 'hint-fetch',
                    'hint-dynamic', 'parse-resource', 'parse-xmldocument']


def degenerate_bases(cwd: str) -> list[tuple[str, Any, str]]:
    """(label, base_url value, directory it denotes) — every falsy / degenerate / relative / non-str value that
    BaseUrlOption accepts, for the working directory `cwd`"""
    import pathlib
    up = os.path.dirname(cwd)
    out: list[tuple[str, Any, str]] = [
        ('empty', '', cwd), ('blank', ' ', cwd), ('dot', '.', cwd), ('dot-slash', './', cwd), ('file-colon', 'file:', cwd),
        ('cwd', cwd, cwd), ('cwd-slash', cwd + '/', cwd), ('cwd-url-slash', 'file://' + cwd + '/', cwd),
        ('cwd-dotdot', cwd + '/sub/..', cwd), ('rel-up-down', '../' + os.path.basename(cwd), cwd),
        ('bytes-empty', b'', cwd), ('bytes-dot', b'.', cwd), ('bytes-cwd', os.fsencode(cwd), cwd),
        ('pathlib-dot', pathlib.Path('.'), cwd), ('pathlib-cwd', pathlib.Path(cwd), cwd),
        ('pathlib-empty', pathlib.PurePosixPath(''), cwd),
    ]
    if os.path.isdir(os.path.join(cwd, 'sub')):
        sub = os.path.join(cwd, 'sub')
        out += [('rel-sub', 'sub', sub), ('rel-sub-slash', 'sub/', sub), ('rel-dot-sub', './sub/.', sub),
                ('bytes-sub', b'sub', sub), ('pathlib-sub', pathlib.Path('sub'), sub)]
    if up.startswith('/tmp/'):
        out += [('dotdot', '..', up), ('dotdot-slash', '../', up)]
    return out


def degenerate_base_cases(ctx: Ctx, tree: Tree, batch: Optional[Batch]) -> None:
    """allow mode x DEGENERATE base_url ('' , ' ', '.', './', 'file:', trailing slash, relative, bytes, pathlib) x working
    directory (inside the tree, deeper inside, in a sibling of the sandbox, in a second tree outside the first) x
    source kind x mechanism (incl. XMLResource.parse / XmlDocument.parse) x target inside / outside the directory
    that the base denotes.  base_url='' is a base (the working directory), not "no base"."""
    R = tree.root
    old_cwd = os.getcwd()
    pool = [os.path.join(R, 'sand'), os.path.join(R, 'sand/sub'), os.path.join(R, 'sand_evil'), os.path.join(R, 'other'),
            tree.root2, os.path.join(tree.root2, 'sub'), R]
    kinds = ['text', 'fileobj', 'element', 'path']
    idx = 0
    try:
        for ci, cwd in enumerate([tree.sand, os.path.join(R, 'other'), tree.root2]):
            os.chdir(cwd)
            bases = degenerate_bases(cwd)
            if ctx.quick() and ci > 0:      # the full list for the first working directory, the falsy / typed core for the others
                core_labels = {'empty', 'blank', 'dot', 'file-colon', 'bytes-empty', 'pathlib-dot', 'pathlib-empty', 'rel-sub', 'dotdot',
                               'cwd-slash'}
                bases = [b for b in bases if b[0] in core_labels]
            for bi, (label, base, E) in enumerate(bases):
                outside_dirs = [d for d in pool if not inside(E, d)]
                if not ctx.quick():
                    outside_dirs = outside_dirs[:2] + outside_dirs[-2:-1]     # in-tree siblings and the second tree
                for mi, mech in enumerate(DEGENERATE_MECHS):
                    f = 'inc.xsd' if mech in ('include', 'redefine', 'override', 'uri-mapper', 'parse-resource',
                                              'parse-xmldocument') else 'imp.xsd'
                    targets = [('in', f)]
                    for oi, d in enumerate(outside_dirs):
                        P = os.path.join(d, f)
                        sp = [('out-relative', os.path.relpath(P, E)), ('out-absolute', P), ('out-file-url', 'file://' + P)]
                        targets += sp if not ctx.quick() else [sp[(ci + bi + mi + oi) % 3]]
                    if ctx.quick():
                        k = (ci + bi + mi) % max(1, len(targets) - 1)
                        targets = [targets[0], targets[1 + k]] if len(targets) > 1 else targets
                    for ti, (tcls, loc) in enumerate(targets):
                        modes = MODES if not ctx.quick() else ['sandbox', MODES[(ci + bi + mi + ti) % len(MODES)]]
                        for allow in dict.fromkeys(modes):
                            ks = kinds if not ctx.quick() else [kinds[(ci + bi + mi + ti) % len(kinds)]]
                            for kind in ks:
                                idx += 1
                                case = {'allow': allow, 'kind': kind, 'mech': 'degenerate-base:' + mech,
                                        'loc': loc.replace(R, '$R').replace(tree.root2, '$R2'), 'class': tcls,
                                        'base': label, 'cwd': cwd.replace(R, '$R').replace(tree.root2, '$R2'), 'idx': idx}
                                obs = run_remote_base(tree, allow, kind, mech, loc, base, idx,
                                                      sandbox_dir=E if allow == 'sandbox' else None, main_dir=E)
                                evaluate(ctx, tree, case, obs)
                                ctx.case(case, any(a['allow'] != 'all' and a['url'] is not None for a in obs['access']),
                                         tag='mech:degenerate-base')
                                ctx.count(f'degenerate-base:{label}')
                                ctx.count('outcome:' + obs['outcome'])
                                for a in obs['access']:
                                    ctx.count('impl-access:' + a['decision'])
                                if batch is not None:
                                    collect_model_requests(batch, case, obs, cwd)
    finally:
        os.chdir(old_cwd)


# ----------------------------------------------------------------------------------------------
# class of the resource object x fetch through parse() after construction
# ----------------------------------------------------------------------------------------------
_RECLASSES: dict[str, Any] = {}
WSDL_TEXT = '<wsdl:definitions xmlns:wsdl="http://schemas.xmlsoap.org/wsdl/" targetNamespace="urn:w" name="first"/>'
SETTING_NAMES = ('allow', 'base_url', 'defuse', 'timeout', 'uri_mapper', 'opener')


def reparse_classes() -> dict[str, Any]:
    """label -> (class, depth below XMLResource): the library's resource classes and user subclasses of them, one and
    two levels deeper, with a mixin before / after the library class in the bases (the settings of a resource must
    not depend on where in the class hierarchy the object sits)"""
    if not _RECLASSES:
        from xmlschema import XMLResource, XmlDocument
        from xmlschema.extras.wsdl import Wsdl11Document

        class Mixin:
            marker = 'c12'

        class UserResource(XMLResource):
            pass

        class UserResource2(UserResource):
            pass

        class UserDocument(XmlDocument):
            pass

        class UserDocument2(UserDocument):
            extra = 1

        class MixinFirstDocument(Mixin, XmlDocument):
            pass

        class MixinLastDocument(XmlDocument, Mixin):
            pass

        class MixinResource(Mixin, XMLResource):
            pass

        class UserWsdl(Wsdl11Document):
            pass

        _RECLASSES.update({
            'resource': XMLResource, 'resource-sub': UserResource, 'resource-sub2': UserResource2,
            'resource-mixin': MixinResource, 'xmldocument': XmlDocument, 'doc-sub': UserDocument,
            'doc-sub2': UserDocument2, 'doc-mixin-first': MixinFirstDocument, 'doc-mixin-last': MixinLastDocument,
            'wsdl': Wsdl11Document, 'wsdl-sub': UserWsdl})
    return _RECLASSES


def wsdl_schema() -> Any:
    if len(_PLAIN_SCHEMA) < 2:
        from xmlschema import XMLSchema10
        from xmlschema.extras.wsdl import SCHEMAS_DIR
        plain_schema()
        _PLAIN_SCHEMA.append(XMLSchema10(str(SCHEMAS_DIR.joinpath('WSDL', 'wsdl.xsd'))))
    return _PLAIN_SCHEMA[1]


def settings_of(doc: Any) -> dict:
    out = {}
    for k in SETTING_NAMES:
        v = getattr(doc, k, None)
        out[k] = v if v is None or isinstance(v, (str, int, float, bool)) else \
            dict(v) if isinstance(v, dict) else ('obj', id(v))
    return out


def run_reparse(tree: Tree, allow: str, cname: str, first: str, steps: list, opts: dict, idx: int) -> dict:
    """a resource object of class `cname` is built from a permitted first source with the settings under test, then
    `steps` = [(location, lazy)] are loaded into the same object with parse().  Observed per step: outcome, the first
    XMLResource construction it made, the settings before / after, what get_arguments() would rebuild with, and
    whether the content of the object changed."""
    from xmlschema.exceptions import XMLSchemaException, XMLResourceBlocked
    cls = reparse_classes()[cname]
    is_doc = cname.startswith('doc') or cname == 'xmldocument'
    is_wsdl = cname.startswith('wsdl')
    text = WSDL_TEXT if is_wsdl else '<m>first</m>'
    Obs.table = dict(tree.table)
    kwargs: dict[str, Any] = {'allow': allow}
    kwargs['base_url'] = tree.sand     # also for Wsdl11Document (forwarded to the resource since fix C12-F7, 1a788be)
    if first == 'text':
        src: Any = text
    elif first == 'fileobj':
        src = io.BytesIO(text.encode())
    elif first == 'path':
        src = os.path.join(tree.sand, 'first_doc.xml')
        with open(src, 'w') as f:
            f.write(text)
    else:
        Obs.table['/sand/first_doc.xml'] = text.encode()
        src = f'{HOST}/sand/first_doc.xml'
    if opts.get('mapper'):
        kwargs['uri_mapper'] = {'urn:c12:mapped': opts['mapper']}
    if opts.get('defuse'):
        kwargs['defuse'] = opts['defuse']
    if is_doc:
        kwargs.update(schema=plain_schema(), validation='skip')
    if is_wsdl:
        kwargs.update(schema=wsdl_schema(), validation='skip')
    Obs.events, Obs.served, Obs.access, Obs.inits = [], [], [], []
    obs: dict[str, Any] = {'outcome': 'ok', 'elements': [], 'sandbox_dir': tree.sand if allow == 'sandbox' else None,
                           'main_path': src if first == 'path' else '', 'steps': [], 'ctor': 'ok'}
    with warnings.catch_warnings():
        warnings.simplefilter('ignore')
        try:
            doc = cls(src, **kwargs)            # not observed: the first source is a permitted one or the case is void
        except (XMLSchemaException, OSError, ValueError, AssertionError) as e:
            obs['ctor'] = type(e).__name__
            obs.update(events=[], served=[], access=[], inits=[])
            return obs
        requested = settings_of(doc)
        obs['requested'] = requested
        Obs.served = []                 # what the (permitted) first source needed is not part of the case
        Obs.active = True
        try:
            for loc, lazy in steps:
                root0 = doc.root
                n0 = len(Obs.inits)
                st: dict[str, Any] = {'loc': loc, 'lazy': lazy, 'outcome': 'ok'}
                try:
                    doc.parse(loc, lazy) if lazy else doc.parse(loc)
                except XMLResourceBlocked as e:
                    st['outcome'] = blocked_kind(str(e))
                except (XMLSchemaException, OSError) as e:
                    st['outcome'] = 'error:' + type(e).__name__
                    st['message'] = str(e)[:120]
                except Exception as e:      # noqa
                    st['outcome'] = 'FOREIGN:' + type(e).__name__
                    st['message'] = str(e)[:120]
                    obs['outcome'] = st['outcome']
                Obs.active = False
                st['first_init'] = dict(Obs.inits[n0]) if len(Obs.inits) > n0 else None
                st['settings'] = settings_of(doc)
                try:
                    ga = doc.get_arguments()
                    st['rebuild'] = {k: (ga[k] if not isinstance(ga[k], dict) else dict(ga[k])) if k in ga else '<absent>'
                                     for k in ('allow', 'base_url', 'defuse', 'uri_mapper')}
                except Exception as e:      # noqa
                    st['rebuild'] = {'error': type(e).__name__}
                st['content_changed'] = doc.root is not root0
                st['url'] = doc.url
                obs['steps'].append(st)
                Obs.active = True
        finally:
            Obs.active = False
    obs.update(events=list(Obs.events), served=list(Obs.served), access=list(Obs.access), inits=list(Obs.inits))
    return obs


def evaluate_reparse(ctx: Ctx, tree: Tree, case: dict, obs: dict, batch: Optional[Batch]) -> None:
    """settings survive every parse(); the model's decision for (configured allow, configured base, location) is the
    outcome of the step; a refused step leaves the content alone"""
    req = obs['requested']
    R = tree.root

    def clean(x: Any) -> Any:
        return json.loads(json.dumps(x, default=str).replace(R, '$R'))

    cur = dict(req)
    for n, st in enumerate(obs['steps']):
        # the only setting that may move is base_url, and only to the directory of the URL a SUCCESSFUL step loaded
        # (BaseUrlOption.__get__); under sandbox that directory lies inside the configured base (the sandbox only narrows)
        want_s = dict(cur)
        if st['outcome'] == 'ok' and isinstance(st['url'], str):
            want_s['base_url'] = os.path.dirname(st['url'])
        if st['settings'] != want_s:
            ctx.failure('the settings of the resource changed in parse()', case,
                        clean({'step': n, 'expected': want_s, 'after': st['settings'], 'outcome': st['outcome']}))
            return
        if req['allow'] == 'sandbox' and req['base_url'] is not None and want_s['base_url'] is not None and \
                not inside(url_path(req['base_url']), url_path(want_s['base_url'])):
            ctx.failure('parse() moved the sandbox base outside the configured base', case,
                        clean({'step': n, 'configured': req['base_url'], 'after': want_s['base_url']}))
            return
        rb = st['rebuild']
        want = {k: want_s[k] for k in ('allow', 'base_url', 'defuse', 'uri_mapper')}
        if rb != want:
            ctx.failure('get_arguments() does not carry the access settings of the resource', case,
                        clean({'step': n, 'settings': want, 'rebuild_arguments': rb}))
            return
        if st['outcome'].startswith('blocked') and st['content_changed']:
            ctx.failure('a refused parse() replaced the content of the resource', case, clean({'step': n, 'step_obs': st}))
            return
        r = st['first_init']
        if r is not None:
            if r['allow'] != cur['allow'] or r['base'] != cur['base_url']:
                ctx.failure('parse() rebuilt the resource with other access settings than the configured ones', case,
                            clean({'step': n, 'configured': [cur['allow'], cur['base_url']], 'rebuilt_with': [r['allow'], r['base']],
                                   'outcome': st['outcome'], 'url': st['url']}))
                return
            if batch is not None:
                loc = r['source'].strip()
                if r['mapper'] and loc in r['mapper']:
                    loc = r['mapper'][loc]
                mbase = cur['base_url']
                if in_model_domain(loc, mbase):
                    # the decision of the MODEL under the settings in effect against what the step did
                    d = st['outcome'] if st['outcome'].startswith('blocked') else r['decision']
                    batch.add({'op': 'resolve', 'allow': cur['allow'], 'cwd': enc(tree.sand), 'base': enc(mbase),
                               'loc': enc(loc)},
                              'resolve', clean({**case, 'step': n, 'base': mbase}),
                              {'decision': d, 'url': r['url'], 'eff_base': r.get('eff_base')})
        cur = want_s


REPARSE_FIRST = ['text', 'path', 'fileobj', 'remote-url']


def reparse_targets(R: str) -> list[tuple[str, str]]:
    s = os.path.join(R, 'sand')
    return [('in', 'inc.xsd'), ('in', 'sub/inc.xsd'), ('in', f'{s}/inc.xsd'), ('in', f'file://{s}/sub/../inc.xsd'),
            ('out', '../other/inc.xsd'), ('out', f'{R}/sand_evil/inc.xsd'), ('out', f'file://{R}/other/inc.xsd'),
            ('out', f'file://{s}/%2E%2E/sand_evil/inc.xsd'), ('out', 'sub/../../other/inc.xsd'), ('out', f'{s}/../inc.xsd'),
            ('remote', f'{HOST}/sand/inc.xsd'), ('remote', f'HTTP://stub.test/other/inc.xsd')]


def reparse_case_args(tree: Tree, cname: str, allow: str, ti: int, ci: int, ai: int, variant: int) -> tuple[str, list, dict]:
    tg = reparse_targets(tree.root)
    if cname.startswith('wsdl'):                # same places, WSDL documents (written by reparse_cases)
        tg = [(c, u.replace('inc.xsd', 'inc.wsdl')) for c, u in tg]
    tcls, loc = tg[ti]
    k = ci + ai + ti + variant
    first = REPARSE_FIRST[k % len(REPARSE_FIRST)]
    if allow in ('remote', 'none') and first == 'path' or allow in ('local', 'sandbox', 'none') and first == 'remote-url':
        first = 'text'                          # the first source must be a permitted one
    lazy = [False, True, 2][k % 3] if not cname.startswith('wsdl') else False
    opts: dict[str, Any] = {}
    steps = [(loc, lazy)]
    if k % 4 == 1:
        opts['mapper'] = loc                    # the location reaches parse() through the URI mapper
        steps = [('urn:c12:mapped', lazy)]
    if k % 5 == 2:
        opts['defuse'] = 'always'
    if variant:                                 # a permitted (or refused) parse first, then the location: settings survive both
        pre = tg[(ti + 5) % len(tg)][1]
        steps = [(pre, False)] + steps
    return first, steps, opts


def reparse_cases(ctx: Ctx, tree: Tree, batch: Optional[Batch]) -> None:
    """class of the resource object (XMLResource, XmlDocument, Wsdl11Document, user subclasses one and two levels
    deeper, mixins) x allow mode x location (inside / outside the base / remote; relative, absolute, file URL,
    encoded dot segments) fetched through parse() AFTER construction, once and after a previous parse(); rotating
    first-source kind, lazy mode, uri-mapper route and defuse mode."""
    idx = 0
    n_t = len(reparse_targets(tree.root))
    for d in ('sand', 'sand/sub', 'sand_evil', 'other'):
        with open(os.path.join(tree.root, d, 'inc.wsdl'), 'w') as f:
            f.write(WSDL_TEXT.replace('first', 'w_' + d.replace('/', '_')))
        tree.table[f'/{d}/inc.wsdl'] = WSDL_TEXT.replace('first', 'rw_' + d.replace('/', '_')).encode()
    for ci, cname in enumerate(reparse_classes()):
        for ai, allow in enumerate(MODES):
            for ti in range(n_t):
                for variant in ((0, 1) if (not ctx.quick() or (ci + ai + ti) % 3 == 0) else (0,)):
                    idx += 1
                    first, steps, opts = reparse_case_args(tree, cname, allow, ti, ci, ai, variant)
                    case = {'allow': allow, 'kind': first, 'mech': 'reparse:' + cname, 'loc': steps[-1][0].replace(tree.root, '$R'),
                            'class': reparse_targets(tree.root)[ti][0], 'target': ti, 'variant': variant, 'ci': ci, 'ai': ai,
                            'steps': [[s[0].replace(tree.root, '$R'), s[1]] for s in steps],
                            'opts': {k: str(v).replace(tree.root, '$R') for k, v in opts.items()}, 'idx': idx}
                    obs = run_reparse(tree, allow, cname, first, steps, opts, idx)
                    if obs['ctor'] != 'ok':
                        ctx.count('reparse-ctor:' + obs['ctor'])
                        ctx.count(f'reparse-void:{cname}:{allow}')
                        continue
                    evaluate(ctx, tree, case, obs)
                    evaluate_reparse(ctx, tree, case, obs, batch)
                    ctx.case(case, any(a['allow'] != 'all' and a['url'] is not None for a in obs['access']), tag='mech:reparse')
                    ctx.count(f'reparse:{cname}')
                    for st in obs['steps']:
                        ctx.count('reparse-step:' + st['outcome'].split(':')[0])
                    for a in obs['access']:
                        ctx.count('impl-access:' + a['decision'])
                    if batch is not None:
                        collect_model_requests(batch, case, obs, tree.sand)



CTORS_BUILD = ['plain', 'parent', 'no-meta', 'global-maps', 'build-later']
CTORS_POST = ['post-call', 'copy', 'pickle', 'deepcopy-maps']
XML_NS = 'http://www.w3.org/XML/1998/namespace'


def run_construct(tree: Tree, allow: str, ctor: str, mech: str, loc: str, xsd11: bool, kind: str, idx: int) -> dict:
    """how the schema object comes into being x mechanism: the settings seen by EVERY fetch must be the requested ones"""
    import copy
    import pickle
    from xmlschema import XMLSchema10, XMLSchema11
    from xmlschema.exceptions import XMLSchemaException
    cls = XMLSchema11 if (xsd11 or mech == 'override') else XMLSchema10
    post = ctor in CTORS_POST
    build_mech = 'locations' if (post or mech in ('hint-dynamic', 'hint-meta-ns')) else mech
    text = DYN_SCHEMA if mech in ('hint-dynamic', 'hint-meta-ns') else main_text(build_mech, loc)
    name = f'ct_{idx % 5}.xsd'
    path = os.path.join(tree.sand, name)
    with open(path, 'w') as f:
        f.write(text)
    kwargs: dict[str, Any] = {'allow': allow}
    if kind == 'path':
        src: Any = path
    else:
        src = text
        kwargs['base_url'] = tree.sand
    if mech == 'uri-mapper':
        kwargs['uri_mapper'] = {'urn:c12:mapped': loc}
    if build_mech in ('locations', 'locations-lazy') and not post and mech in ('locations', 'locations-lazy'):
        kwargs['locations'] = {'urn:imp': loc}
    if mech == 'hint-meta-ns':
        instance = (f'<m xmlns:xsi="{XSI}"><i:r xmlns:i="urn:other" xsi:schemaLocation="{XML_NS} {loc.replace(" ", "%20")}">x</i:r></m>')
    else:
        instance = main_text('hint-dynamic', loc)
    doc_lazy = os.path.join(tree.sand, 'doc_lazy.xml')
    if not os.path.exists(doc_lazy):
        with open(doc_lazy, 'w') as f:
            f.write('<m><i:r xmlns:i="urn:imp">x</i:r></m>')
    Obs.table = dict(tree.table)
    Obs.events, Obs.served, Obs.access, Obs.inits = [], [], [], []
    obs: dict[str, Any] = {'outcome': 'ok', 'elements': [], 'sandbox_dir': tree.sand, 'main_path': path}
    schema = None
    with warnings.catch_warnings():
        warnings.simplefilter('ignore')
        Obs.active = True
        try:
            if ctor in ('plain',) or post:
                schema = cls(src, **kwargs)
            elif ctor == 'parent':
                schema = cls(src, parent=cls(leaf_inc('ctor_parent')), **kwargs)
            elif ctor == 'no-meta':
                schema = cls(src, use_meta=False, **kwargs)
            elif ctor == 'global-maps':
                owner = cls(leaf_inc('ctor_owner'), **{k: v for k, v in kwargs.items() if k != 'locations'},
                            **({} if 'base_url' in kwargs else {'base_url': tree.sand}))
                schema = cls(src, global_maps=owner.maps, build=False,
                             **({'locations': kwargs['locations']} if 'locations' in kwargs else {}))
                schema.build()
            elif ctor == 'build-later':
                schema = cls(src, build=False, **kwargs)
                schema.build()
            if ctor == 'copy':
                schema = copy.copy(schema)
            elif ctor == 'pickle':
                schema = pickle.loads(pickle.dumps(schema))
            elif ctor == 'deepcopy-maps':
                schema = schema.maps.copy().validator
                if not schema.built:
                    schema.build()
            if post and mech in ('include', 'redefine', 'uri-mapper'):
                schema.include_schema('urn:c12:mapped' if mech == 'uri-mapper' else loc, build=True)
            elif post and mech == 'import':
                schema.import_schema('urn:imp', loc, build=True)
            elif post and mech == 'add-schema':
                schema.add_schema(loc, build=True)
            elif post and mech == 'load-namespace':
                schema.maps.loader.locations['urn:imp'] = [loc] if hasattr(schema.maps.loader.locations, '__setitem__') else None
                schema.load_namespace('urn:imp')
            if mech == 'locations-lazy':
                obs['lazy_errors'] = len(list(schema.iter_errors(doc_lazy)))
            if mech in ('hint-dynamic', 'hint-meta-ns'):
                errs = list(schema.iter_errors(instance, use_location_hints=True))
                obs['outcome'] = 'invalid' if errs else 'ok'
        except (XMLSchemaException, OSError) as e:
            obs['outcome'] = type(e).__name__
            obs['message'] = str(e)[:160]
        except Exception as e:      # noqa
            obs['outcome'] = 'FOREIGN:' + type(e).__name__
            obs['message'] = str(e)[:160]
        finally:
            Obs.active = False
    if schema is not None:
        try:
            obs['elements'] = sorted(k.split('}')[-1] for k in schema.maps.elements if not k.startswith('{' + XS))
            obs['maps_allow'] = schema.maps.settings.allow
            obs['schema_allow'] = schema.allow
        except Exception:       # noqa
            pass
    obs.update(events=list(Obs.events), served=list(Obs.served), access=list(Obs.access), inits=list(Obs.inits))
    return obs


def construct_cases(ctx: Ctx, tree: Tree, batch: Optional[Batch]) -> None:
    """allow mode x HOW THE SCHEMA OBJECT IS CONSTRUCTED (plain, parent=, use_meta=False, global_maps=, build=False then
    build(), copy, pickle, maps copy, include_schema / import_schema / add_schema after construction) x XSD 1.0/1.1 x
    mechanism x target class: the maps-level settings equal the requested ones and every fetch obeys them."""
    R = tree.root
    # a schema for the xml namespace (hint for a namespace owned by the meta-schema)
    xmlns_path = os.path.join(R, 'other', 'xmlns.xsd')
    with open(xmlns_path, 'w') as f:
        f.write(f'<xs:schema xmlns:xs="{XS}" targetNamespace="{XML_NS}"><xs:attribute name="c12" type="xs:string"/></xs:schema>')
    idx = 0
    old_cwd = os.getcwd()
    os.chdir(tree.sand)
    try:
        combos = [(c, m) for c in CTORS_BUILD for m in ('include', 'redefine', 'override', 'import', 'uri-mapper', 'locations',
                                                        'locations-lazy', 'hint-dynamic')]
        combos += [(c, m) for c in CTORS_POST for m in ('include', 'import', 'add-schema', 'uri-mapper', 'hint-dynamic')]
        combos += [(c, 'hint-meta-ns') for c in CTORS_BUILD + CTORS_POST]        # LAST: pollutes the shared meta-schema maps (C12-F6)
        for ci, (ctor, mech) in enumerate(combos):
            f = 'inc.xsd' if mech in ('include', 'redefine', 'override', 'uri-mapper', 'add-schema') else 'imp.xsd'
            if mech == 'hint-meta-ns':
                sp = [('outside', 'file://' + xmlns_path), ('outside', '../other/xmlns.xsd')]
            else:
                sp = [('in', f), ('sibling', f'../sand_evil/{f}'), ('outside', f'{R}/other/{f}'), ('remote', f'{HOST}/other/{f}')]
                if ctx.quick():
                    sp = [sp[0], sp[1 + ci % 2], sp[3]]
            for si, (tcls, loc) in enumerate(sp):
                for ai, allow in enumerate(MODES):
                    vers = [False, True] if not ctx.quick() else [bool((ci + si + ai) % 2)]
                    for xsd11 in vers:
                        kinds = ['path', 'text'] if not ctx.quick() else [['path', 'text'][(ci + si + ai) % 2]]
                        for kind in kinds:
                            idx += 1
                            case = {'allow': allow, 'kind': kind, 'mech': 'construct:' + mech, 'ctor': ctor, 'xsd11': xsd11,
                                    'loc': loc.replace(R, '$R'), 'class': tcls, 'idx': idx}
                            obs = run_construct(tree, allow, ctor, mech, loc, xsd11, kind, idx)
                            evaluate(ctx, tree, case, obs)
                            det = {'outcome': obs['outcome'], 'maps_allow': obs.get('maps_allow'), 'schema_allow': obs.get('schema_allow')}
                            # the maps-level settings are the requested ones, however the schema was constructed
                            if obs.get('maps_allow') not in (None, allow) or obs.get('schema_allow') not in (None, allow):
                                ctx.failure('the settings of the schema maps differ from the requested allow mode', case, det)
                            for r in obs['inits']:
                                if r['allow'] != allow and not known_match(case, {'what': '', 'allow_all': [
                                        {'url': r['url'] or '', 'callers': r['callers']}], 'requests': [r['url'] or ''],
                                        'served': [], 'opened': []}):
                                    ctx.failure('a resource was constructed with another allow mode than the requested one', case,
                                                {'source': r['source'], 'allow': r['allow'], 'callers': r['callers'][:6]})
                                    break
                            ctx.case(case, any(a['allow'] != 'all' and a['url'] is not None for a in obs['access']),
                                     tag='mech:construct')
                            ctx.count(f'construct:{ctor}')
                            ctx.count('outcome:' + obs['outcome'])
                            if batch is not None:
                                collect_model_requests(batch, case, obs, tree.sand)
    finally:
        os.chdir(old_cwd)


class use_sand:
    """run_real / evaluate work relative to `tree.sand` and the working directory: point both at another sandbox"""

    def __init__(self, tree: Tree, sb: str) -> None:
        self.tree, self.sb = tree, sb

    def __enter__(self) -> None:
        self.old = (self.tree.sand, os.getcwd())
        self.tree.sand = self.sb
        os.chdir(self.sb)

    def __exit__(self, *a: Any) -> None:
        self.tree.sand = self.old[0]
        os.chdir(self.old[1])


def twin_spellings(sb: str, target: str) -> list[tuple[str, str]]:
    from urllib.parse import quote
    import re
    rel = os.path.relpath(target, sb)
    q = quote(target)
    return [('relative', rel), ('absolute', target), ('file-url', 'file://' + q),
            ('file-url-lowerhex', 'file://' + re.sub(r'%[0-9A-F]{2}', lambda m: m.group(0).lower(), q)),
            ('relative-quoted', quote(rel)), ('file-url-raw', 'file://' + target)]


TWIN_MECHS = ['include', 'import', 'redefine', 'override', 'uri-mapper', 'locations', 'locations-lazy', 'hint-fetch',
              'hint-dynamic', 'main-source']


def run_twin(tree: Tree, sb: str, allow: str, kind: str, mech: str, loc: str, idx: int) -> dict:
    """one case with the sandbox `sb` (a directory that has twins as siblings and ancestors)"""
    with use_sand(tree, sb):
        if mech != 'main-source':
            return run_real(tree, allow, kind, mech, loc, idx)
        # the main source itself lies in a twin directory; base_url = the sandbox
        from xmlschema import XMLSchema10
        from xmlschema.exceptions import XMLSchemaException
        Obs.table = dict(tree.table)
        Obs.events, Obs.served, Obs.access, Obs.inits = [], [], [], []
        obs: dict[str, Any] = {'outcome': 'ok', 'elements': [], 'sandbox_dir': sb, 'main_path': ''}
        schema = None
        base = sb if kind not in ('file-url', 'file-url-quoted') else url_of_path(sb)
        with warnings.catch_warnings():
            warnings.simplefilter('ignore')
            Obs.active = True
            try:
                schema = XMLSchema10(loc, allow=allow, base_url=base)
            except (XMLSchemaException, OSError) as e:
                obs['outcome'] = type(e).__name__
                obs['message'] = str(e)[:160]
            except Exception as e:      # noqa
                obs['outcome'] = 'FOREIGN:' + type(e).__name__
                obs['message'] = str(e)[:160]
            finally:
                Obs.active = False
        if schema is not None:
            obs['elements'] = sorted(k.split('}')[-1] for k in schema.maps.elements if not k.startswith('{' + XS))
        obs.update(events=list(Obs.events), served=list(Obs.served), access=list(Obs.access), inits=list(Obs.inits))
        return obs


def twin_cases(ctx: Ctx, tree: Tree, batch: Optional[Batch]) -> None:
    """sandbox x mechanism x spelling for targets in directories that are TWINS of a component of the base (letter
    case, Unicode normalisation, percent-encoding, '+'/space, trailing dot/space), as siblings and as ancestors.
    Property evaluation is byte-exact on real paths (`inside`).  allow='all' is run as the positive control: the
    spelling really reaches the twin file."""
    R = tree.root
    idx = 0
    for ti, t in enumerate(tree.twins):
        sb = t['sb']
        for mi, mech in enumerate(TWIN_MECHS):
            f = 'inc.xsd' if mech in ('include', 'redefine', 'override', 'uri-mapper', 'main-source') else 'imp.xsd'
            target = os.path.join(t['dir'], f)
            sp = twin_spellings(sb, target)
            if ctx.quick():
                sp = [sp[(ti + mi) % len(sp)], sp[(ti + mi + 2) % len(sp)]]
            for si, (sname, loc) in enumerate(sp):
                modes = ['sandbox', 'all'] if (ctx.quick() and (ti + mi + si) % 4) else ['sandbox', 'all', 'local', 'none']
                for allow in modes:
                    if '%' in sb:
                        # a literal '%' in a component of the sandbox: a plain path would be percent-DEcoded by the
                        # library (paths are read as URLs), so the caller has to pass quoted file URLs
                        kinds = ['file-url-quoted']
                    elif ctx.quick():
                        kinds = [['path', 'text', 'file-url'][(ti + mi + si) % 3]]
                    else:
                        kinds = ['path', 'file-url', 'text', 'fileobj', 'pathlib', 'file-url-quoted']
                    for kind in kinds:
                        idx += 1
                        case = {'allow': allow, 'kind': kind, 'mech': 'twin:' + mech, 'loc': loc.replace(R, '$R'),
                                'class': 'twin', 'twin': t['why'], 'pos': t['pos'], 'sb': sb.replace(R, '$R'),
                                'spelling': sname}
                        obs = run_twin(tree, sb, allow, kind, mech, loc, idx)
                        with use_sand(tree, sb):
                            evaluate(ctx, tree, case, obs)
                        reached = any(p == target for e, p in obs['events'] if e == 'open')
                        ctx.case(case, any(a['allow'] != 'all' and a['url'] is not None for a in obs['access']),
                                 tag='mech:twin')
                        ctx.count(f"twin:{t['why'].split(':')[0]}:{t['pos']}")
                        if allow == 'all':
                            ctx.count('twin:control-reached' if reached else 'twin:control-not-reached')
                        ctx.count('outcome:' + obs['outcome'])
                        for a in obs['access']:
                            ctx.count('impl-access:' + a['decision'])
                        if batch is not None:
                            collect_model_requests(batch, case, obs, sb)


def translate(ctx: Ctx) -> None:
    """Regenerate the mode enumeration the exhaustive-case theorems range over."""
    from xmlschema.arguments import SECURITY_MODES
    text = ('/- GENERATED by harness/props/c12.py from xmlschema/arguments.py (SECURITY_MODES). Do not edit. -/\n'
            'namespace XsVerif.Generated.C12\n'
            'def securityModes : List String := [' + ', '.join(json.dumps(m) for m in sorted(SECURITY_MODES)) + ']\n'
            'end XsVerif.Generated.C12\n')
    p = LEAN / 'XsVerif' / 'Generated' / 'C12.lean'
    p.parent.mkdir(exist_ok=True)
    if not p.exists() or p.read_text() != text:
        p.write_text(text)


def run(ctx: Ctx, driver_ok: bool) -> None:
    load_findings(ctx)
    drv = Driver('drv_c12') if driver_ok else None
    explore(ctx, drv, full=not ctx.quick())
    ctx.extra['exhaustive'] = not ctx.quick()
    ctx.extra['explanation'] = ('catalogue of %d spellings per mechanism x %d mechanisms x %d modes x %s; '
                                'plus seeded random spellings and nested include chains' %
                                (len(spellings('/r', 'f')), len(MECHS), len(MODES),
                                 'every source kind' if not ctx.quick() else 'a rotating source kind'))


def search(ctx: Ctx) -> None:
    if ctx.quick():
        explore(ctx, None, full=True)


def replay(ctx: Ctx, obj: dict) -> int:
    print(json.dumps(obj, indent=1)[:3000])
    case = obj.get('input')
    if not case or 'mech' not in case:
        return 0
    load_findings(ctx)
    install_observers()
    tree = Tree()
    Obs.root = tree.root
    old = os.getcwd()
    os.chdir(tree.sand)
    try:
        import xmlschema
        xmlschema.XMLSchema10(leaf_inc('warm'))
        xmlschema.XMLSchema11(leaf_inc('warm'))
        loc = case['loc'].replace('$R', tree.root)
        if case['mech'] == 'nested-include':
            print('nested cases are re-run by the quick tier; replaying the inner reference as a plain include')
            case = dict(case, mech='include')
        if case['mech'] == 'trace':
            case, obs, _ = run_trace_case(ctx, tree, case['seed_case'], case.get('trace_seed', obj.get('seed', 0)), False)
            print('regenerated load tree (postorder [location, strict, children]):', case['nodes'])
        elif case['mech'] == 'newline-remote-base':
            obs = run_remote_base(tree, case['allow'], 'text', 'include', loc, case['base'], 0)
        elif case['mech'].startswith('twin:'):
            sb = case['sb'].replace('$R', tree.root)
            obs = run_twin(tree, sb, case['allow'], case['kind'], case['mech'].split(':', 1)[1], loc, 0)
            tree.sand = sb
        elif case['mech'].startswith('degenerate-base:'):
            cwd = case['cwd'].replace('$R2', tree.root2).replace('$R', tree.root)
            os.chdir(cwd)
            label, base, E = [b for b in degenerate_bases(cwd) if b[0] == case['base']][0]
            loc = case['loc'].replace('$R2', tree.root2).replace('$R', tree.root)
            print('base_url =', repr(base), ' cwd =', case['cwd'], ' denotes', E.replace(tree.root2, '$R2').replace(tree.root, '$R'))
            obs = run_remote_base(tree, case['allow'], case['kind'], case['mech'].split(':', 1)[1], loc, base,
                                  case.get('idx', 0), sandbox_dir=E if case['allow'] == 'sandbox' else None, main_dir=E)
        elif case['mech'].startswith('construct:'):
            os.makedirs(os.path.join(tree.root, 'other'), exist_ok=True)
            with open(os.path.join(tree.root, 'other', 'xmlns.xsd'), 'w') as f:
                f.write(f'<xs:schema xmlns:xs="{XS}" targetNamespace="{XML_NS}"><xs:attribute name="c12" type="xs:string"/></xs:schema>')
            print('constructor:', case['ctor'], ' XSD 1.1:', case['xsd11'])
            obs = run_construct(tree, case['allow'], case['ctor'], case['mech'].split(':', 1)[1], loc, case['xsd11'],
                                case['kind'], case.get('idx', 0))
            print('  schema.allow =', obs.get('schema_allow'), ' maps.settings.allow =', obs.get('maps_allow'))
        elif case['mech'].startswith('reparse:'):
            cname = case['mech'].split(':', 1)[1]
            first, steps, opts = reparse_case_args(tree, cname, case['allow'], case['target'], case['ci'], case['ai'], case['variant'])
            print('class', reparse_classes()[cname].__mro__[:-1], ' first source:', first, ' parse steps:', case['steps'], case['opts'])
            obs = run_reparse(tree, case['allow'], cname, first, steps, opts, case.get('idx', 0))
            for st in obs.get('steps', ()):
                print('  parse', st['loc'].replace(tree.root, '$R'), 'lazy=%s' % st['lazy'], '->', st['outcome'], ' settings after:',
                      st['settings'], ' rebuild arguments:', st['rebuild'])
            evaluate_reparse(ctx, tree, case, obs, None)
        elif case['mech'].startswith('remote-base:'):
            obs = run_remote_base(tree, case['allow'], case['kind'], case['mech'].split(':', 1)[1], loc, case['base'],
                                  case.get('idx', 0))
        else:
            obs = run_real(tree, case['allow'], case['kind'], case['mech'], loc, 0)
        print('REAL CODE: outcome', obs['outcome'], obs.get('message', ''))
        print('  opened  :', [p.replace(tree.root, '$R') for e, p in obs['events'] if e == 'open'])
        print('  requests:', [u.replace(tree.root, '$R') for e, u in obs['events'] if e == 'req'])
        print('  served  :', obs['served'])
        print('  access  :', [(a['allow'], str(a['url']).replace(tree.root, '$R'), a['decision']) for a in obs['access']])
        print('  elements:', obs['elements'])
        try:
            drv = Driver('drv_c12')
            reqs = [{'op': 'resolve', 'allow': r['allow'], 'cwd': enc(tree.sand), 'base': enc(r['base']),
                     'loc': enc(r['source'])} for r in obs['inits']]
            for r, m in zip(obs['inits'], drv.query(reqs)):
                print('MODEL    :', r['source'].replace(tree.root, '$R'), '->', m['decision'], m['norm'].get('url', m['norm']['kind']))
        except Exception as e:      # noqa
            print('model not available:', e)
        if case['mech'] != 'trace':
            evaluate(ctx, tree, case, obs)
        for f in ctx.failures:
            print('FAILS ON THE REAL CODE:', f['what'], f['detail'])
        for fid, n in ctx.known_hits.items():
            print('matches known finding', fid, f'({n} judgement(s))')
        return 1 if ctx.failures else 0
    finally:
        os.chdir(old)
        tree.close()
