"""
C08 — identity constraints: ID/IDREF and unique/key/keyref are enforced exactly.

Cases: constraint templates (1-3 fields on attributes / child elements, typed integer / decimal /
boolean / string / QName, constraints on the root, on a repeated section, on a sub-section, on a
recursive section, key references to the same element or to a key of a descendant element) x tables
of field tuples (exhaustive small tables + seeded random ones) with lexical variants of equal
values, absent fields and duplicates, plus ID / IDREF attributes, x SEVERAL CONSTRAINTS SELECTING THE SAME
ELEMENT (keyref on the key's own rows = parent-pointer tables, second unique / key on the item and on the ref rows,
K on a proper prefix of the fields so that a node lacks a field of one constraint and has all fields of another)
x DECLARATION ORDER on a scope element (shuffled: keyref before / after its key, unique + key + keyref mixes)
x ID / IDREF / IDREFS AT EVERY DEPTH (attributes id / idr / idrs on the validation root itself, containers, rows,
notes; element-position leaves eid / eref / erefs / eidx in containers and at the bottom of note chains; references
up, down, sideways, to the root; duplicates across levels; XSD 1.1 shared id_list of an element and its ID-typed
children; partial inputs: the validation root is an inner element, as a document or inside a bigger tree)
x nested / sibling scope elements (`sub` also directly under the root: a closed scope's counter precedes an open
one in context.identities) x the NAMESPACE DECLARATIONS IN SCOPE
where a field value is read: xmlns declarations (prefix rebindings p/q/r -> urn:a/b/c, default namespace on
the target-namespace template) on the root, on containers, on the selected rows, on the field child elements,
on leading (`pre`) / trailing (`note`) children of a row and their descendants, and on sibling `note`
elements between rows; source kinds ElementTree element + `namespaces` argument (xmlns processing 'none'),
XML text and lxml tree (stacked xmlns contexts), with / without a conflicting `namespaces` argument.

For every case the real schema is built from generated XSD text, the instance is validated with
`iter_errors`, and three things are compared:

  I   the real errors, mapped to (kind, constraint, node) enums;
  M   the Lean port of the algorithm of the current tree (XsVerif/Model/Identity.lean `runDoc`, `idRun`;
      it includes the repairs cc593f3 and b32146f, former findings C08-F6 / C08-F7) run on what
      was actually built (constraints, selector / field paths, static binding, declared types read from the
      real objects; instance nodes paired with their declarations by a validation hook)  -> must be equal, as
      multisets of (kind, constraint, node, times) AND as the sequence in which the identity errors are raised
      (the model's collect loop runs over the open constraints in dict order of context.identities);
  S   the property itself: an independent Python reading of the XSD rules on the generator's abstract
      table (tiny path evaluator, value classes) and the Lean `specClauses` (whose per-scope checks are
      the Prop-valued spec of Props/C08.lean) -> a difference between I and S is a failing input unless it
      is one of the listed findings F3, F4, F5, F8 (exact rules in `known_match`; F8 = a QName field on a child
      element with xmlns declarations of its own is resolved with the selected node's map; `detect_mode` replays its
      witness and switches the driver to the repaired variant of the model when the tree resolves at the field
      node, the rule then disappears).  F6 (unique compared partially
      absent tuples) and F7 (KeyError when the referenced key never occurs) are FIXED in the library: they
      have no match rule any more, so a recurrence is reported as a violation; their witnesses are replayed
      on every run as ordinary cases (WITNESSES, corpus/C08) and must now satisfy the property.
"""
from __future__ import annotations

import itertools
import json
import re
from pathlib import Path
from typing import Any, Optional
from xml.etree import ElementTree as ET

from harness.core import Ctx, Driver, VERIF

PROPS = 'XsVerif.Props.C08'
AUDIT = 'XsVerif.Audit.C08'
LEAN_TARGETS = ['XsVerif.Props.C08', 'drv_c08']
LEANCHECK = ['XsVerif.Model.Identity', 'XsVerif.Props.C08']
RULE = ('a case is one (schema template, constraint set, document) triple; non-trivial = at least one '
        'constraint scope collected >= 2 field tuples or one tuple with an absent field, or an ID/IDREF pair is '
        'present; distinct by canonical JSON of the abstract case')
TRUSTED = ['selector / field XPath evaluation by elementpath is cross-checked by the Lean path evaluator '
           '(Model/Identity.lean `Path.elems`) and by an independent Python evaluator in this file; only the restricted '
           'syntax child steps, *, ., .//, @attr and | is generated',
           'declared types of field nodes are read from the built schema components (attribute/element type names)',
           'xmlns declarations of the instance elements are read from the loaded resource (XMLResource.get_xmlns) and the '
           'initial namespace map from NamespaceMapper(namespaces, source=resource): the loader (expat / lxml) and '
           'the construction of the initial map are inputs of the model, not modelled (C17 covers the mapper)']
ASSUMPTIONS = ['documents are valid apart from identity constraints (checked: any other error kind aborts the case as a '
               'generator fault)',
               'at most one ID attribute per element; in XSD 1.1 documents an element of a COMPLEX type with xs:ID simple '
               'content (eidx) occurs only as the validation root (inside a document the code binds its value to the element '
               'itself, XSD 1.1 to its parent: not generated, not judged); no list-valued fields, no xsi:type inside constraint scopes '
               '(C10 covers the xsi:type widening)',
               'keyref tuples that match a key value present in more than one scope instance of the referenced key '
               '(XSD conflict rule) are not judged: the property text does not fix that case',
               'every prefix used in a QName value is declared in the document at the node that carries it; fully loaded '
               'resources only (lazy validation and the opt-in lossy xmlns_processing modes collapsed / root-only / none '
               'are not exercised)']
FINDINGS_FILE = VERIF / 'notes' / 'findings' / 'C08.json'

XS = 'http://www.w3.org/2001/XMLSchema'
NSDECL = {'p': 'urn:a', 'q': 'urn:a', 'r': 'urn:b'}
TNS = 'urn:t'                                   # target namespace of the `tns` templates (prefix t)
# a `namespaces` argument that the document's declarations must override (were it to win, p:x = r:x and p:x != q:x)
NSARG = {'p': 'urn:b', 'q': 'urn:c', 'z': 'urn:b'}
URIS = ['urn:a', 'urn:b', 'urn:c']
ROOTREG = False         # the tree under check records an ID that is the CONTENT of the validation root (C08-F9 repaired)
FSCOPE = False          # the tree under check resolves QName fields at the field node (C08-F8 repaired); see detect_mode

# value pools: type -> list of (value key, lexical variants).  Equal value keys (within one primitive
# family) denote the same value of the value space.
# FALSY values (Python truthiness of what get_value returns: int / Decimal zero in every spelling, the empty string)
# are ordinary members of every pool, and the order of the classes is permuted per case (`gen_doc`), so that they
# are as frequent as any other value in complete AND incomplete tuples.
POOL = {
    'integer': [('n1', ['1', '01', '+1', ' 1 ']), ('n2', ['2', '+2', '002']),
                ('n0', ['0', '-0', '+00', ' 0 ', '000'])],
    'decimal': [('n1', ['1', '1.0', '01.00', '+1.']), ('n2.5', ['2.5', '2.50', '+2.5']),
                ('n0', ['0', '.0', '-0.0', '0.0', '+0.', '00.00', '-0']), ('n2', ['2.0', '2'])],
    'boolean': [('bT', ['true', '1', ' true ']), ('bF', ['false', '0', ' false', '0 '])],
    'string': [('s:a', ['a']), ('s:A', ['A']), ('s:1', ['1']), ('s:01', ['01']), ('s:{urn:a}x', ['{urn:a}x']),
               ('s:true', ['true']), ('s:', ['']), ('s: ', [' ']), ('s:0', ['0']), ('s:  ', ['  '])],
    # QName value keys are NOT part of the case: the oracle computes them from the lexical form and the
    # declarations in scope of the abstract node (`resolve_qname`); the keys here hold under NSDECL only
    'QName': [('{urn:a}x', ['p:x', 'q:x', ' p:x']), ('{urn:a}y', ['p:y']), ('{urn:b}x', ['r:x']), ('x', ['x'])],
}
PRIM = {'integer': 'decimal', 'decimal': 'decimal', 'boolean': 'boolean', 'string': 'string', 'QName': 'qname'}
LEAN_TY = {'integer': 'integer', 'decimal': 'decimal', 'boolean': 'boolean', 'string': 'string', 'QName': 'qname'}
TYPES = list(POOL)

# element structure of every template (declaration name -> allowed children)
STRUCT = {'root': ['sec', 'item', 'ref'], 'sec': ['item', 'ref', 'sub', 'sec'], 'sub': ['item', 'ref']}
# besides: every container admits `note` elements among its children; a row (item / ref) is
#   pre*, the child-located fields, note*      where pre / note are empty elements that may nest notes
# selectors usable from each scope declaration for a row tag
SELECTORS = {
    'root': ['{t}', 'sec/{t}', './/{t}', '*/{t}', 'sec/sub/{t}', '{t}|sec/{t}', './sec/{t}', 'sec/*/{t}'],
    'sec': ['{t}', 'sub/{t}', './/{t}', '{t}|sub/{t}', './{t}'],
    'sub': ['{t}', './/{t}'],
}


# ------------------------------------------------------------------------------------------------
# tiny path evaluator over the abstract document (independent of elementpath and of Lean)
# ------------------------------------------------------------------------------------------------
def parse_xpath(text: str, nsmap: Optional[dict] = None) -> list[dict]:
    """restricted syntax -> [{'d': bool, 's': [steps], 'a': attr|None}]; with `nsmap` (the namespaces of the
    schema component) prefixed name steps are expanded to '{uri}local', the form of the instance tags"""
    def expand(st: str) -> str:
        if nsmap and ':' in st:
            pfx, loc = st.split(':', 1)
            return '{%s}%s' % (nsmap[pfx], loc)
        return st

    out = []
    for alt in text.replace(' ', '').split('|'):
        d = False
        if alt.startswith('.//'):
            d = True
            alt = alt[3:]
        steps: list[str] = []
        attr = None
        for st in alt.split('/'):
            if st.startswith('child::'):
                st = st[7:]
            if st.startswith('@'):
                attr = st[1:]
            elif st.startswith('attribute::'):
                attr = st[11:]
            else:
                steps.append(expand(st))
        out.append({'d': d, 's': steps, 'a': attr})
    return out


def a_dos(n: dict) -> list[dict]:
    out = [n]
    for k in n['kids']:
        out.extend(a_dos(k))
    return out


def a_elems(path: dict, n: dict) -> list[dict]:
    cur = a_dos(n) if path['d'] else [n]
    for st in path['s']:
        nxt = []
        for x in cur:
            if st == '.':
                nxt.append(x)
            else:
                nxt.extend(k for k in x['kids'] if st == '*' or k['tag'] == st)
        cur = nxt
    return cur


def a_select(xpath: str, n: dict) -> list[dict]:
    seen: list[dict] = []
    for p in parse_xpath(xpath):
        for e in a_elems(p, n):
            if not any(e is s for s in seen):
                seen.append(e)
    order = {id(x): i for i, x in enumerate(a_dos(n))}
    return sorted(seen, key=lambda x: order[id(x)])


# ------------------------------------------------------------------------------------------------
# generator
# ------------------------------------------------------------------------------------------------
def gen_fields(rng, nf: int, qbias: float = 0.0, derived: bool = False) -> list[dict]:
    """fields of the key side (rows `item`) and of the keyref side (rows `ref`)"""
    fs = []
    for i in range(nf):
        ty = 'QName' if rng.random() < qbias else rng.choice(TYPES)
        r = rng.random()
        if r < 0.7:
            rty = ty
        elif ty in ('integer', 'decimal'):
            rty = 'decimal' if ty == 'integer' else 'integer'
        else:
            rty = rng.choice(TYPES)
        fs.append({'name': f'f{i + 1}', 'loc': rng.choice(['attr', 'attr', 'child']), 'ty': ty,
                   'rloc': rng.choice(['attr', 'attr', 'child']), 'rty': rty})
        if derived and rng.random() < 0.5:
            fs[-1]['d'] = True
        if derived and rng.random() < 0.5:
            fs[-1]['rd'] = True
    return fs


def field_xpath(f: dict, side: str) -> str:
    loc = f['loc'] if side == 'item' else f['rloc']
    return ('@' if loc == 'attr' else '') + f['name']


def gen_constraints(rng, fields: list[dict], recursive: bool, rootsub: bool = False) -> list[dict]:
    """K  key / unique on the `item` rows            R  keyref on the `ref` rows -> K
       U  second unique / key on the `item` rows     P  keyref on the `item` rows themselves -> K ("parent pointer":
       W  unique / key on the `ref` rows                the SAME element is selected by a keyref and by a key)
    Several constraints select the same element; K may use only the first fields (the others are pointer columns of
    P) so that a node can lack a field of one constraint and have all fields of another; the declaration order on a
    scope element (= order of this list) is shuffled: keyref before / after its key, unique + key + keyref mixes;
    the scope elements are chosen independently (outer keyref + inner key selecting the same nodes)."""
    cons = []
    SELECTORS = dict(globals()['SELECTORS'])
    if rootsub:
        SELECTORS['root'] = SELECTORS['root'] + ['sub/{t}', 'sub/{t}|sec/sub/{t}', 'sub/{t}|{t}']
    lv = rng.choice(['root', 'sec', 'sec', 'sub'] + (['sub', 'sub'] if rootsub else []))
    kind = rng.choice(['key', 'unique', 'key'])
    nf = len(fields)
    overlap = rng.random() < 0.45
    # fields of K: all of them, or (pointer tables) a proper prefix
    m = rng.randint(1, nf - 1) if overlap and nf >= 2 and rng.random() < 0.7 else nf
    kf = fields[:m]
    k = {'name': 'K', 'kind': kind, 'on': lv, 'sel': rng.choice(SELECTORS[lv]).format(t='item'),
         'fields': [field_xpath(f, 'item') for f in kf], 'refer': None}
    cons.append(k)
    ups = {'root': ['root'], 'sec': ['sec', 'sec', 'sec', 'root'], 'sub': ['sub', 'sub', 'sub', 'sec', 'root']}[lv]
    if rootsub and lv == 'sub':
        ups = ['sub', 'sub', 'root', 'root', 'sec']
    if rng.random() < 0.65:
        # key reference: same element, or an ancestor of the key's element (refer across levels)
        on = rng.choice(ups)
        cons.append({'name': 'R', 'kind': 'keyref', 'on': on, 'sel': rng.choice(SELECTORS[on]).format(t='ref'),
                     'fields': [field_xpath(f, 'ref') for f in kf], 'refer': 'K'})
    if overlap and rng.random() < 0.8:
        # the pointer columns: the LAST m fields of the item rows (rotated when K uses every field)
        pf = fields[nf - m:] if m < nf else fields[1:] + fields[:1]
        for src, dst in zip(kf, pf):
            if dst is not src and rng.random() < 0.75:      # a pointer column has the type of the key column
                dst['ty'] = src['ty']
        on = rng.choice(ups)
        cons.append({'name': 'P', 'kind': 'keyref', 'on': on,
                     'sel': k['sel'] if on == lv and rng.random() < 0.6 else rng.choice(SELECTORS[on]).format(t='item'),
                     'fields': [field_xpath(f, 'item') for f in pf], 'refer': 'K'})
    if rng.random() < (0.5 if overlap else 0.3):
        lv2 = rng.choice([lv, lv, 'root', 'sec', 'sub'] if overlap else ['root', 'sec', 'sub'])
        sub = fields[:rng.randint(1, nf)] if not overlap or rng.random() < 0.5 else fields[rng.randrange(nf):]
        cons.append({'name': 'U', 'kind': rng.choice(['unique', 'unique', 'key']), 'on': lv2,
                     'sel': rng.choice(SELECTORS[lv2]).format(t='item'),
                     'fields': [field_xpath(f, 'item') for f in sub], 'refer': None})
    if overlap and rng.random() < 0.4:
        lv3 = rng.choice(['root', 'sec', 'sub'])
        sub = fields[:rng.randint(1, nf)]
        cons.append({'name': 'W', 'kind': rng.choice(['unique', 'key']), 'on': lv3,
                     'sel': rng.choice(SELECTORS[lv3]).format(t='ref'),
                     'fields': [field_xpath(f, 'ref') for f in sub], 'refer': None})
    if overlap or rng.random() < 0.3:
        rng.shuffle(cons)
    return cons


# on the target-namespace template the unprefixed name (default namespace) is a frequent QName value
POOL_TNS_QNAME = [('{urn:a}x', ['p:x', 'q:x', ' p:x']), ('x', ['x', ' x']), ('{urn:b}x', ['r:x']), ('{urn:a}y', ['p:y'])]


def gen_row(rng, tag: str, fields: list[dict], p_absent: float, nclasses: int, tns: bool = False,
            pools: Optional[dict] = None) -> dict:
    vals = []
    for f in fields:
        ty = f['ty'] if tag == 'item' else f['rty']
        if rng.random() < p_absent:
            vals.append(None)
        else:
            full = POOL_TNS_QNAME if tns and ty == 'QName' else (pools or POOL)[ty]
            pool = full[:max(1, nclasses)] if rng.random() < 0.85 else full
            key, lex = rng.choice(pool)
            vals.append([None if ty == 'QName' else key, rng.choice(lex)])
    return {'tag': tag, 'vals': vals, 'kids': [], 'id': None, 'idref': None}


def gen_doc(rng, fields: list[dict], recursive: bool, big: bool, tns: bool = False, rootsub: bool = False,
            falsy_heavy: bool = False) -> dict:
    p_absent = rng.choice([0.0, 0.0, 0.1, 0.3, 0.5])
    ncl = rng.choice([1, 2, 2, 3])
    # which value classes are the frequent ones of this document: a per-case permutation of every pool (the QName
    # pool keeps its order: its first class is the one with several spellings); the zero / empty-string classes
    # come first in a third of the documents
    pools = {}
    zero_first = falsy_heavy or rng.random() < 0.33
    if zero_first and rng.random() < 0.5:
        ncl = 1                                 # (nearly) every present value is the falsy one
    if falsy_heavy:
        p_absent = rng.choice([0.3, 0.5])
    for ty, classes in POOL.items():
        cl = list(classes)
        if ty != 'QName':
            rng.shuffle(cl)
            if zero_first:
                cl.sort(key=lambda kc: kc[0] not in ('n0', 's:', 'bF'))
        pools[ty] = cl

    def rows(lo, hi):
        out = []
        for _ in range(rng.randint(lo, hi)):
            out.append(gen_row(rng, rng.choice(['item', 'item', 'ref']), fields, p_absent, ncl, tns, pools))
        return out

    def sec(depth):
        s = {'tag': 'sec', 'vals': [], 'kids': rows(0, 3 if not big else 5), 'id': None, 'idref': None}
        if rng.random() < 0.4:
            s['kids'].insert(rng.randint(0, len(s['kids'])),
                             {'tag': 'sub', 'vals': [], 'kids': rows(0, 3), 'id': None, 'idref': None})
        if recursive and depth < 2 and rng.random() < 0.5:
            s['kids'].insert(rng.randint(0, len(s['kids'])), sec(depth + 1))
        return s

    root = {'tag': 'root', 'vals': [], 'kids': [], 'id': None, 'idref': None}
    nsec = rng.choice([0, 1, 1, 1, 2, 2, 3]) if not big else rng.randint(1, 4)
    root['kids'] = [sec(0) for _ in range(nsec)] + rows(0, 3)
    if rootsub:
        root['kids'] += [{'tag': 'sub', 'vals': [], 'kids': rows(0, 3), 'id': None, 'idref': None}
                         for _ in range(rng.choice([1, 1, 2]))]
    rng.shuffle(root['kids'])
    return root


def _leaf(tag: str, val: str, **kw) -> dict:
    return dict({'tag': tag, 'vals': [], 'kids': [], 'id': None, 'idref': None, 'val': val}, **kw)


def _note(kids: Optional[list] = None, **kw) -> dict:
    return dict({'tag': 'note', 'vals': [], 'kids': kids or [], 'id': None, 'idref': None}, **kw)


def scatter_ids(rng, case: dict) -> None:
    """the dimension `ID / IDREF / IDREFS at every depth`: attributes id / idr / idrs on ANY element — the document
    element itself, containers, rows, notes — and element-position leaves eid / eref / erefs (eidx: ID simple
    content with IDREF attributes; XSD 1.0 documents only, see ASSUMPTIONS) in containers and at the bottom of note
    chains; values from a small pool so that duplicates across levels and references up / down / sideways are
    frequent; lexical variants with surrounding blanks"""
    root = case['doc']
    ids = ['A', 'B', 'C'] if rng.random() < 0.7 else ['A', 'B', 'C', 'D', 'E', 'F']
    v11 = case['v'] == '1.1'

    def idv():
        v = rng.choice(ids)
        return v if rng.random() < 0.85 else ' ' + v + ' '

    def refv():
        return rng.choice(ids + (['Z'] if rng.random() < 0.4 else []))

    def refsv():
        v = rng.choice([' ', ' ', '  ']).join(refv() for _ in range(rng.randint(1, 3)))
        return v if rng.random() < 0.85 else ' ' + v + ' '

    def leaf():
        t = rng.choice(['eid', 'eid', 'eref', 'erefs'] + ([] if v11 else ['eidx']))
        if t == 'eidx':
            return _leaf(t, idv(), idref=refv() if rng.random() < 0.5 else None,
                         idrefs=refsv() if rng.random() < 0.3 else None)
        return _leaf(t, idv() if t == 'eid' else refv() if t == 'eref' else refsv())

    p_id = rng.choice([0.15, 0.3, 0.5])
    for n in a_dos(root):
        if n['tag'] in LEAVES:
            continue
        top = n is root
        if rng.random() < (0.6 if top else p_id):
            n['id'] = idv()
        if rng.random() < (0.35 if top else 0.2):
            n['idref'] = refv()
        if rng.random() < (0.25 if top else 0.1):
            n['idrefs'] = refsv()
    for n in a_dos(root):
        if n['tag'] in ('root', 'sec', 'sub', 'note', 'pre') and rng.random() < 0.3:
            n['kids'].insert(rng.randint(0, len(n['kids'])), leaf())
        if n['tag'] in ('root', 'sec', 'sub') and rng.random() < 0.2:
            # a chain of notes with a leaf at the bottom: the deepest nodes of the document
            chain = _note([leaf()], **({'id': idv()} if rng.random() < 0.4 else {}))
            for _ in range(rng.randint(0, 2)):
                chain = _note([chain] + ([leaf()] if rng.random() < 0.3 else []))
            n['kids'].insert(rng.randint(0, len(n['kids'])), chain)


def cut_partial(rng, case: dict) -> None:
    """partial input: the validation starts from an inner element (every container / row / note / leaf declaration
    is global): the document of the case becomes one subtree of the generated one"""
    sc = scopes_of(case)
    cands = [n for n in a_dos(case['doc'])[1:]
             if n['tag'] in ('sec', 'item', 'ref', 'note', 'eidx', 'eref') or (n['tag'] == 'sub' and case.get('rootsub'))]
    if not cands:
        return
    n = rng.choice(cands)
    n['ns'] = {p: u for p, u in sc[id(n)].items() if p != 't' and not (p == '' and case.get('etag') == 'default')}
    case['doc'] = n


def qual_xpath(xp: str, tns: bool) -> str:
    """the abstract selector / field path as written in the schema: name steps get the prefix t on the
    target-namespace template"""
    if not tns:
        return xp
    out = []
    for alt in xp.split('|'):
        lead = ''
        if alt.startswith('.//'):
            lead, alt = './/', alt[3:]
        out.append(lead + '/'.join(st if st in ('.', '*') or st.startswith('@') else 't:' + st
                                   for st in alt.split('/')))
    return '|'.join(out)


def schema_text(case: dict) -> str:
    fields, cons = case['fields'], case['cons']
    tns = bool(case.get('tns'))
    pf = 't:' if tns else ''

    def row_decl(tag):
        side = 'item' if tag == 'item' else 'ref'
        kids, attrs = [], []
        for f in fields:
            loc, ty = (f['loc'], f['ty']) if side == 'item' else (f['rloc'], f['rty'])
            # `d` / `rd`: the field is declared with a user-defined restriction of the built-in type
            tyn = f'{pf}d_{ty}' if f.get('d' if side == 'item' else 'rd') else f'xs:{ty}'
            if loc == 'child':
                kids.append(f'<xs:element name="{f["name"]}" type="{tyn}" minOccurs="0"/>')
            else:
                attrs.append(f'<xs:attribute name="{f["name"]}" type="{tyn}"/>')
        attrs.append(IDATTRS)
        return (f'<xs:element name="{tag}"><xs:complexType><xs:sequence>'
                f'<xs:element ref="{pf}pre" minOccurs="0" maxOccurs="unbounded"/>{"".join(kids)}'
                f'<xs:element ref="{pf}note" minOccurs="0" maxOccurs="unbounded"/></xs:sequence>'
                f'{"".join(attrs)}</xs:complexType></xs:element>')

    def idc(on):
        out = []
        for c in cons:
            if c['on'] != on:
                continue
            refer = f' refer="{pf}{c["refer"]}"' if c['refer'] else ''
            out.append(f'<xs:{c["kind"]} name="{c["name"]}"{refer}><xs:selector xpath="{qual_xpath(c["sel"], tns)}"/>'
                       + ''.join(f'<xs:field xpath="{qual_xpath(fx, tns)}"/>' for fx in c['fields'])
                       + f'</xs:{c["kind"]}>')
        return ''.join(out)

    rootsub = bool(case.get('rootsub'))      # `sub` is a global element, also allowed directly under the root
    leaves = ''.join(f'<xs:element ref="{pf}{x}"/>' for x in LEAVES)

    def container(tag, local=False):
        kids = ''.join(
            (f'<xs:element ref="{pf}{k}"/>' if k != 'sub' or rootsub else container('sub', True))
            for k in STRUCT[tag] + (['sub'] if rootsub and tag == 'root' else [])
            if k != 'sec' or tag == 'root' or case['recursive'])
        return (f'<xs:element name="{tag}"><xs:complexType><xs:choice minOccurs="0" maxOccurs="unbounded">'
                f'{kids}<xs:element ref="{pf}note"/>{leaves}</xs:choice>{IDATTRS}</xs:complexType>{idc(tag)}</xs:element>')

    head = (f'<xs:schema xmlns:xs="{XS}" xmlns:t="{TNS}" targetNamespace="{TNS}" elementFormDefault="qualified">'
            if tns else f'<xs:schema xmlns:xs="{XS}">')
    # ID / IDREF / IDREFS in element position: leaves allowed in every container and at any depth of the notes
    notes = (f'<xs:complexType name="noteT"><xs:choice minOccurs="0" maxOccurs="unbounded"><xs:element ref="{pf}note"/>'
             f'{leaves}</xs:choice>{IDATTRS}</xs:complexType>'
             f'<xs:element name="note" type="{pf}noteT"/><xs:element name="pre" type="{pf}noteT"/>'
             f'<xs:element name="eid" type="xs:ID"/><xs:element name="eref" type="xs:IDREF"/>'
             f'<xs:element name="erefs" type="xs:IDREFS"/>'
             f'<xs:element name="eidx"><xs:complexType><xs:simpleContent><xs:extension base="xs:ID">'
             f'<xs:attribute name="idr" type="xs:IDREF"/><xs:attribute name="idrs" type="xs:IDREFS"/>'
             f'</xs:extension></xs:simpleContent></xs:complexType></xs:element>')
    derived = ''.join(f'<xs:simpleType name="d_{ty}"><xs:restriction base="xs:{ty}"/></xs:simpleType>'
                      for ty in TYPES) if any(f.get('d') or f.get('rd') for f in fields) else ''
    return (head + container('root') + container('sec') + (container('sub') if rootsub else '')
            + row_decl('item') + row_decl('ref') + notes + derived + '</xs:schema>')


# every element of the templates (root, containers, rows, notes) may carry one ID, one IDREF and one IDREFS attribute
IDATTRS = ('<xs:attribute name="id" type="xs:ID"/><xs:attribute name="idr" type="xs:IDREF"/>'
           '<xs:attribute name="idrs" type="xs:IDREFS"/>')
LEAVES = ['eid', 'eref', 'erefs', 'eidx']       # element-position ID / IDREF / IDREFS (eidx: simple content + attributes)


def root_decls(case: dict) -> dict:
    """xmlns declarations written on the document element"""
    d = dict(case['doc']['ns']) if 'ns' in case['doc'] else dict(NSDECL)
    if case.get('tns'):
        d['t'] = TNS
        if case.get('etag') == 'default':      # the instance writes its elements unprefixed under xmlns="urn:t"
            d[''] = TNS
    return d


def _esc(v: str) -> str:
    return v.replace('&', '&amp;').replace('<', '&lt;').replace('"', '&quot;')


def xml_text(case: dict) -> str:
    fields = case['fields']
    pf = 't:' if case.get('tns') and case.get('etag') != 'default' else ''

    def decls(d: Optional[dict]) -> str:
        return ''.join(f' xmlns{":" + p if p else ""}="{u}"' for p, u in (d or {}).items())

    def mk(n: dict, top: bool = False) -> str:
        out = [f'<{pf}{n["tag"]}', decls(root_decls(case) if top else n.get('ns'))]
        inner: list[str] = []
        if n['tag'] in ('item', 'ref'):
            fns = n.get('fns') or {}
            for f, v in zip(fields, n['vals']):
                if v is None:
                    continue
                loc = f['loc'] if n['tag'] == 'item' else f['rloc']
                if loc == 'attr':
                    out.append(f' {f["name"]}="{_esc(v[1])}"')
                else:
                    inner.append(f'<{pf}{f["name"]}{decls(fns.get(f["name"]))}>{_esc(v[1])}</{pf}{f["name"]}>')
            inner = [mk(k) for k in n['kids'] if k['tag'] == 'pre'] + inner + \
                    [mk(k) for k in n['kids'] if k['tag'] != 'pre']
        else:
            inner = [mk(k) for k in n['kids']]
        if n.get('id') and n['tag'] not in LEAVES:
            out.append(f' id="{n["id"]}"')
        if n.get('idref') and n['tag'] not in ('eid', 'eref', 'erefs'):
            out.append(f' idr="{n["idref"]}"')
        if n.get('idrefs') and n['tag'] not in ('eid', 'eref', 'erefs'):
            out.append(f' idrs="{n["idrefs"]}"')
        if n['tag'] in LEAVES:
            inner = [_esc(n.get('val') or '')]        # eid / eidx: the ID, eref: the IDREF, erefs: the IDREFS list
        return ''.join(out) + ('>' + ''.join(inner) + f'</{pf}{n["tag"]}>' if inner else '/>')

    return mk(case['doc'], True)


# ------------------------------------------------------------------------------------------------
# S: the property read directly on the abstract case (no Lean, no elementpath)
# ------------------------------------------------------------------------------------------------
def resolve_qname(lex: str, scope: dict) -> str:
    """value of an xs:QName (as '{namespace name}local part') under the declarations in scope (XSD Part 2
    §3.2.18 + Namespaces in XML §6: an unprefixed name takes the default namespace, if one is in scope)"""
    s = lex.strip()
    if ':' in s:
        p, loc = s.split(':', 1)
        return '{%s}%s' % (scope[p], loc)
    d = scope.get('')
    return '{%s}%s' % (d, s) if d else s


def scopes_of(case: dict) -> dict:
    """id(abstract node) -> the namespace declarations in scope of that element"""
    out: dict[int, dict] = {}

    def walk(n: dict, inherited: dict, top: bool) -> None:
        sc = dict(inherited)
        sc.update(root_decls(case) if top else (n.get('ns') or {}))
        out[id(n)] = sc
        for k in n['kids']:
            walk(k, sc, False)

    walk(case['doc'], {}, True)
    return out


def oracle(case: dict) -> dict:
    fields, cons, doc = case['fields'], case['cons'], case['doc']
    by_name = {c['name']: c for c in cons}
    nodes = a_dos(doc)
    order = {id(n): i for i, n in enumerate(nodes)}
    scope = scopes_of(case)
    fieldns: set = set()

    def tup(c, n):
        """tuple of (prim, valuekey) or None entries, for the fields of c on row n"""
        out = []
        for fx in c['fields']:
            name = fx.lstrip('@')
            i = next(k for k, f in enumerate(fields) if f['name'] == name)
            f = fields[i]
            loc, ty = (f['loc'], f['ty']) if n['tag'] == 'item' else (f['rloc'], f['rty'])
            want_attr = fx.startswith('@')
            if (loc == 'attr') != want_attr or n['vals'][i] is None:
                out.append(None)
            elif ty == 'QName':
                # the declarations in scope of the node that carries the value: the row for an attribute,
                # the field element (its own declarations included) for a child
                sc = scope[id(n)]
                if loc == 'child' and (n.get('fns') or {}).get(name):
                    sc = dict(sc)
                    sc.update(n['fns'][name])
                    if resolve_qname(n['vals'][i][1], sc) != resolve_qname(n['vals'][i][1], scope[id(n)]):
                        fieldns.add(c['name'])
                out.append((PRIM[ty], resolve_qname(n['vals'][i][1], sc)))
            else:
                out.append((PRIM[ty], n['vals'][i][0]))
        return out

    def qualified(c, s):
        return [tuple(t) for t in (tup(c, n) for n in a_select(c['sel'], s)) if all(x is not None for x in t)]

    clauses = set()
    flags = {'nested': set(), 'spread': set(), 'strq': set(), 'conflict': False, 'fieldns': fieldns}
    cover = set()          # branches of the rules reached (input-distribution histogram only)
    work = 0
    picked: dict[int, list] = {}      # node -> [(constraint, all its fields present)] over all scope instances

    def scopes(cname, s):
        return [n for n in a_dos(s) if n['tag'] == by_name[cname]['on']]

    for s in nodes:
        for c in cons:
            if c['on'] != s['tag']:
                continue
            # nested scope of the same declaration (recursive section)
            if any(x is not s and x['tag'] == s['tag'] for x in a_dos(s)):
                flags['nested'].add(c['name'])
            targets = a_select(c['sel'], s)
            tuples = [tup(c, n) for n in targets]
            q = qualified(c, s)
            for n_, t_ in zip(targets, tuples):
                picked.setdefault(id(n_), []).append((c, None not in t_))
            # falsy values (what Python truthiness would confuse with an absent field): histogram only
            def falsy(x):
                return x is not None and x[1] in ('n0', 's:')
            part = [tuple(t_) for t_ in tuples if None in t_ and any(x is not None for x in t_)]
            if any(all(falsy(x) for x in t_ if x is not None) for t_ in part):
                cover.add('falsy:%s/incomplete-tuple-whose-present-fields-are-all-zero-or-empty' % c['kind'])
                zs = [t_ for t_ in part if all(falsy(x) for x in t_ if x is not None)]
                if len(set(zs)) != len(zs):
                    cover.add('falsy:%s/TWO-EQUAL-incomplete-tuples-of-zero-or-empty-fields' % c['kind'])
            if any(t_ and None not in t_ and all(falsy(x) for x in t_) for t_ in tuples):
                cover.add('falsy:%s/complete-tuple-of-zero-or-empty-fields' % c['kind'])
            if any(t_ and None not in t_ and any(falsy(x) for x in t_) and not all(falsy(x) for x in t_) for t_ in tuples):
                cover.add('falsy:%s/complete-tuple-mixing-falsy-and-other-values' % c['kind'])
            if len(tuples) >= 2 or any(None in t for t in tuples):
                work += 1
            if c['kind'] == 'unique':
                if len(set(q)) != len(q):
                    clauses.add(('dup', c['name']))
                if any(None in t and any(x is not None for x in t) for t in tuples):
                    cover.add('unique-partial-tuple')      # outside the qualified node set (cc593f3)
                if any(t and all(x is None for x in t) for t in tuples):
                    cover.add('unique-all-absent')
            elif c['kind'] == 'key':
                if any(None in t for t in tuples):
                    clauses.add(('missing',))
                if len(set(q)) != len(q):
                    clauses.add(('dup', c['name']))
            else:
                r = by_name[c['refer']]
                insts = scopes(r['name'], s)
                tabs = [qualified(r, x) for x in insts]
                if len(insts) != 1:
                    flags['spread'].add((c['name'], len(insts)))
                if not insts:
                    cover.add('keyref-no-refer-scope' + ('-dangling' if q else ''))   # b32146f
                table = set(itertools.chain.from_iterable(tabs))
                def lo(t):
                    return tuple(v[2:] if p == 'string' else v for p, v in t)
                loose = {lo(t) for t in table}
                for t in q:
                    if sum(1 for tb in tabs if t in tb) >= 2:
                        flags['conflict'] = True
                    if t not in table:
                        clauses.add(('notfound', r['name']))
                        if lo(t) in loose:
                            flags['strq'].add(c['name'])
    # the dimension `several constraints select the same element` (histogram only).  Open-constraints order of
    # the code: outer scope elements first, then declaration order on one scope element
    pos: dict[str, int] = {}          # insertion order of the counters: first entry of a scope element, declaration order
    for n_ in nodes:
        for c in cons:
            if c['on'] == n_['tag'] and c['name'] not in pos:
                pos[c['name']] = len(pos)
    for c in cons:
        pos.setdefault(c['name'], len(pos))
    parent = {id(k): n_ for n_ in nodes for k in n_['kids']}

    def inside(tag: str, n_: dict) -> bool:
        while n_ is not None:
            if n_['tag'] == tag:
                return True
            n_ = parent.get(id(n_))
        return False

    def depth(n_: dict) -> int:
        d = 0
        while parent.get(id(n_)) is not None:
            n_, d = parent[id(n_)], d + 1
        return d

    def inside_node(anc: dict, n_: dict) -> bool:
        """anc is a proper ancestor of n_"""
        n_ = parent.get(id(n_))
        while n_ is not None:
            if n_ is anc:
                return True
            n_ = parent.get(id(n_))
        return False

    first = {c['name']: min((order[id(x)] for x in nodes if x['tag'] == c['on']), default=None) for c in cons}
    by_id = {id(x): x for x in nodes}
    for nid, sel in picked.items():
        n_ = by_id[nid]
        for d, _ in sel:
            if any(pos[e['name']] < pos[d['name']] and first[e['name']] is not None
                   and first[e['name']] < order[nid] and not inside(e['on'], n_) for e in cons):
                cover.add('overlap:node-collected-while-a-constraint-EARLIER-in-open-order-is-closed')
    for sel in picked.values():
        names = {c['name'] for c, _ in sel}
        if len(names) < 2:
            continue
        cover.add('overlap:node-selected-by-%d-constraints' % min(len(names), 4))
        kinds = {c['kind'] for c, _ in sel}
        if 'keyref' in kinds and kinds & {'key', 'unique'}:
            cover.add('overlap:node-selected-by-keyref-AND-key/unique')
        if len({c['on'] for c, _ in sel}) > 1:
            cover.add('overlap:node-selected-from-nested-scopes')
        for c, complete in sel:
            if complete:
                continue
            others = [(d, dc) for d, dc in sel if d['name'] != c['name']]
            if any(dc for _, dc in others):
                cover.add('overlap:node-lacks-field-of-%s-but-has-all-fields-of-another-constraint' % c['kind'])
            if c['kind'] == 'keyref' and any(pos[d['name']] > pos[c['name']] for d, _ in others):
                cover.add('overlap:node-lacks-KEYREF-field/another-constraint-LATER-in-open-order')
            if c['kind'] in ('unique', 'key') and any(pos[d['name']] > pos[c['name']] for d, _ in others):
                cover.add('overlap:node-lacks-%s-field/another-constraint-LATER-in-open-order' % c['kind'])
    by_on: dict[str, list] = {}
    for c in cons:
        by_on.setdefault(c['on'], []).append(c)
    for cs in by_on.values():
        for i, c in enumerate(cs):
            if c['kind'] == 'keyref' and any(d['name'] == c['refer'] for d in cs[i + 1:]):
                cover.add('order:keyref-declared-BEFORE-its-key-on-one-element')
            if c['kind'] == 'keyref' and any(d['name'] == c['refer'] for d in cs[:i]):
                cover.add('order:keyref-declared-after-its-key-on-one-element')
    # ID / IDREF
    # every ID occurrence binds its value to an element: an ID attribute to its owner; an element of type xs:ID to
    # itself in XSD 1.0 and to its PARENT in XSD 1.1 (§3.17.5.2: the attributes and the ID-typed children of one
    # element may repeat a value).  An ID value bound to two elements is a duplicate; every IDREF and every item of
    # an IDREFS must be the value of some ID.  The document element is a node like any other.
    v11 = case['v'] == '1.1'
    binds: list = []
    refs: list = []
    for n in nodes:
        if n.get('id') and n['tag'] not in LEAVES:
            binds.append((n['id'].strip(), id(n)))
            cover.add('id:ID-attribute@' + ('ROOT' if n is doc else 'leaf' if not n['kids'] else 'inner'))
        if n['tag'] in ('eid', 'eidx'):
            par = parent.get(id(n))
            binds.append(((n.get('val') or '').strip(), id(par) if v11 and par is not None and n['tag'] == 'eid'
                          else id(n)))
            cover.add('id:ID-element-content@' + ('ROOT' if n is doc else 'depth>=3' if depth(n) >= 3 else 'inner'))
        if n.get('idref') and n['tag'] not in ('eid', 'eref', 'erefs'):
            refs.append((n['idref'].strip(), n))
            cover.add('id:IDREF-attribute@' + ('ROOT' if n is doc else 'below'))
        if n.get('idrefs') and n['tag'] not in ('eid', 'eref', 'erefs'):
            refs.extend((t, n) for t in n['idrefs'].split())
            cover.add('id:IDREFS-attribute@' + ('ROOT' if n is doc else 'below'))
        if n['tag'] == 'eref':
            refs.append(((n.get('val') or '').strip(), n))
            cover.add('id:IDREF-element-content')
        if n['tag'] == 'erefs':
            refs.extend((t, n) for t in (n.get('val') or '').split())
            cover.add('id:IDREFS-element-content')
    first_b: dict = {}
    for v, b in binds:
        if first_b.setdefault(v, b) != b:
            clauses.add(('iddup',))
            cover.add('id:duplicate-across-%s' % ('levels' if depth(by_id.get(b, doc)) != depth(by_id.get(first_b[v], doc))
                                                  else 'siblings'))
    where = {v: by_id.get(b, doc) for v, b in reversed(binds)}
    for r, n in refs:
        if r not in first_b:
            clauses.add(('idref',))
        else:
            t = where[r]
            cover.add('id:reference-' + ('to-ROOT' if t is doc else 'up' if inside_node(t, n) else
                                         'down' if inside_node(n, t) else 'sideways'))
    if doc['tag'] != 'root':
        cover.add('id:partial-input/validation-root=' + doc['tag'])
    flags['rootid'] = (doc.get('val') or '').strip() if doc['tag'] in ('eid', 'eidx') else ''
    if binds and refs:
        work += 1
    return {'clauses': clauses, 'flags': flags, 'work': work, 'cover': cover}


# ------------------------------------------------------------------------------------------------
# I: the real code
# ------------------------------------------------------------------------------------------------
RE_DUP = re.compile(r"duplicated value .* for Xsd\w+\(name='([^']+)'\)")
RE_MISSING = re.compile(r"missing key field '([^']*)' for")
RE_MULTI = re.compile(r"XsdFieldSelector\(path='([^']*)'\) field selects multiple values")
RE_NOTFOUND = re.compile(r"value .* not found for Xsd\w+\(name='([^']+)'\)(?: \((\d+) times\))?")
RE_IDDUP = re.compile(r"duplicated xs:ID value '([^']*)'")
RE_IDREF = re.compile(r"IDREF '([^']*)' not found")


_SCHEMAS: dict = {}


def get_schema(case: dict):
    """the real schema of the case's template.  Schemas are memoised by their source text (the exhaustive
    families validate thousands of documents against a handful of templates); C10 checks that a used
    schema validates like a fresh one."""
    import xmlschema
    key = (case['v'], schema_text(case))
    sch = _SCHEMAS.get(key)
    if sch is None:
        if len(_SCHEMAS) > 256:
            _SCHEMAS.clear()
        cls = xmlschema.XMLSchema11 if case['v'] == '1.1' else xmlschema.XMLSchema10
        sch = _SCHEMAS[key] = cls(key[1])
    return sch


def lname(x: str) -> str:
    return x.split('}')[-1].split(':')[-1]


def run_impl(case: dict) -> dict:
    """build the real schema, validate, introspect.  Returns canonical errors + the driver request."""
    import xmlschema
    from xmlschema.namespaces import NamespaceMapper
    from xmlschema.validators.identities import XsdKey, XsdKeyref, XsdUnique
    schema = get_schema(case)
    text = xml_text(case)
    src = case.get('src', 'etree')
    # `wrap`: the validated Element is a child of a bigger tree (a sibling before it carries ID / IDREF attributes
    # that are none of the validation's business): an Element passed directly, not a document
    wrapped = '<wrapper><decoy id="A" idr="Z"/>' + text + '<decoy id="B"/></wrapper>' if case.get('wrap') else None
    if src == 'etree':
        # an ElementTree element has lost its xmlns declarations: the bindings are passed as an argument
        # (only generated when every declaration is on the document element)
        nsarg: Optional[dict] = root_decls(case)
        resource = xmlschema.XMLResource(ET.fromstring(wrapped)[1] if wrapped else ET.fromstring(text))
    else:
        nsarg = dict(NSARG) if case.get('nsarg') else None
        if src == 'lxml':
            import lxml.etree
            resource = xmlschema.XMLResource(lxml.etree.fromstring(wrapped.encode('utf-8'))[1] if wrapped else
                                             lxml.etree.fromstring(text.encode('utf-8')))
        else:
            resource = xmlschema.XMLResource(text)
    root = resource.root
    elems = list(root.iter())          # (kept alive: lxml proxies must stay the same objects)
    pairs: list = []

    def hook(elem, xsd_element):
        pairs.append((elem, xsd_element))
        return False

    crashed = None
    errors = []
    try:
        errors = list(schema.iter_errors(resource, validation_hook=hook, namespaces=nsarg))
    except KeyError:                # no verdict.  The fully-loaded walk of the current tree cannot raise it
        crashed = 'KeyError'        # (b32146f; the model has no crash outcome): always a failing input
    # the map the validator starts from, as the real code computes it
    ns0 = dict(NamespaceMapper(nsarg, source=resource).namespaces)
    # ---- node numbering (document order) and declarations
    node_id = {id(e): i for i, e in enumerate(elems)}
    decl_of: dict[int, Any] = {}
    decl_ids: dict[int, int] = {}
    decl_objs: list = []

    def did(x) -> int:
        x = x.ref if getattr(x, 'ref', None) is not None else x
        if id(x) not in decl_ids:
            decl_ids[id(x)] = len(decl_objs)
            decl_objs.append(x)
        return decl_ids[id(x)]

    for elem, xe in pairs:
        decl_of.setdefault(id(elem), xe)
    # ---- constraints as built
    idents: list = []
    for comp in schema.iter_components():
        if isinstance(comp, (XsdUnique, XsdKey, XsdKeyref)) and comp not in idents:
            idents.append(comp)
    cid = {id(c): i for i, c in enumerate(idents)}
    cons_json = []
    for c in idents:
        kind = 'keyref' if isinstance(c, XsdKeyref) else 'key' if isinstance(c, XsdKey) else 'unique'
        refer = None
        if kind == 'keyref' and isinstance(c.refer, (XsdKey, XsdUnique)):
            refer = cid[id(c.refer)]
        cons_json.append({'id': cid[id(c)], 'kind': kind, 'sel': parse_xpath(c.selector.path, c.selector.namespaces),
                          'fields': [parse_xpath(f.path, f.namespaces) for f in c.fields], 'refer': refer,
                          'bound': sorted(did(e) for e in c.elements)})
    # declaration -> its identities (through the declaration object that raw_decode ran on)
    decls_json: dict[int, list[int]] = {}

    def ty_tag(t) -> Optional[str]:
        """the built-in type the declared type is (or is derived from by restriction)"""
        tags = {'integer': 'integer', 'decimal': 'decimal', 'boolean': 'boolean', 'string': 'string', 'QName': 'qname'}
        for _ in range(8):
            if t is None:
                return None
            if (t.name or '').startswith('{%s}' % XS) and (t.name or '').split('}')[-1] in tags:
                return tags[t.name.split('}')[-1]]
            if (t.name or '').startswith('{%s}' % XS):
                return None
            t = getattr(t, 'base_type', None)
        return None

    def id_kind(t) -> int:
        """1 xs:ID, 2 xs:IDREF, 3 xs:IDREFS (the type or a restriction of it), else 0"""
        for _ in range(8):
            if t is None:
                return 0
            if (t.name or '') in ('{%s}ID' % XS, '{%s}IDREF' % XS, '{%s}IDREFS' % XS):
                return {'ID': 1, 'IDREF': 2, 'IDREFS': 3}[t.name.split('}')[-1]]
            t = getattr(t, 'base_type', None)
        return 0

    def ser(e: ET.Element) -> dict:
        xe = decl_of.get(id(e))
        d = did(xe) if xe is not None else 10 ** 6
        attrs = []
        ety = None
        ck = 0
        if xe is not None:
            if xe.type.is_simple():
                ck = id_kind(xe.type)
            elif xe.type.has_simple_content():
                ck = 4 if id_kind(xe.type.content) == 1 else 0      # (complex type: xs:ID simple content + attributes)
            decls_json.setdefault(d, [cid[id(c)] for c in xe.identities])
            if xe.type.is_simple():
                ety = ty_tag(xe.type)
            for name, val in e.attrib.items():
                xa = xe.type.attributes.get(name) if hasattr(xe.type, 'attributes') else None
                attrs.append([name, val, ty_tag(xa.type) if xa is not None else None,
                              id_kind(xa.type) if xa is not None else 0])
        return {'i': node_id[id(e)], 'd': d, 'n': e.tag, 'a': attrs, 't': ety, 'x': e.text or '', 'ck': ck,
                'ns': [[p, u] for p, u in (resource.get_xmlns(e) or [])],      # declarations as the loader kept them
                'k': [ser(k) for k in e]}

    doc_json = ser(root)
    req = {'schema': {'cons': cons_json, 'decls': [[d, cs] for d, cs in sorted(decls_json.items())],
                      'ns': [[p, u] for p, u in sorted(ns0.items())], 'fscope': FSCOPE}, 'doc': doc_json,
           'v11': case['v'] == '1.1', 'rootreg': ROOTREG}
    # ---- canonical errors
    names = {cid[id(c)]: lname(c.name) for c in idents}

    def canonical(errs) -> tuple:
        canon: list = []
        other: list = []
        for e in errs:
            reason = e.reason or ''
            el = getattr(e, 'elem', None)
            nid = node_id.get(id(el), 0) if el is not None else 0
            m = RE_DUP.search(reason)
            if m and 'xs:ID' not in reason:
                canon.append(['dup', lname(m.group(1)), nid, 0])
                continue
            m = RE_MISSING.search(reason)
            if m:
                canon.append(['missing', m.group(1), nid, 0])
                continue
            m = RE_MULTI.search(reason)
            if m:
                canon.append(['multi', m.group(1), nid, 0])
                continue
            m = RE_NOTFOUND.search(reason)
            if m:
                canon.append(['notfound', lname(m.group(1)), nid, int(m.group(2) or 1)])
                continue
            m = RE_IDDUP.search(reason)
            if m:
                canon.append(['iddup', m.group(1), 0, 0])
                continue
            m = RE_IDREF.search(reason)
            if m:
                canon.append(['idref', m.group(1), 0, 0])
                continue
            other.append(reason[:200])
        return sorted(canon), other, [e for e in canon if e[0] in ('dup', 'missing', 'multi', 'notfound')]

    canon, other, seq = canonical(errors)
    clauses = set()
    for k, a, _, _ in canon:
        clauses.add((k, a) if k in ('dup', 'notfound') else (k,))
    # ---- second observation: the decoding path (DecodeContext; the namespace map is then the converter's own,
    # whose default xmlns processing mode depends on the converter class) and is_valid must report the same
    decode = None
    if case.get('decode') and not crashed:
        from xmlschema import converters as cv
        conv = {'default': None, 'jsonml': cv.JsonMLConverter, 'dataelement': xmlschema.DataElementConverter,
                'badgerfish': cv.BadgerFishConverter, 'unordered': cv.UnorderedConverter, 'parker': cv.ParkerConverter,
                'abdera': cv.AbderaConverter, 'columnar': cv.ColumnarConverter, 'gdata': cv.GDataConverter}[case['decode']]
        try:
            _, derrs = schema.decode(resource, validation='lax', converter=conv, namespaces=nsarg)
            dcanon, dother, _ = canonical(derrs)
            decode = {'errors': dcanon, 'other': dother, 'is_valid': schema.is_valid(resource, namespaces=nsarg)}
        except Exception as exc:       # noqa: BLE001  (reported as a failing input by `evaluate`)
            decode = {'raised': type(exc).__name__ + ': ' + str(exc)[:200]}
    # ---- third observation: STREAMED / PATH-SELECTED validation (the ancestors-tracking branch of
    # XMLSchemaBase.iter_errors: a lazy resource of depth d yields the elements of level d one by one, a path=
    # argument the selected elements; the identity counters of the scope elements ABOVE them are created / re-rooted
    # by iter_errors itself each time the ancestor chain changes)
    stream = None
    if case.get('stream') and not crashed:
        import io
        mode = case['stream']
        try:
            if mode.startswith('lazy'):
                serrs = list(schema.iter_errors(xmlschema.XMLResource(io.StringIO(text), lazy=int(mode[4:])),
                                                namespaces=nsarg))
            else:
                serrs = list(schema.iter_errors(text, path=qual_xpath(mode[5:], bool(case.get('tns'))),
                                                namespaces=dict(nsarg or {}, **({'t': TNS} if case.get('tns') else {}))))
            scl = set()
            for k, a, _, _ in canonical(serrs)[0]:
                scl.add((k, a) if k in ('dup', 'notfound') else (k,))
            stream = {'clauses': scl, 'other': canonical(serrs)[1]}
        except Exception as exc:       # noqa: BLE001
            stream = {'raised': type(exc).__name__ + ': ' + str(exc)[:200]}
    return {'errors': canon, 'seq': seq, 'other': other, 'crash': crashed, 'clauses': clauses, 'req': req,
            'decode': decode, 'stream': stream,
            'names': names, 'cons': cons_json, 'n_unpaired': sum(1 for e in elems if id(e) not in decl_of)}


def model_canon(ans: dict, impl: dict) -> dict:
    """driver answer -> same canonical form as run_impl (constraint ids -> names / field paths)"""
    names = impl['names']
    cons = {c['id']: c for c in impl['cons']}
    orig_fields: dict[int, list[str]] = impl.get('field_paths', {})
    errs = []
    for k, c, n, x in ans['m']['errs']:
        if k == 'dup':
            errs.append(['dup', names[c], n, 0])
        elif k in ('missing', 'multi'):
            errs.append([k, orig_fields[c][x], n, 0])
        else:
            r = cons[c]['refer']
            errs.append(['notfound', names[r], n, x])
    seq = list(errs)        # the identity errors in the order the model raises them (dict order of the open constraints)
    for k, v in ans['id']:
        errs.append([k, v, 0, 0])
    return {'errors': sorted(errs), 'seq': seq, 'crash': None}          # the model never raises


def lean_clauses(ans: dict, impl: dict) -> set:
    names = impl['names']
    cons = {c['id']: c for c in impl['cons']}
    out = set()
    for c, cl in ans['o']:
        if cl == 'dup':
            out.add(('dup', names[c]))
        elif cl == 'notfound':
            out.add(('notfound', names[cons[c]['refer']]))
        else:
            out.add((cl,))
    for k, _ in ans['ido']:         # the spec variant: every ID occurrence is recorded, the root's content too
        out.add((k,))
    return out


# ------------------------------------------------------------------------------------------------
# known findings (narrow rules; see notes/findings/C08.json)
# ------------------------------------------------------------------------------------------------
def known_match(case: dict, detail: dict) -> Optional[str]:
    """`detail` describes ONE differing clause between the real code and the property:
         {'clause': (...), 'side': 'impl-only'|'spec-only'|'crash', 'flags': oracle flags,
          'model_agrees': bool|None, 'keyrefs': {refername: [keyref names]}}
       returns the id of the listed finding that explains it, else None."""
    if detail.get('model_agrees') is False:
        return None                      # the port of the current algorithm does not reproduce it: something new
    fl = detail['flags']
    cl = detail['clause']
    side = detail['side']
    if side == 'crash':
        return None                      # C08-F7 is fixed (b32146f): an escaping KeyError is a violation
    if cl[0] == 'idref' and side == 'impl-only' and fl.get('rootid') and not ROOTREG and \
            ['idref', fl['rootid'], 0, 0] in detail.get('impl_errors', []):
        # the ID that is the content of the validation root itself is not recorded (level 0): a reference to it
        # is reported as dangling.  No rule on a tree that records it (detect_mode).
        return 'C08-F9'
    involved = set()
    if cl[0] == 'dup':
        involved = {cl[1]}
    elif cl[0] == 'notfound':
        involved = {cl[1]} | set(detail['keyrefs'].get(cl[1], []))
    elif cl[0] == 'missing':
        involved = {c['name'] for c in case['cons'] if c['kind'] == 'key'}
    if involved & set(fl['nested']):
        return 'C08-F3'
    if not FSCOPE and involved & set(fl.get('fieldns', ())):
        # a QName field on a child element that has xmlns declarations of its own is resolved with the map of
        # the selected node.  No rule on a tree that resolves at the field node (detect_mode).
        return 'C08-F8'
    # (C08-F6 is fixed, cc593f3: a dup reported for partially absent unique tuples is a violation)
    if cl[0] == 'notfound':
        krs = detail['keyrefs'].get(cl[1], [])
        if any(k in krs and m != 1 for k, m in fl['spread']):     # 0: a stale table from outside the scope is read
            return 'C08-F4'
        if side == 'spec-only' and any(k in fl['strq'] for k in krs):
            return 'C08-F5'
    return None


def load_findings(ctx: Ctx) -> None:
    if FINDINGS_FILE.exists():
        have = {e['id'] for e in ctx.known}
        for e in json.loads(FINDINGS_FILE.read_text()).get('findings', []):
            if e['id'] not in have:
                ctx.known.append(e)


# ------------------------------------------------------------------------------------------------
# one case
# ------------------------------------------------------------------------------------------------
def evaluate(ctx: Ctx, case: dict, reqs: Optional[list], pend: Optional[list], tag: str) -> None:
    impl = run_impl(case)
    orc = oracle(case)
    impl['field_paths'] = {}
    for cj in impl['cons']:
        src = next(c for c in case['cons'] if c['name'] == impl['names'][cj['id']])
        impl['field_paths'][cj['id']] = [qual_xpath(fx, bool(case.get('tns'))) for fx in src['fields']]
    ctx.case(case, orc['work'] > 0, tag=tag)
    ctx.count('fields:%d' % len(case['fields']))
    for c in case['cons']:
        ctx.count(f"con:{c['kind']}@{c['on']}")
    for k in sorted({e[0] for e in impl['errors']}):
        ctx.count('err:' + k)
    for k in sorted(orc['cover']):
        ctx.count(k if k.startswith(('overlap:', 'order:', 'falsy:', 'id:')) else 'branch:' + k)
    ctx.count('verdict:' + ('crash' if impl['crash'] else 'invalid' if impl['errors'] else 'valid'))
    for k in ns_stats(case):
        ctx.count(k)
    if orc['flags']['fieldns']:
        ctx.count('branch:qname-field-element-own-declarations-change-value')
    if impl['other']:
        # the generator promises documents that are valid apart from identity constraints
        ctx.count('generator-fault')
        ctx.mismatch('generated document has other errors', case, impl['other'][:3], None)
        return
    if impl['n_unpaired'] and not impl['crash']:
        ctx.mismatch('instance elements not paired with a declaration', case, impl['n_unpaired'], 0)
        return
    st = impl.get('stream')
    if st is not None:
        ctx.count('observation:stream(%s)' % case['stream'])
        if 'raised' in st:
            ctx.failure('streamed / path-selected validation raised instead of reporting errors', case, st)
        elif st['other']:
            ctx.mismatch('streamed validation reports other errors', case, st['other'][:3], None)
        else:
            deep = case['stream'] not in ('lazy1', 'path:sec')
            for cl in sorted(st['clauses'] ^ set(orc['clauses'])):
                side = 'impl-only' if cl in st['clauses'] else 'spec-only'
                if cl[0] == 'notfound' and side == 'spec-only' and deep:
                    # C08-F10: the keyref of a scope element ABOVE the yielded level is never checked
                    ctx.known_hit('C08-F10')
                    ctx.count('known:C08-F10')
                else:
                    ctx.failure('streamed / path-selected validation (%s): %s %s' % (
                        case['stream'], 'error reported although the rule holds:' if side == 'impl-only'
                        else 'violation not reported:', '/'.join(cl)), case,
                        {'stream': case['stream'], 'clause': list(cl), 'side': side,
                         'stream_clauses': sorted(st['clauses']), 'spec_clauses': sorted(orc['clauses'])})
    dec = impl.get('decode')
    if dec is not None:
        ctx.count('observation:decode(lax,%s)+is_valid' % case['decode'])
        if 'raised' in dec:
            ctx.failure('decoding with validation=lax raised instead of reporting errors', case, dec)
        elif dec['errors'] != impl['errors'] or dec['other'] or dec['is_valid'] != (not impl['errors']):
            # one of the two entry points differs from the property (they cannot both agree with it)
            ctx.failure('decode(validation=lax) / is_valid report other identity violations than iter_errors',
                        case, {'iter_errors': impl['errors'], 'decode': dec})
    if reqs is not None and impl['n_unpaired'] == 0:
        reqs.append(impl['req'])
        pend.append((case, impl, orc))
    else:
        judge(ctx, case, impl, orc, None)


def judge(ctx: Ctx, case: dict, impl: dict, orc: dict, model_agrees: Optional[bool]) -> None:
    """the property on the real code: violated clauses reported == violated clauses of the spec"""
    fl = orc['flags']
    keyrefs: dict[str, list[str]] = {}
    for c in case['cons']:
        if c['kind'] == 'keyref':
            keyrefs.setdefault(c['refer'], []).append(c['name'])
    flj = {'rootid': fl.get('rootid') or '',
           'nested': sorted(fl['nested']), 'spread': sorted(list(x) for x in fl['spread']),
           'strq': sorted(fl['strq']), 'conflict': fl['conflict'], 'fieldns': sorted(fl['fieldns'])}
    if impl['crash']:
        d = {'clause': ('crash',), 'side': 'crash', 'flags': flj, 'model_agrees': model_agrees, 'keyrefs': keyrefs}
        fid = known_match(case, d)
        if fid:
            ctx.known_hit(fid)
        else:
            ctx.failure('validation raised KeyError instead of giving a verdict', case, d)
        return
    a, b = set(impl['clauses']), set(orc['clauses'])
    if fl['conflict']:
        a = {x for x in a if x[0] != 'notfound'}
        b = {x for x in b if x[0] != 'notfound'}
        ctx.count('unjudged:keyref-conflict')
    for cl in sorted(a ^ b):
        side = 'impl-only' if cl in a else 'spec-only'
        d = {'clause': list(cl), 'side': side, 'flags': flj, 'model_agrees': model_agrees, 'keyrefs': keyrefs,
             'impl_errors': impl['errors'], 'spec_clauses': sorted(b)}
        dd = dict(d, clause=cl)
        fid = known_match(case, dd)
        if fid:
            ctx.known_hit(fid)
            ctx.count('known:' + fid)
        else:
            what = ('document accepted although it violates: ' if side == 'spec-only' and not a else
                    'violation not reported: ' if side == 'spec-only' else
                    'error reported although the rule holds: ') + '/'.join(cl)
            ctx.failure(what, case, d)


def flush(ctx: Ctx, drv: Driver, reqs: list, pend: list) -> None:
    if not reqs:
        return
    answers = drv.query(reqs)
    for (case, impl, orc), ans in zip(pend, answers):
        ctx.traces += 1
        agrees: Optional[bool] = None
        if 'err' in ans:
            ctx.mismatch('driver error: ' + str(ans['err']), case, None, ans)
        else:
            mc = model_canon(ans, impl)
            agrees = True
            if mc['crash'] != impl['crash']:
                agrees = False
                ctx.mismatch('KeyError crash', case, impl['crash'], mc['crash'])
            elif not impl['crash'] and mc['errors'] != impl['errors']:
                agrees = False
                ctx.mismatch('identity errors (kind, constraint, node, times)', case, impl['errors'], mc['errors'])
            elif not impl['crash'] and mc['seq'] != impl['seq']:
                agrees = False
                ctx.mismatch('order of the identity errors (order of the open constraints in context.identities)',
                             case, impl['seq'], mc['seq'])
            if not impl['crash']:
                lc = lean_clauses(ans, impl)
                if lc != orc['clauses']:
                    ctx.mismatch('Lean specClauses vs Python reading of the property', case,
                                 sorted(orc['clauses']), sorted(lc))
                lf = ans['flags']
                pf = orc['flags']
                names = impl['names']
                lflags = {'nested': sorted(names[c] for c in ans['m']['nested']),
                          'spread': sorted({(names[c], m) for c, m in lf['spread']}),
                          'strq': sorted(names[c] for c in lf['strq']), 'conflict': lf['conflict'],
                          'fieldns': sorted(names[c] for c in lf['fieldns'])}
                pflags = {'nested': None, 'spread': sorted(pf['spread']), 'strq': sorted(pf['strq']),
                          'conflict': pf['conflict'], 'fieldns': sorted(pf['fieldns'])}
                lflags['nested'] = None       # dynamic (model) vs static (oracle) notion: not compared
                if lflags != pflags:
                    ctx.mismatch('guard flags', case, pflags, lflags)
                if ans.get('nsdiff'):
                    # proved impossible (ns_collect_scope); a non-empty list means the driver was given ids
                    # that are not distinct or the theorem's model is not the one linked into the driver
                    ctx.mismatch('model: namespace map at a collect differs from the declarations in scope',
                                 case, None, ans['nsdiff'])
        judge(ctx, case, impl, orc, agrees)
    reqs.clear()
    pend.clear()


# ------------------------------------------------------------------------------------------------
# families
# ------------------------------------------------------------------------------------------------
def exhaustive_cases(ctx: Ctx):
    """small tables: <= 3 (quick) / 4 (thorough) rows over a 2-value pool with lexical variants and absent,
    for fixed templates: 1 and 2 fields, unique / key + keyref on the same element."""
    vals1 = {'integer': [None, ['n1', '1'], ['n1', '01'], ['n2', '2']],
             'decimal': [None, ['n1', '1.0'], ['n1', '+1'], ['n2.5', '2.50']],
             'boolean': [None, ['bT', 'true'], ['bT', '1'], ['bF', '0']],
             'QName': [None, ['{urn:a}x', 'p:x'], ['{urn:a}x', 'q:x'], ['{urn:b}x', 'r:x']],
             'string': [None, ['s:1', '1'], ['s:01', '01'], ['s:a', 'a']]}
    nrows = ctx.pick(3, 4)
    for ty in TYPES:
        for kind in ('unique', 'key'):
            for loc in ('attr', 'child'):
                fields = [{'name': 'f1', 'loc': loc, 'ty': ty, 'rloc': 'attr', 'rty': ty}]
                cons = [{'name': 'K', 'kind': kind, 'on': 'root', 'sel': 'item', 'fields': [field_xpath(fields[0], 'item')],
                         'refer': None},
                        {'name': 'R', 'kind': 'keyref', 'on': 'root', 'sel': 'ref', 'fields': ['@f1'], 'refer': 'K'}]
                for n in range(nrows + 1):
                    for combo in itertools.product(vals1[ty], repeat=n):
                        for tags in itertools.product(['item', 'ref'], repeat=n):
                            if loc == 'child' and (ctx.quick() and n == nrows) and tags.count('ref') not in (0, 1):
                                continue
                            rows = [{'tag': t, 'vals': [v], 'kids': [], 'id': None, 'idref': None}
                                    for t, v in zip(tags, combo)]
                            yield {'v': '1.0', 'recursive': False, 'fields': fields, 'cons': cons,
                                   'doc': {'tag': 'root', 'vals': [], 'kids': rows, 'id': None, 'idref': None}}
    # two fields, integer x boolean, 2 rows of items (+1 ref): all presence / equality patterns
    fields = [{'name': 'f1', 'loc': 'attr', 'ty': 'integer', 'rloc': 'attr', 'rty': 'decimal'},
              {'name': 'f2', 'loc': 'child', 'ty': 'boolean', 'rloc': 'attr', 'rty': 'boolean'}]
    v1 = [None, ['n1', '1'], ['n1', '+01'], ['n2', '2']]
    v1r = [None, ['n1', '1.0'], ['n2', '2']]
    v2 = [None, ['bT', 'true'], ['bT', '1'], ['bF', 'false']]
    for kind in ('unique', 'key'):
        cons = [{'name': 'K', 'kind': kind, 'on': 'sec', 'sel': 'item', 'fields': ['@f1', 'f2'], 'refer': None},
                {'name': 'R', 'kind': 'keyref', 'on': 'sec', 'sel': 'ref', 'fields': ['@f1', '@f2'], 'refer': 'K'}]
        for a in itertools.product(v1, v2):
            for b in itertools.product(v1, v2):
                for r in itertools.product(v1r, v2[:3]):
                    rows = [{'tag': 'item', 'vals': list(a), 'kids': [], 'id': None, 'idref': None},
                            {'tag': 'item', 'vals': list(b), 'kids': [], 'id': None, 'idref': None},
                            {'tag': 'ref', 'vals': list(r), 'kids': [], 'id': None, 'idref': None}]
                    sec = {'tag': 'sec', 'vals': [], 'kids': rows, 'id': None, 'idref': None}
                    yield {'v': '1.0', 'recursive': False, 'fields': fields, 'cons': cons,
                           'doc': {'tag': 'root', 'vals': [], 'kids': [sec], 'id': None, 'idref': None}}
    # ID / IDREF: every assignment of {none, A, B} to 3 items and {none, A, Z} to 2 refs, both orders
    fields = [{'name': 'f1', 'loc': 'attr', 'ty': 'string', 'rloc': 'attr', 'rty': 'string'}]
    for ids in itertools.product([None, 'A', 'B'], repeat=3):
        for refs in itertools.product([None, 'A', 'Z'], repeat=2):
            for first in ('item', 'ref'):
                items = [{'tag': 'item', 'vals': [None], 'kids': [], 'id': i, 'idref': None} for i in ids]
                rr = [{'tag': 'ref', 'vals': [None], 'kids': [], 'id': None, 'idref': r} for r in refs]
                rows = items + rr if first == 'item' else rr + items
                yield {'v': '1.0', 'recursive': False, 'fields': fields, 'cons': [],
                       'doc': {'tag': 'root', 'vals': [], 'kids': rows, 'id': None, 'idref': None}}


def gen_decl(rng, tns: bool) -> dict:
    """xmlns declarations of one element: rebinds one or two of the prefixes the QName values use (and, on the
    target-namespace template, the default namespace; xmlns="" undeclares it)"""
    d = {}
    for _ in range(rng.choice([1, 1, 2])):
        p = rng.choice(['p', 'q', 'r'] + (['', ''] if tns else []))
        d[p] = rng.choice(URIS + ([''] if p == '' else []))
    return d


def note_node(rng, tns: bool, tag: str = 'note', depth: int = 0, p_decl: float = 0.7) -> dict:
    n = {'tag': tag, 'vals': [], 'kids': [], 'id': None, 'idref': None}
    if rng.random() < p_decl:
        n['ns'] = gen_decl(rng, tns)
    if depth < 2 and rng.random() < 0.35:
        n['kids'] = [note_node(rng, tns, 'note', depth + 1) for _ in range(rng.randint(1, 2))]
    return n


def scatter_ns(rng, case: dict) -> None:
    """the dimension `namespace declarations in scope where a field value is read`: declarations on the root
    (possibly other than NSDECL), containers, rows, field child elements, leading / trailing children of rows
    (and their descendants) and sibling notes between rows"""
    tns, fields, root = bool(case.get('tns')) and case.get('etag') != 'default', case['fields'], case['doc']
    root['ns'] = dict(NSDECL)
    if tns and rng.random() < 0.5:
        root['ns'][''] = rng.choice(URIS)
    if rng.random() < 0.2:
        root['ns'][rng.choice('pqr')] = rng.choice(URIS)

    def walk(n: dict) -> None:
        for k in list(n['kids']):
            walk(k)
        if n['tag'] in ('root', 'sec', 'sub'):
            if n is not root and rng.random() < 0.25:
                n['ns'] = gen_decl(rng, tns)
            for _ in range(rng.choice([0, 0, 0, 1, 1, 2])):
                n['kids'].insert(rng.randint(0, len(n['kids'])), note_node(rng, tns))
        elif n['tag'] in ('item', 'ref'):
            if rng.random() < 0.3:
                n['ns'] = gen_decl(rng, tns)
            for f, v in zip(fields, n['vals']):
                loc = f['loc'] if n['tag'] == 'item' else f['rloc']
                if loc == 'child' and v is not None and rng.random() < 0.4:
                    n.setdefault('fns', {})[f['name']] = gen_decl(rng, tns)
            if rng.random() < 0.45:
                n['kids'] = n['kids'] + [note_node(rng, tns) for _ in range(rng.randint(1, 2))]
            if rng.random() < 0.2:
                n['kids'].insert(0, note_node(rng, tns, 'pre'))

    walk(root)


def random_case(rng, big: bool) -> dict:
    nsmode = rng.choice(['root', 'root', 'scatter', 'scatter', 'scatter'])
    tns = rng.random() < 0.4
    nf = rng.choice([1, 1, 2, 2, 3])
    fields = gen_fields(rng, nf, 0.5 if nsmode == 'scatter' else 0.0, rng.random() < 0.25)
    recursive = rng.random() < 0.12
    rootsub = rng.random() < 0.3
    # `falsy-heavy` documents: multi-field constraints over types that HAVE a falsy value, mostly unique, many
    # absent fields, the zero / empty-string class dominant
    heavy = rng.random() < 0.12
    if heavy:
        fields = gen_fields(rng, rng.choice([2, 2, 3]), 0.0, rng.random() < 0.25)
        for f in fields:
            f['ty'] = rng.choice(['integer', 'decimal', 'string', 'integer'])
            f['rty'] = f['ty'] if rng.random() < 0.7 else rng.choice(['integer', 'decimal', 'string'])
    cons = gen_constraints(rng, fields, recursive, rootsub)
    if heavy:
        for c in cons:
            if c['kind'] == 'key' and rng.random() < 0.6:
                c['kind'] = 'unique'
    case = {'v': rng.choice(['1.0', '1.0', '1.1']), 'recursive': recursive, 'fields': fields, 'cons': cons,
            'doc': gen_doc(rng, fields, recursive, big, tns, rootsub, heavy), 'tns': tns, **({'rootsub': True} if rootsub else {}),
            'src': rng.choice(['etree', 'etree', 'text', 'lxml'] if nsmode == 'root' else ['text', 'text', 'lxml'])}
    if tns and rng.random() < 0.3:
        case['etag'] = 'default'
    if nsmode == 'scatter':
        scatter_ns(rng, case)
    elif tns and 'etag' not in case and rng.random() < 0.5:
        case['doc']['ns'] = dict(NSDECL, **{'': rng.choice(URIS)})
    if case['src'] != 'etree' and rng.random() < 0.25:
        case['nsarg'] = True
    if rng.random() < 0.55:
        scatter_ids(rng, case)
        if rng.random() < 0.2:
            cut_partial(rng, case)
        if case['src'] in ('etree', 'lxml') and rng.random() < 0.2:
            case['wrap'] = True
    if rng.random() < 0.2:
        case['decode'] = rng.choice(['default', 'jsonml', 'dataelement', 'badgerfish', 'unordered', 'parker', 'abdera',
                                     'columnar', 'gdata'])
    return case


def ns_stats(case: dict) -> list[str]:
    """tags of the namespace dimension reached by a case (evidence histogram)"""
    fields = case['fields']
    out = {'ns:src=' + case.get('src', 'etree') + ('+namespaces-arg' if case.get('nsarg') else '')}
    if case.get('tns'):
        out.add('ns:target-namespace-template' + ('/elements-in-default-namespace' if case.get('etag') else ''))
    if any(f.get('d') or f.get('rd') for f in fields):
        out.add('type:field-declared-with-user-restriction-of-builtin')
    scope = scopes_of(case)
    root = case['doc']

    def rebinding(n: dict, used: dict) -> bool:
        """does the subtree n (declarations of n included) rebind a prefix of `used` to another URI?"""
        return any(used.get(p, u) != u for p, u in (n.get('ns') or {}).items() if p in used) or \
            any(rebinding(k, used) for k in n['kids'])

    def walk(n: dict, parent: Optional[dict]) -> None:
        if n is not root and n.get('ns'):
            out.add('ns:decl@' + ('row' if n['tag'] in ('item', 'ref') else
                                  'container' if n['tag'] in ('sec', 'sub') else
                                  n['tag'] + ('-of-row' if parent and parent['tag'] in ('item', 'ref') else
                                              '-nested' if parent and parent['tag'] in ('note', 'pre') else
                                              '-sibling-of-rows')))
            if '' in n['ns']:
                out.add('ns:default-namespace-redeclared')
        if n is root and '' in root_decls(case):
            out.add('ns:default-namespace@root')
        if n['tag'] in ('item', 'ref'):
            if n.get('fns'):
                out.add('ns:decl@field-element')
            used = {}
            for f, v in zip(fields, n['vals']):
                ty = f['ty'] if n['tag'] == 'item' else f['rty']
                if ty == 'QName' and v is not None:
                    lex = v[1].strip()
                    pfx = lex.split(':', 1)[0] if ':' in lex else ''
                    if pfx in scope[id(n)]:
                        used[pfx] = scope[id(n)][pfx]
            if used:
                out.add('ns:qname-field-row')
                kids = n['kids']
                if any(rebinding(k, used) for k in kids):
                    out.add('ns:qname-row/descendant-rebinds-used-prefix')
                if kids and kids[-1]['tag'] != 'pre' and rebinding(kids[-1], used):
                    out.add('ns:qname-row/LAST-child-subtree-rebinds-used-prefix')
                if any(any(used.get(p, u) != u for p, u in d.items() if p in used)
                       for d in (n.get('fns') or {}).values()):
                    out.add('ns:qname-row/field-element-rebinds-used-prefix')
                if any(used.get(p, u) != u for p, u in (n.get('ns') or {}).items() if p in used) or \
                        (parent is not None and any(scope[id(n)].get(p) != u for p, u in root_decls(case).items()
                                                    if p in used)):
                    out.add('ns:qname-row/binding-differs-from-root')
                if parent is not None:
                    sibs = parent['kids']
                    i = next(j for j, x in enumerate(sibs) if x is n)
                    if any(rebinding(x, used) for x in sibs[:i]):
                        out.add('ns:qname-row/preceding-sibling-rebinds-used-prefix')
        for k in n['kids']:
            walk(k, n)

    walk(root, None)
    return sorted(out)


WITNESSES = {
    # minimal witnesses of the listed findings (replayed on every run)
    'C08-F3': {'v': '1.0', 'recursive': True,
               'fields': [{'name': 'f1', 'loc': 'attr', 'ty': 'integer', 'rloc': 'attr', 'rty': 'integer'}],
               'cons': [{'name': 'K', 'kind': 'unique', 'on': 'sec', 'sel': 'item', 'fields': ['@f1'], 'refer': None}],
               'doc': {'tag': 'root', 'vals': [], 'id': None, 'idref': None, 'kids': [
                   {'tag': 'sec', 'vals': [], 'id': None, 'idref': None, 'kids': [
                       {'tag': 'item', 'vals': [['n1', '1']], 'kids': [], 'id': None, 'idref': None},
                       {'tag': 'sec', 'vals': [], 'kids': [], 'id': None, 'idref': None},
                       {'tag': 'item', 'vals': [['n1', '1']], 'kids': [], 'id': None, 'idref': None}]}]}},
    'C08-F4': {'v': '1.0', 'recursive': False,
               'fields': [{'name': 'f1', 'loc': 'attr', 'ty': 'integer', 'rloc': 'attr', 'rty': 'integer'}],
               'cons': [{'name': 'K', 'kind': 'key', 'on': 'sec', 'sel': 'item', 'fields': ['@f1'], 'refer': None},
                        {'name': 'R', 'kind': 'keyref', 'on': 'root', 'sel': 'ref', 'fields': ['@f1'], 'refer': 'K'}],
               'doc': {'tag': 'root', 'vals': [], 'id': None, 'idref': None, 'kids': [
                   {'tag': 'sec', 'vals': [], 'id': None, 'idref': None, 'kids': [
                       {'tag': 'item', 'vals': [['n1', '1']], 'kids': [], 'id': None, 'idref': None}]},
                   {'tag': 'sec', 'vals': [], 'id': None, 'idref': None, 'kids': [
                       {'tag': 'item', 'vals': [['n2', '2']], 'kids': [], 'id': None, 'idref': None}]},
                   {'tag': 'ref', 'vals': [['n1', '1']], 'kids': [], 'id': None, 'idref': None}]}},
    'C08-F5': {'v': '1.0', 'recursive': False,
               'fields': [{'name': 'f1', 'loc': 'attr', 'ty': 'string', 'rloc': 'attr', 'rty': 'QName'}],
               'cons': [{'name': 'K', 'kind': 'key', 'on': 'root', 'sel': 'item', 'fields': ['@f1'], 'refer': None},
                        {'name': 'R', 'kind': 'keyref', 'on': 'root', 'sel': 'ref', 'fields': ['@f1'], 'refer': 'K'}],
               'doc': {'tag': 'root', 'vals': [], 'id': None, 'idref': None, 'kids': [
                   {'tag': 'item', 'vals': [['s:{urn:a}x', '{urn:a}x']], 'kids': [], 'id': None, 'idref': None},
                   {'tag': 'ref', 'vals': [['{urn:a}x', 'p:x']], 'kids': [], 'id': None, 'idref': None}]}},
    # a QName field on a child element that rebinds the prefix on itself: the two values differ ({urn:a}x,
    # {urn:b}x); the map of the selected node makes them equal
    'C08-F8': {'v': '1.0', 'recursive': False, 'src': 'text',
               'fields': [{'name': 'f1', 'loc': 'child', 'ty': 'QName', 'rloc': 'attr', 'rty': 'QName'}],
               'cons': [{'name': 'K', 'kind': 'key', 'on': 'root', 'sel': 'item', 'fields': ['f1'], 'refer': None}],
               'doc': {'tag': 'root', 'vals': [], 'id': None, 'idref': None, 'ns': dict(NSDECL), 'kids': [
                   {'tag': 'item', 'vals': [[None, 'p:x']], 'kids': [], 'id': None, 'idref': None},
                   {'tag': 'item', 'vals': [[None, 'p:x']], 'kids': [], 'id': None, 'idref': None,
                    'fns': {'f1': {'p': 'urn:b'}}}]}},
    # an ID that is the CONTENT of the element the validation starts from is not recorded (level 0)
    'C08-F9': {'v': '1.0', 'recursive': False, 'src': 'text',
               'fields': [{'name': 'f1', 'loc': 'attr', 'ty': 'string', 'rloc': 'attr', 'rty': 'string'}], 'cons': [],
               'doc': {'tag': 'eidx', 'vals': [], 'kids': [], 'id': None, 'idref': 'a', 'val': 'a'}},
}


def detect_mode() -> None:
    """does the tree under check resolve a QName field with the declarations in scope of the node the field
    selects (C08-F8 repaired) or with the map of the selected node?  Decided by the F8 witness; the answer only
    selects which of the two proved variants of the model (`codeConv fscope`) the driver runs and whether the
    F8 match rule exists.  The property is judged against the same oracle either way."""
    global FSCOPE, ROOTREG
    FSCOPE = False
    impl = run_impl(WITNESSES['C08-F8'])
    FSCOPE = not impl['crash'] and not impl['errors']
    # likewise for C08-F9: is an ID that is the content of the validation root recorded?
    ROOTREG = False
    impl = run_impl(WITNESSES['C08-F9'])
    ROOTREG = not impl['crash'] and not impl['errors']


def _row(tag, *vals):
    return {'tag': tag, 'vals': list(vals), 'kids': [], 'id': None, 'idref': None}


_F2 = [{'name': 'f1', 'loc': 'attr', 'ty': 'integer', 'rloc': 'attr', 'rty': 'integer'},
       {'name': 'f2', 'loc': 'attr', 'ty': 'integer', 'rloc': 'attr', 'rty': 'integer'}]
_UNIQ2 = [{'name': 'K', 'kind': 'unique', 'on': 'root', 'sel': 'item', 'fields': ['@f1', '@f2'], 'refer': None}]
_F1 = [{'name': 'f1', 'loc': 'attr', 'ty': 'integer', 'rloc': 'attr', 'rty': 'integer'}]
_KSEC_RROOT = [{'name': 'K', 'kind': 'key', 'on': 'sec', 'sel': 'item', 'fields': ['@f1'], 'refer': None},
               {'name': 'R', 'kind': 'keyref', 'on': 'root', 'sel': 'ref', 'fields': ['@f1'], 'refer': 'K'}]

FIXED_WITNESSES = {
    # witnesses of the findings that were repaired in the library.  They are ordinary cases now: the real
    # code must satisfy the property on them (no match rule exists for them any more), the Lean theorems
    # `unique_partial_witness` / `absent_refer_witness` state the same inputs for the model.
    # C08-F6 (cc593f3): two nodes (1, absent) under a two-field unique: valid
    'C08-F6': {'v': '1.0', 'recursive': False, 'fields': _F2, 'cons': _UNIQ2,
               'doc': {'tag': 'root', 'vals': [], 'id': None, 'idref': None, 'kids': [
                   _row('item', ['n1', '1'], None), _row('item', ['n1', '1'], None)]}},
    # ... and a partially absent node must not hide the duplicate among the complete ones
    'C08-F6/b': {'v': '1.0', 'recursive': False, 'fields': _F2, 'cons': _UNIQ2,
                 'doc': {'tag': 'root', 'vals': [], 'id': None, 'idref': None, 'kids': [
                     _row('item', ['n1', '1'], ['n2', '2']), _row('item', ['n1', '1'], None),
                     _row('item', ['n1', '01'], ['n2', '+2'])]}},
    # C08-F7 (b32146f): the element of the referenced key does not occur: <root/> is valid ...
    'C08-F7': {'v': '1.0', 'recursive': False, 'fields': _F1, 'cons': _KSEC_RROOT,
               'doc': {'tag': 'root', 'vals': [], 'id': None, 'idref': None, 'kids': []}},
    # ... and <root><ref f1="1"/><ref f1="01"/><ref/></root> reports the dangling value once (2 times)
    'C08-F7/b': {'v': '1.0', 'recursive': False, 'fields': _F1, 'cons': _KSEC_RROOT,
                 'doc': {'tag': 'root', 'vals': [], 'id': None, 'idref': None, 'kids': [
                     _row('ref', ['n1', '1']), _row('ref', ['n1', '01']), _row('ref', None)]}},
}


def absent_refer_cases(ctx: Ctx):
    """exhaustive: a keyref on the root whose referenced key/unique is declared on `sec`, documents WITHOUT any
    `sec` (the region of the former C08-F7): every table of <= 3 (4) reference rows, 1 field of each type, and
    every table of <= 2 two-field reference rows"""
    vals1 = {'integer': [None, ['n1', '1'], ['n1', '01'], ['n2', '2']],
             'decimal': [None, ['n1', '1.0'], ['n1', '+1'], ['n2.5', '2.50']],
             'boolean': [None, ['bT', 'true'], ['bT', '1'], ['bF', '0']],
             'QName': [None, ['{urn:a}x', 'p:x'], ['{urn:a}x', 'q:x'], ['{urn:b}x', 'r:x']],
             'string': [None, ['s:1', '1'], ['s:01', '01'], ['s:a', 'a']]}
    for ty in TYPES:
        for kind in ('key', 'unique'):
            fields = [{'name': 'f1', 'loc': 'attr', 'ty': ty, 'rloc': 'attr', 'rty': ty}]
            cons = [{'name': 'K', 'kind': kind, 'on': 'sec', 'sel': 'item', 'fields': ['@f1'], 'refer': None},
                    {'name': 'R', 'kind': 'keyref', 'on': 'root', 'sel': 'ref', 'fields': ['@f1'], 'refer': 'K'}]
            for n in range(ctx.pick(3, 4) + 1):
                if kind == 'unique' and n > 2:
                    continue
                for combo in itertools.product(vals1[ty], repeat=n):
                    yield {'v': '1.0', 'recursive': False, 'fields': fields, 'cons': cons,
                           'doc': {'tag': 'root', 'vals': [], 'kids': [_row('ref', v) for v in combo],
                                   'id': None, 'idref': None}}
    fields = [{'name': 'f1', 'loc': 'attr', 'ty': 'integer', 'rloc': 'attr', 'rty': 'decimal'},
              {'name': 'f2', 'loc': 'child', 'ty': 'boolean', 'rloc': 'child', 'rty': 'boolean'}]
    cons = [{'name': 'K', 'kind': 'key', 'on': 'sec', 'sel': 'item', 'fields': ['@f1', 'f2'], 'refer': None},
            {'name': 'R', 'kind': 'keyref', 'on': 'root', 'sel': './/ref', 'fields': ['@f1', 'f2'], 'refer': 'K'}]
    pairs = list(itertools.product([None, ['n1', '1.0'], ['n2', '2']], [None, ['bT', 'true'], ['bT', '1']]))
    for n in range(3):
        for combo in itertools.product(pairs, repeat=n):
            yield {'v': '1.1', 'recursive': False, 'fields': fields, 'cons': cons,
                   'doc': {'tag': 'root', 'vals': [], 'kids': [_row('ref', *v) for v in combo],
                           'id': None, 'idref': None}}


def unique_partial_cases(ctx: Ctx):
    """exhaustive: a two-field unique over 3 rows, each field absent / value 1 (two lexical variants) / value 2
    (the region of the former C08-F6: partially absent tuples among complete ones)"""
    v = [None, ['n1', '1'], ['n1', '+01'], ['n2', '2']]
    rows = list(itertools.product(v[:ctx.pick(3, 4)], v[:2] + v[3:]))
    for kind in ('unique',):
        cons = [{'name': 'K', 'kind': kind, 'on': 'root', 'sel': 'item', 'fields': ['@f1', '@f2'], 'refer': None}]
        for combo in itertools.product(rows, repeat=3):
            if ctx.quick() and not any((r[0] is None) != (r[1] is None) for r in combo):
                continue            # quick tier: only tables with at least one partially absent tuple
            yield {'v': '1.0', 'recursive': False, 'fields': _F2, 'cons': cons,
                   'doc': {'tag': 'root', 'vals': [], 'kids': [_row('item', *r) for r in combo],
                           'id': None, 'idref': None}}


def ns_placement_cases(ctx: Ctx):
    """exhaustive: WHERE a declaration that rebinds the prefix of a QName field value sits relative to the
    selected row.  Rows A = item(f1 = p:x), B = item(f1 = p:x | r:x), optional C = ref(f1 = p:x); key K on
    item/f1, keyref R on ref/@f1; f1 of the items an attribute or a child element; a second child field f2
    (integer, not part of the constraints) hosts declarations.  Each of A, B (and C) gets one placement of
    xmlns:p="urn:b" out of: none / on the row / on the f1 element / on the f2 element / on a trailing note /
    on a note nested in a trailing note / on a leading pre / on a note sibling before / after the row.
    On the target-namespace template the same with unprefixed values and the default namespace, the root
    declaring a default namespace or none (a declaration below the root then BINDS what was unbound)."""
    places = ['none', 'self', 'f1', 'f2', 'note', 'note2', 'pre', 'sib-before', 'sib-after']

    def mk_row(tag, lex, place, decl, f1_child):
        r = {'tag': tag, 'vals': [[None, lex], ['n1', '1']], 'kids': [], 'id': None, 'idref': None}
        before, after = [], []
        note = lambda ns=None, kids=None, t='note': dict({'tag': t, 'vals': [], 'kids': kids or [], 'id': None,
                                                          'idref': None}, **({'ns': dict(ns)} if ns else {}))
        if place == 'self':
            r['ns'] = dict(decl)
        elif place == 'f1':
            r['fns'] = {'f1': dict(decl)}
        elif place == 'f2':
            r['fns'] = {'f2': dict(decl)}
        elif place == 'note':
            r['kids'] = [note(decl)]
        elif place == 'note2':
            r['kids'] = [note(None, [note(decl)])]
        elif place == 'pre':
            r['kids'] = [note(decl, None, 'pre')]
        elif place == 'sib-before':
            before = [note(decl)]
        elif place == 'sib-after':
            after = [note(decl)]
        return before + [r] + after

    n = 0
    for tns, rootdef in ((False, None), (True, 'urn:a'), (True, None)):
        decl = {'': 'urn:b'} if tns else {'p': 'urn:b'}
        a_lex = 'x' if tns else 'p:x'
        for loc in ('attr', 'child'):
            fields = [{'name': 'f1', 'loc': loc, 'ty': 'QName', 'rloc': 'attr', 'rty': 'QName'},
                      {'name': 'f2', 'loc': 'child', 'ty': 'integer', 'rloc': 'child', 'rty': 'integer'}]
            cons = [{'name': 'K', 'kind': 'key', 'on': 'root', 'sel': 'item', 'fields': [field_xpath(fields[0], 'item')],
                     'refer': None},
                    {'name': 'R', 'kind': 'keyref', 'on': 'root', 'sel': 'ref', 'fields': ['@f1'], 'refer': 'K'}]
            pl = [x for x in places if x != 'f1' or loc == 'child']
            small = tns and ctx.quick()
            for pa in pl:
                for pb in (['none', 'self', 'note'] if small else pl):
                    for b_lex in (a_lex, 'r:x'):
                        for pc in ([None, 'none'] if small else [None, 'none', 'self', 'note']):
                            kids = mk_row('item', a_lex, pa, decl, loc == 'child') + \
                                mk_row('item', b_lex, pb, decl, loc == 'child')
                            if pc is not None:
                                kids = kids + mk_row('ref', a_lex, pc if pc != 'f1' else 'none', decl, False)
                            n += 1
                            rootns = dict(NSDECL, **({'': rootdef} if rootdef else {}))
                            yield {'v': '1.0', 'recursive': False, 'fields': fields, 'cons': cons, 'tns': tns,
                                   'src': 'lxml' if n % 3 == 0 else 'text',
                                   **({'decode': ['default', 'jsonml', 'dataelement', 'parker', 'columnar'][n // 4 % 5]} if n % 4 == 0 else {}),
                                   'doc': {'tag': 'root', 'vals': [], 'kids': kids, 'id': None, 'idref': None,
                                           'ns': rootns}}


def overlap_cases(ctx: Ctx):
    """exhaustive: the SAME rows selected by a keyref and by the key / unique it refers to (a table of rows with an
    id column f1 and a parent-pointer column f2), optionally by a further unique on the pointer column, or by a
    two-field unique V(f1, f2) and the key K(f1) (with / without the keyref); every
    declaration order of the constraints; all on the root, or the keyref (and the unique) on the root and the key on
    the single `sec` below it (outer keyref + inner key selecting the same nodes); every small table over
    f1 in {absent, 1, 01, 2} x f2 in {absent, 1, 2} (rows lacking a field of one constraint but not of the other)."""
    fields = [{'name': 'f1', 'loc': 'attr', 'ty': 'integer', 'rloc': 'attr', 'rty': 'integer'},
              {'name': 'f2', 'loc': 'attr', 'ty': 'integer', 'rloc': 'attr', 'rty': 'integer'}]
    v1 = [None, ['n1', '1'], ['n1', '01'], ['n2', '2']]
    v2 = [None, ['n1', '1'], ['n2', '2']]
    rows2 = list(itertools.product(v1, v2))
    rows3 = list(itertools.product(v1, v2[:ctx.pick(2, 3)]))
    tables_full = [t for n in range(3) for t in itertools.product(rows2, repeat=n)] + \
        list(itertools.product(rows3, repeat=3))
    tables_small = [t for n in range(3) for t in itertools.product(rows2, repeat=n)] + \
        (list(itertools.product(rows3, repeat=3)) if not ctx.quick() else [])
    for nested in (False, True):
        outer, inner = 'root', ('sec' if nested else 'root')
        osel = 'sec/item' if nested else 'item'
        for mix in ('KP', 'KPU', 'VK', 'VKP'):
            for kind in (('key', 'unique') if mix in ('KP', 'VK') else ('key',)):
                base = {'K': {'name': 'K', 'kind': kind, 'on': inner, 'sel': 'item', 'fields': ['@f1'], 'refer': None},
                        'P': {'name': 'P', 'kind': 'keyref', 'on': outer, 'sel': osel, 'fields': ['@f2'], 'refer': 'K'},
                        'U': {'name': 'U', 'kind': 'unique', 'on': outer, 'sel': osel, 'fields': ['@f2'], 'refer': None},
                        # a two-field unique: a row with exactly one of the fields is outside ITS qualified node set
                        'V': {'name': 'V', 'kind': 'unique', 'on': outer, 'sel': osel, 'fields': ['@f1', '@f2'],
                              'refer': None}}
                for order in itertools.permutations(mix):
                    cons = [base[x] for x in order]
                    for table in (tables_full if mix in ('KP', 'VK') else tables_small):
                        rows = [_row('item', *r) for r in table]
                        kids = [{'tag': 'sec', 'vals': [], 'kids': rows, 'id': None, 'idref': None}] if nested else rows
                        yield {'v': '1.0', 'recursive': False, 'fields': fields, 'cons': cons,
                               'doc': {'tag': 'root', 'vals': [], 'kids': kids, 'id': None, 'idref': None}}


def falsy_cases(ctx: Ctx):
    """exhaustive: FALSY field values in complete and incomplete tuples.  Two-field unique / key U on the item rows
    and keyref R on the ref rows, for the type pairs below; every field of a row is absent, a falsy value in one of
    two spellings (0 / -0, 0.0 / -0, '' / ' ' [the blank is a different, truthy string], false / 0) or a non-falsy
    value: every pair of item rows (every subset of fields missing on each) x a reference row.  Then a three-field
    unique / key over integer columns with values {absent, 0, +00} on two and three rows."""
    pool = {'integer': [None, ['n0', '0'], ['n0', '-0'], ['n1', '1']],
            'decimal': [None, ['n0', '0.0'], ['n0', '-0'], ['n1', '1.0']],
            'string': [None, ['s:', ''], ['s: ', ' '], ['s:a', 'a']],
            'boolean': [None, ['bF', 'false'], ['bF', '0'], ['bT', 'true']]}
    pairs = [('integer', 'integer'), ('decimal', 'integer'), ('string', 'string'), ('string', 'decimal'),
             ('boolean', 'integer')]
    for t1, t2 in pairs:
        for loc in (('attr', 'attr'), ('child', 'attr')) if (t1, t2) in pairs[:3] else (('attr', 'child'),):
            fields = [{'name': 'f1', 'loc': loc[0], 'ty': t1, 'rloc': 'attr', 'rty': t1},
                      {'name': 'f2', 'loc': loc[1], 'ty': t2, 'rloc': loc[1], 'rty': t2}]
            rows = list(itertools.product(pool[t1], pool[t2]))
            refs = [None, (pool[t1][2], pool[t2][1])] + ([] if ctx.quick() else
                                                         [(pool[t1][1], None), (None, pool[t2][2]), (pool[t1][3], pool[t2][1])])
            for kind in ('unique', 'key'):
                cons = [{'name': 'K', 'kind': kind, 'on': 'root', 'sel': 'item',
                         'fields': [field_xpath(f, 'item') for f in fields], 'refer': None},
                        {'name': 'R', 'kind': 'keyref', 'on': 'root', 'sel': 'ref',
                         'fields': [field_xpath(f, 'ref') for f in fields], 'refer': 'K'}]
                if kind == 'key':
                    cons.reverse()
                for a in rows:
                    for b in rows:
                        if kind == 'key' and ctx.quick() and not (None in a or None in b):
                            continue        # (quick: the complete x complete pairs are run for unique)
                        for r in refs:
                            kids = [_row('item', *a), _row('item', *b)] + ([_row('ref', *r)] if r else [])
                            yield {'v': '1.0', 'recursive': False, 'fields': fields, 'cons': cons,
                                   'doc': {'tag': 'root', 'vals': [], 'kids': kids, 'id': None, 'idref': None}}
    fields = [{'name': f'f{i}', 'loc': 'attr', 'ty': 'integer', 'rloc': 'attr', 'rty': 'decimal'} for i in (1, 2, 3)]
    z = [None, ['n0', '0'], ['n0', '+00']]
    rows = list(itertools.product(z, z, z))
    for kind in ('unique', 'key'):
        cons = [{'name': 'K', 'kind': kind, 'on': 'root', 'sel': 'item', 'fields': ['@f1', '@f2', '@f3'], 'refer': None},
                {'name': 'R', 'kind': 'keyref', 'on': 'root', 'sel': 'ref', 'fields': ['@f1', '@f2', '@f3'], 'refer': 'K'}]
        for a in rows:
            for b in rows:
                for extra in ([], [_row('ref', ['n0', '0.0'], ['n0', '-0'], ['n0', '.0'])],
                              [_row('ref', ['n0', '0.0'], None, ['n0', '.0'])]):
                    yield {'v': '1.0', 'recursive': False, 'fields': fields, 'cons': cons,
                           'doc': {'tag': 'root', 'vals': [], 'kids': [_row('item', *a), _row('item', *b)] + extra,
                                   'id': None, 'idref': None}}
        if not ctx.quick() or kind == 'unique':
            part = [r for r in rows if None in r and any(x is not None for x in r)]
            for a in part[::ctx.pick(3, 1)]:
                for b in part:
                    for c in part[::ctx.pick(2, 1)]:
                        yield {'v': '1.0', 'recursive': False, 'fields': fields, 'cons': cons[:1],
                               'doc': {'tag': 'root', 'vals': [], 'id': None, 'idref': None,
                                       'kids': [_row('item', *a), _row('item', *b), _row('item', *c)]}}


def id_depth_cases(ctx: Ctx):
    """exhaustive: WHERE ID / IDREF / IDREFS occurrences sit.  Skeleton top > sec > item, note > note (deepest);
    two ID occurrences (equal or different values) and one reference, each at every position: attribute of the
    validation root / sec / item / deepest note, eid leaf under the root / under sec / in the deepest note; the
    reference as an idr or idrs attribute or an eref / erefs leaf at those places (references up, down, sideways,
    to the root, dangling); both XSD versions; the validation root being the document element `root`, or `sec` /
    `note` (partial input), plain or wrapped in a bigger tree; and the root being an eidx (ID content + IDREF
    attributes)."""
    F = [{'name': 'f1', 'loc': 'attr', 'ty': 'string', 'rloc': 'attr', 'rty': 'string'}]

    def build(top: str):
        item = {'tag': 'item', 'vals': [None], 'kids': [], 'id': None, 'idref': None}
        deep = _note()
        sec = {'tag': 'sec', 'vals': [], 'kids': [item, _note([deep])], 'id': None, 'idref': None}
        if top == 'root':
            t = {'tag': 'root', 'vals': [], 'kids': [sec], 'id': None, 'idref': None}
        elif top == 'sec':
            t = sec
            sec['kids'] = [item, _note([_note([deep])])]
        else:
            t = _note([_note([item_free := _note()]), _note([deep])])
            item, sec = item_free, t['kids'][0]
        return t, {'top': t, 'sec': sec, 'item': item, 'deep': deep}

    idpos = ['@top', '@sec', '@item', '@deep', 'eid/top', 'eid/sec', 'eid/deep']
    refpos = ['@top', '@item', '@deep', 'idrs@top', 'idrs@sec', 'eref/top', 'eref/deep', 'erefs/sec']

    def put_id(nodes, pos, v):
        if pos[0] == '@':
            if nodes[pos[1:]].get('id'):
                return False
            nodes[pos[1:]]['id'] = v
        else:
            nodes[pos[4:]]['kids'].append(_leaf('eid', v))
        return True

    def put_ref(nodes, pos, v):
        if pos[0] == '@':
            nodes[pos[1:]]['idref'] = v
        elif pos.startswith('idrs@'):
            nodes[pos[5:]]['idrefs'] = v + ' B'
        elif pos.startswith('eref/'):
            nodes[pos[5:]]['kids'].insert(0, _leaf('eref', v))
        else:
            nodes[pos[6:]]['kids'].append(_leaf('erefs', 'B  ' + v))
        return True

    n = 0
    for top in ('root', 'sec', 'note'):
        for ver in ('1.0', '1.1'):
            for p1 in idpos:
                for p2 in idpos:
                    if idpos.index(p2) < idpos.index(p1) or (p1 == p2 and p1[0] == '@'):
                        continue
                    for v2 in ('A', 'B'):
                        for pr in (refpos if top == 'root' or not ctx.quick() else refpos[::2]):
                            for rv in ('A', 'B') if (top == 'root' and not ctx.quick()) else ('A',):
                                t, nodes = build(top)
                                if not (put_id(nodes, p1, 'A') and put_id(nodes, p2, v2)):
                                    continue
                                put_ref(nodes, pr, rv)
                                n += 1
                                yield {'v': ver, 'recursive': False, 'fields': F, 'cons': [], 'doc': t,
                                       'src': ['text', 'etree', 'lxml'][n % 3],
                                       **({'wrap': True} if n % 3 and n % 2 else {}),
                                       **({'decode': ['default', 'jsonml', 'dataelement', 'parker'][n // 5 % 4]}
                                          if n % 5 == 0 else {})}
    # the validation root is itself an ID-typed element with IDREF / IDREFS attributes
    for ver in ('1.0', '1.1'):
        for val in ('a', ' a '):
            for r in (None, 'a', 'b'):
                for rs in (None, 'a', 'a b', 'a  a'):
                    n += 1
                    yield {'v': ver, 'recursive': False, 'fields': F, 'cons': [], 'src': ['text', 'etree', 'lxml'][n % 3],
                           'doc': _leaf('eidx', val, idref=r, idrefs=rs)}


def stream_scope_cases(ctx: Ctx):
    """streamed / path-selected validation x REPEATED scope elements above the yielded level: key / unique K (and
    keyref R) declared on `sec`, documents root > sec x 3 > rows; every observation mode lazy depth 1 / 2 / 3,
    path= sec, sec/*, */item; tables drawn from every small sec content (2 items over {absent, 1, 01, 2} + optional
    reference): the 2nd and 3rd occurrence of the scope must be judged with their own, fresh tables"""
    import random as _r
    F = [{'name': 'f1', 'loc': 'attr', 'ty': 'integer', 'rloc': 'attr', 'rty': 'integer'}]
    vals = [None, ['n1', '1'], ['n1', '01'], ['n2', '2']]
    modes = ['lazy1', 'lazy2', 'lazy3', 'path:sec', 'path:sec/*', 'path:*/item']
    rnd = _r.Random(ctx.seed if hasattr(ctx, 'seed') else 0)
    n = 0
    for kind in ('key', 'unique'):
        for withref in (False, True):
            cons = [{'name': 'K', 'kind': kind, 'on': 'sec', 'sel': 'item', 'fields': ['@f1'], 'refer': None}]
            if withref:
                cons.append({'name': 'R', 'kind': 'keyref', 'on': 'sec', 'sel': 'ref', 'fields': ['@f1'], 'refer': 'K'})
            secs = [[_row('item', a), _row('item', b)] + ([_row('ref', r)] if r else [])
                    for a in vals for b in vals[:3] for r in ([None] + vals[1:3] if withref else [None])]
            for _ in range(ctx.pick(30, 400)):
                combo = [rnd.choice(secs) for _ in range(3)]
                for mode in modes:
                    n += 1
                    kids = [{'tag': 'sec', 'vals': [], 'kids': [dict(r) for r in k], 'id': None, 'idref': None}
                            for k in combo]
                    yield {'v': '1.0', 'recursive': False, 'fields': F, 'cons': cons, 'src': 'text', 'stream': mode,
                           'doc': {'tag': 'root', 'vals': [], 'kids': kids, 'id': None, 'idref': None}}


def run(ctx: Ctx, driver_ok: bool) -> None:
    load_findings(ctx)
    detect_mode()
    ctx.count('mode:qname-fields-resolved-at-' + ('field-node' if FSCOPE else 'selected-node'))
    drv = Driver('drv_c08') if driver_ok else None
    reqs: Optional[list] = [] if drv else None
    pend: Optional[list] = [] if drv else None

    def go(case, tag):
        evaluate(ctx, case, reqs, pend, tag)
        if drv and len(reqs) >= 400:
            flush(ctx, drv, reqs, pend)

    # corpus of past disagreements first
    cdir = VERIF / 'corpus' / 'C08'
    if cdir.exists():
        for p in sorted(cdir.glob('*.json')):
            go(json.loads(p.read_text()), 'corpus')
    for fid, case in WITNESSES.items():
        go(case, 'witness')
    for fid, case in FIXED_WITNESSES.items():
        go(case, 'fixed-witness')
    for case in exhaustive_cases(ctx):
        go(case, 'exhaustive')
    for case in absent_refer_cases(ctx):
        go(case, 'exhaustive-absent-refer')
    for case in unique_partial_cases(ctx):
        go(case, 'exhaustive-unique-partial')
    for case in ns_placement_cases(ctx):
        go(case, 'exhaustive-ns-placement')
    for case in overlap_cases(ctx):
        go(case, 'exhaustive-overlap')
    for case in falsy_cases(ctx):
        go(case, 'exhaustive-falsy')
    for case in id_depth_cases(ctx):
        go(case, 'exhaustive-id-depth')
    for case in stream_scope_cases(ctx):
        go(case, 'stream-scope')
    n = ctx.pick(2300, 30000)
    for i in range(n):
        go(random_case(ctx.rng, big=(i % 5 == 4)), 'random')
        if ctx.time_left() < 120:
            ctx.notes.append(f'random family cut at {i} cases by the time budget')
            break
    if drv:
        flush(ctx, drv, reqs, pend)
    ctx.extra['exhaustive'] = True
    ctx.extra['explanation'] = ('exhaustive: every table of <= %d rows (item/ref) over {absent, two lexical variants of one '
                                'value, a second value} for each of the 5 field types x unique/key x attribute/child; every '
                                'pair of 2-field rows x one reference row; every ID/IDREF assignment over 3+2 rows; every '
                                'table of reference rows whose referenced key never occurs; every 3-row table of a 2-field '
                                'unique (quick: those with a partially absent tuple); every placement of a declaration '
                                'rebinding the prefix (default namespace) of a QName field value relative to two key rows '
                                'and a reference row (on the row, its field elements, leading / trailing children, a nested '
                                'descendant, sibling notes before / after) x attribute / child field x text / lxml source; '
                                'every small id / parent-pointer table whose rows are selected by a keyref AND the key / unique '
                                'it refers to (and a further unique) x every declaration order x same / nested scope elements; '
                                'every pair of rows of a two-field unique / key over {absent, two spellings of the falsy value '
                                '(0, 0.0, empty string, false), a truthy value} per field for 5 type pairs x a reference row, '
                                'and of a three-field one over {absent, 0, +00}; every placement of two ID occurrences and one '
                                'IDREF / IDREFS occurrence over {attribute of the validation root / sec / item / deepest note, '
                                'eid / eref / erefs leaf under the root / sec / deepest note} x XSD 1.0 / 1.1 x validation root = '
                                'document element / inner element (plain, or inside a bigger tree) / ID-typed element.  '
                                'random: %d seeded template x document cases') % (ctx.pick(3, 4), n)


def search(ctx: Ctx) -> None:
    """a tie broke without a failing input: explore more of the random family, property evaluation only"""
    for i in range(ctx.pick(4000, 20000)):
        evaluate(ctx, random_case(ctx.rng, big=(i % 3 == 0)), None, None, 'search')
        if ctx.failures or ctx.time_left() < 60:
            break


def replay(ctx: Ctx, obj: dict) -> int:
    print(json.dumps({k: v for k, v in obj.items() if k != 'input'}, indent=1, default=str)[:3000])
    case = obj.get('input')
    if not case or 'doc' not in case:
        return 0
    load_findings(ctx)
    detect_mode()
    print('source kind:', case.get('src', 'etree'), ' namespaces argument:',
          root_decls(case) if case.get('src', 'etree') == 'etree' else (NSARG if case.get('nsarg') else None),
          ' QName fields resolved at the', 'field node' if FSCOPE else 'selected node (C08-F8)')
    print('--- schema ---\n' + schema_text(case))
    print('--- document ---\n' + xml_text(case))
    impl = run_impl(case)
    orc = oracle(case)
    print('real code  :', 'CRASH ' + impl['crash'] if impl['crash'] else impl['errors'])
    print('property   : violated clauses', sorted(orc['clauses']), ' flags', orc['flags'])
    drv_path = Driver('drv_c08')
    agrees = None
    if drv_path.path.exists() and not (impl['crash'] and impl['n_unpaired']):
        impl['field_paths'] = {
            cj['id']: [qual_xpath(fx, bool(case.get('tns')))
                       for fx in next(c for c in case['cons'] if c['name'] == impl['names'][cj['id']])['fields']]
            for cj in impl['cons']}
        ans = drv_path.query([impl['req']])[0]
        if 'err' not in ans:
            mc = model_canon(ans, impl)
            print('Lean model :', 'CRASH' if mc['crash'] else mc['errors'])
            print('Lean spec  :', sorted(lean_clauses(ans, impl)))
            agrees = (mc['crash'] == impl['crash']) and (impl['crash'] is not None or mc['errors'] == impl['errors'])
        else:
            print('Lean driver:', ans)
    judge(ctx, case, impl, orc, agrees)
    for f in ctx.failures:
        print('FAILS ON THE REAL CODE:', f['what'])
    for k, v in ctx.known_hits.items():
        print('matches listed finding', k)
    return 1 if ctx.failures else 0
