"""
C17 — names survive prefix mapping: decoded names resolve back to the same QNames.

Correspondence (I <-> M).  Generated documents over a pool of 3 prefixes + the default namespace and 3 URIs
(redeclared, shadowed, several prefixes per URI, default set / unset, depth <= 6) are decoded by the real
code with a *tracing subclass* of the converter: every `set_xmlns_context` call (object, level, maps after
the call, returned xmlns), the child keys handed to the converter and the mapped attribute keys are
recorded and compared, call by call, with the Lean model of NamespaceMapper driven by the validators' call
pattern (XsVerif/Model/NsMapper.lean, `decodeDoc`).  The mapper is also driven directly with seeded
operation scripts (`__setitem__`, `__delitem__`, `set_xmlns_context` with arbitrary levels, `map_qname`,
`unmap_qname` with xmlns overrides / name tables) against the model, op for op.

Deepening round.  The model also builds the decoded DATA TREE (`decodeT`: keys, reported xmlns, attribute keys,
pruning of childless items by the default converter) which is compared with the data the real converters
return, and ports the encoders' call pattern (`encodeDoc`/`encVisit`): the real `encode()` is run with the
tracing converter and its `set_xmlns_context` calls and the names of the produced XML tree are compared with
the model.  All converters shipped in xmlschema/converters plus DataElementConverter are driven (those that
report no xmlns entries are tied at trace level and judged against the document's own in-scope
declarations), ElementTree and lxml sources, documents with wildcard-matched (undeclared) element and
attribute names, `process_namespaces` / `strip_namespaces` switches in the operation scripts.

Property evaluation on the real code (independent of Lean).  The decoded data is read by an independent
XML-Namespaces resolver (unprefixed element keys take the reported default namespace, unprefixed attribute
keys never do) using only the declarations that the data reports for the item and its ancestors; the
resulting tree of expanded names must equal the document's.  `encode()` of that data must produce the
expanded names the data denotes.
"""
from __future__ import annotations

import json
from typing import Any, Optional

from harness.core import Ctx, Driver
from harness import lib_nsdoc as L

PROPS = 'XsVerif.Props.C17'
AUDIT = 'XsVerif.Audit.C17'
LEAN_TARGETS = ['XsVerif.Props.C17', 'drv_c17']
LEANCHECK = ['XsVerif.Model.NsMapper', 'XsVerif.Lemmas.NsMapper', 'XsVerif.Lemmas.NsStack', 'XsVerif.Lemmas.NsSpec', 'XsVerif.Lemmas.NsInv',
             'XsVerif.Lemmas.NsCollapse', 'XsVerif.Lemmas.NsEncode', 'XsVerif.Lemmas.NsEncodeG', 'XsVerif.Lemmas.NsDenote',
             'XsVerif.Props.C17']
RULE = ('a case is (document, user namespace map, xmlns_processing mode, converter, parser) or one mapper operation '
        'script; non-trivial = the document redeclares a prefix in an inner scope, binds two prefixes to one URI, '
        'or sets/unsets a default namespace below the root (documents), resp. the script contains a rebind of a '
        'bound prefix or a context pop (scripts); distinct by canonical JSON of the case')
TRUSTED = ['the XML parser reports xmlns declarations in attribute order (resources/xml_loader.py start-ns events); '
           'the harness reads them back from the resource, so a difference shows up as a model/implementation mismatch',
           'rendering of names ({uri}local, prefix:local) is done by the driver; local parts are NCNames',
           'object identity of elements is modelled by their document position']
ASSUMPTIONS = ['documents are namespace-well-formed (every used name has a binding in scope) — guaranteed by the '
               'generator and required by the XML parser',
               'prefixes within one element are distinct (XML well-formedness); hypothesis `NodupKeys` of the theorems',
               'schema family: elements a, b in four namespaces, one recursive type, global attributes {ui}x and a '
               'local attribute y, a lax element wildcard for namespace u4 (undeclared elements typed xs:anyType) and '
               'a lax attribute wildcard (undeclared attribute names, qualified or not)',
               'encode: the initial map of the encoder (user map + declarations get_namespaces reads from the data) is '
               'taken from the real converter as an input of the model (its merge step is tied separately: merges)']

MODES = ['stacked', 'collapsed', 'root-only']


def converters():
    """name -> (class, view of decoded items or None, preserve_root, prune)
    view None: the converter reports no xmlns entries (loss_xmlns): tied at trace level, judged against the
    document's own declarations.  prune: the model's `keptItem` rule (None: data tree not compared)."""
    import xmlschema
    from xmlschema.dataobjects import DataElementConverter
    return {
        'default': (xmlschema.XMLSchemaConverter, L.view_default, True, True),
        'unordered': (xmlschema.UnorderedConverter, L.view_default, True, True),
        'badgerfish': (xmlschema.BadgerFishConverter, L.view_badgerfish, False, False),
        'jsonml': (xmlschema.JsonMLConverter, L.view_jsonml, False, False),
        'gdata': (xmlschema.GDataConverter, L.view_gdata, False, False),
        'dataelement': (DataElementConverter, L.view_dataelement, False, None),
        'abdera': (xmlschema.AbderaConverter, None, False, None),
        'parker': (xmlschema.ParkerConverter, None, True, None),
        'columnar': (xmlschema.ColumnarConverter, None, False, None),
    }


ENCODABLE = ('default', 'unordered', 'badgerfish', 'jsonml')


# ------------------------------------------------------------------------------------------------
# which repointing rule does the tree under check implement?  (witness of finding C17-F2)
F2_WITNESS = {'ns': [['b', 'u']],
              'ops': [{'k': 'ctx', 'obj': 1, 'level': 1, 'decl': [['p0', 'u'], ['k1', 'u']]},
                      {'k': 'ctx', 'obj': 2, 'level': 2, 'decl': [['k1', 'x'], ['p0', 'y']]},
                      {'k': 'map', 'q': ['u', 'e']}]}
F2_XML = '<a xmlns:b="u1"><a xmlns:p="u1" xmlns:k="u1"><a xmlns:k="u2" xmlns:p="u3"><b:a b:x="v"/></a></a></a>'
F5_WITNESS = {'ns': [['p', 'u1'], ['q', 'u1']], 'ops': [{'k': 'set', 'p': 'p', 'u': 'u2'}, {'k': 'map', 'q': ['u1', 'e']}]}


class ScriptMapper:
    """A real NamespaceMapper whose xmlns getter returns the declarations attached to script objects."""

    def __init__(self, ns: list, mode: str, cfg: Optional[dict] = None):
        from xmlschema import XMLSchemaConverter

        class M(XMLSchemaConverter):      # a NamespaceMapper with map_attributes
            __slots__ = ()

            def get_xmlns_from_data(self, obj):
                return getattr(obj, 'decl', None) or None

        cfg = cfg or {}
        self.m = M(dict(ns), xmlns_processing=mode, source=None,
                   process_namespaces=cfg.get('process', True), strip_namespaces=cfg.get('strip', False))
        self.objs: dict = {}

    def obj(self, oid: int, decl: list):
        o = self.objs.get(oid)
        if o is None:
            o = self.objs[oid] = type('Obj', (), {})()
        o.decl = [tuple(d) for d in decl]
        return o

    def state(self) -> dict:
        ids = {id(o): k for k, o in self.objs.items()}
        return {'ns': [[k, v] for k, v in self.m.namespaces.items()],
                'rev': [[k, (v[:-1] if v else v)] for k, v in self.m._reverse.items()],
                'stack': [[ids.get(id(c.obj)), c.level] for c in reversed(self.m._xmlns_contexts)]}

    def step(self, op: dict) -> Any:
        m = self.m
        k = op['k']
        if k == 'ctx':
            before = list(m._xmlns_contexts)
            cur = dict(m.namespaces)
            ret = m.set_xmlns_context(self.obj(op['obj'], op['decl']), op['level'])
            j = 0
            while j < len(before) and j < len(m._xmlns_contexts) and before[j] is m._xmlns_contexts[j]:
                j += 1
            # namespaces in force after the pop phase (saved maps of the deepest popped context)
            self.after_pop = dict(before[j].namespaces) if j < len(before) else cur
            return None if ret is None else [list(x) for x in ret]
        if k == 'set':
            m[op['p']] = op['u']
            return None
        if k == 'del':
            try:
                del m[op['p']]
            except KeyError:
                return 'KeyError'
            return None
        if k == 'map':
            return m.map_qname(L.qn(*op['q']))
        if k == 'mapattr':
            return list(m.map_attributes([(L.qn(*op['q']), 'v')]))[0][0][1:]
        if k == 'unmap':
            n = op['n']
            s = n['l'] if n['t'] == 'loc' else (f"{n['p']}:{n['l']}" if n['t'] == 'pre' else '{%s}%s' % (n['u'], n['l']))
            table = [s] if op['tab'] else None
            return m.unmap_qname(s, table, [tuple(x) for x in op['xmlns']] or None)
        raise ValueError(k)


def run_script(ns: list, mode: str, ops: list, cfg: Optional[dict] = None) -> dict:
    sm = ScriptMapper(ns, mode, cfg)
    init = sm.state()
    steps = []
    for op in ops:
        sm.after_pop = None
        ret = sm.step(op)
        st = sm.state()
        st['ret'] = ret
        if sm.after_pop is not None:
            st['after_pop'] = sm.after_pop
        steps.append(st)
    return {'init': init, 'steps': steps}


def detect_variant() -> str:
    r = run_script(F2_WITNESS['ns'], 'stacked', F2_WITNESS['ops'])
    return 'pinned' if r['steps'][-1]['ret'] != 'b:e' else 'repaired'


def setitem_stale() -> bool:
    r = run_script(F5_WITNESS['ns'], 'none', F5_WITNESS['ops'])
    return r['steps'][-1]['ret'] != 'q:e'


F7_WITNESS = {'ns': [['', 'u1'], ['p', 'u1']], 'ops': [{'k': 'mapattr', 'q': ['u1', 'x']}]}


def detect_attr_rule() -> str:
    """'current' (map_attributes = map_qname, C17-F7) or 'repaired' (notes/fixes/C17-attribute-default-prefix.patch)"""
    r = run_script(F7_WITNESS['ns'], 'none', F7_WITNESS['ops'])
    return 'current' if r['steps'][-1]['ret'] == 'x' else 'repaired'


ARULE = 'current'
F10_ON = True


def detect_f10() -> bool:
    """does the tree re-apply the parent's default namespace to a wildcard-matched child name in no namespace
    (C17-F10, groups.py raw_encode)?  witness of the Lean theorem encoder_f10_counterexample"""
    sch = L.schema()
    d = sch.decode('<k:b xmlns="u4" xmlns:k="u2"><w><a xmlns=""/></w></k:b>', validation='lax', preserve_root=True)[0]
    e = sch.encode(d, validation='lax', preserve_root=True, path='{u2}b')[0]
    return [x.tag for x in e.iter()][-1] != 'a'


# ------------------------------------------------------------------------------------------------
# known findings (exact, symptom + cause; see notes/findings/C17.json)
def _chain(doc: dict, nid: int) -> Optional[list]:
    if doc['id'] == nid:
        return [doc]
    for c in doc['ch']:
        r = _chain(c, nid)
        if r is not None:
            return [doc] + r
    return None


def _doc_scopes(chain: list) -> list:
    """in-scope declarations of the document itself *before* each element of the chain"""
    out, s = [], {}
    for n in chain:
        out.append(dict(s))
        for p, u in n['decl']:
            s[p] = u
    return out


def known_match(case: dict, detail: dict) -> Optional[str]:
    """Returns the id of the listed finding that explains this failing DECODE observation, else None.
    Only C17-F4 is matched here (C17-F2/F3/F5/F6/F7/F11 are fixed: never matched).  Encode differences are not
    matched by rules at all: they are explained by the model with the mechanisms of C17-F8/F9/F10 behind flags
    (`judge_enc`)."""
    if detail.get('kind') != 'element' or detail.get('phase') != 'decode':
        return None
    mode = case.get('mode')
    exp_ns, key = detail['expected'][0], detail['key']
    unprefixed = key[:1] != '{' and ':' not in key
    chain = _chain(case['doc'], detail['node']) or []
    if not exp_ns and unprefixed and detail.get('reported_default'):
        # C17-F4: a name in no namespace emitted bare while the data reports a non-empty default namespace
        own_default = any(p == '' for n in chain for p, _ in n['decl'])
        if mode in ('collapsed', 'root-only') or (not own_default and dict(case.get('user') or []).get('')):
            return 'C17-F4'
    return None


# ------------------------------------------------------------------------------------------------
def nontrivial_doc(doc: dict) -> bool:
    def walk(n, scope, depth):
        s = dict(scope)
        hit = False
        for p, u in n['decl']:
            if depth and (p in s and s[p] != u or p == ''):
                hit = True
            if u and u in [v for k, v in s.items() if k != p]:
                hit = True
            s[p] = u
        return hit or any(walk(c, s, depth + 1) for c in n['ch'])
    return walk(doc, {}, 0)


def gen_user(rng) -> list:
    r = rng.random()
    if r < 0.55:
        return []
    n = rng.choice([1, 1, 2, 3])
    out: dict = {}
    for _ in range(n):
        p = rng.choice(L.PREFIXES + ['z', 'p0', ''] if rng.random() < 0.85 else [''])
        out[p] = rng.choice(L.URIS + ([] if p == '' else ['uX']))
    return [[k, v] for k, v in out.items()]


def model_calls(doc: dict, obs: dict) -> list:
    """linearise the model's observations into the sequence of set_xmlns_context calls"""
    out = []

    def walk(n):
        o = obs[n['id']]
        out.append({'obj': n['id'], 'level': o['level'], 'ns': o['nsK'], 'rev': o['revK'], 'when': 'enter'})
        for c in n['ch']:
            walk(c)
        out.append({'obj': n['id'], 'level': o['level'], 'ns': o['nsA'], 'rev': o['revA'], 'ret': o['ret'],
                    'when': 'exit'})
    walk(doc)
    return out


def decode_real(doc: dict, xml: str, user: list, mode: str, conv: str, lx: bool = False):
    import xmlschema
    base, view, proot, _ = converters()[conv]
    if lx:
        import lxml.etree as LE
        res = xmlschema.XMLResource(LE.fromstring(xml.encode()))
    else:
        res = xmlschema.XMLResource(xml)
    ids = {id(e): i for i, e in enumerate(res.root.iter())}
    L.reset_trace(ids)

    def hook(data, xsd_element, xsd_type):
        L.TRACE['elems'][L.TRACE['last']] = [n for n, _, _ in (data.content or []) if isinstance(n, str)]
        return data
    kw: dict = {'converter': L.traced(base), 'validation': 'lax', 'element_hook': hook, 'xmlns_processing': mode}
    if proot:
        kw['preserve_root'] = True
    if user:
        kw['namespaces'] = dict(user)
    data, errors = L.schema().decode(res, **kw)
    def norm(k):            # GData writes prefixed names with '$'
        return k if conv != 'gdata' or k[:1] == '{' else k.replace('$', ':')
    trace = {'calls': L.TRACE['calls'], 'elems': {i: [norm(k) for k in v] for i, v in L.TRACE['elems'].items()},
             'attrs': {i: [norm(k) for k in v] for i, v in L.TRACE['attrs'].items()},
             'init': L.TRACE['init'],
             'xmlns': {ids[id(e)]: [list(x) for x in (res.get_xmlns(e) or [])] for e in res.root.iter()}}
    return data, errors, trace


def root_item(conv: str, data: Any):
    """(root key, root item) of decoded data"""
    if conv == 'jsonml':
        return data[0], data
    if conv == 'dataelement':
        return data.tag, data
    (k, v), = data.items()
    return (k if conv != 'gdata' or k[:1] == '{' else k.replace('$', ':')), v


def is_map(conv: str, item: Any) -> bool:
    return True if conv == 'jsonml' else isinstance(item, dict)


def canon_item_real(conv: str, view, key: str, item: Any) -> Any:
    m = is_map(conv, item)
    xmlns, attrs, ch = view(item) if m else ([], [], [])
    return [key, m, [list(x) for x in xmlns], sorted(attrs),
            sorted((canon_item_real(conv, view, k, it) for k, it in ch), key=repr)]


def canon_item_model(it: dict) -> Any:
    return [it['key'], it['map'], it['xmlns'], sorted(it['attrs']), sorted((canon_item_model(c) for c in it['ch']), key=repr)]


def build_item(conv: str, view, key: str, item: Any, counter: list, objids: dict, tab: list) -> dict:
    """the data as the encoder will walk it (data order), with identifiers for the mapping objects"""
    iid = counter[0]
    counter[0] += 1
    m = is_map(conv, item)
    xmlns, attrs, ch = view(item) if m else ([], [], [])
    if m:
        objids[id(item)] = iid
    loc = key.split('}')[-1].split(':')[-1]
    if loc != 'w':
        tab.append([iid, 'y'])           # declared elements a, b: the type declares the unqualified attribute y
    return {'id': iid, 'key': key, 'map': m, 'xmlns': [list(x) for x in xmlns], 'attrs': list(attrs),
            'ch': [build_item(conv, view, k, it, counter, objids, tab) for k, it in ch]}


def canon_from_obs(obs: list) -> Any:
    """nested canonical tree [tag, sorted attrs, sorted children] from the model's pre-order observations"""
    pos = [0]

    def rec(level):
        o = obs[pos[0]]
        pos[0] += 1
        ch = []
        while pos[0] < len(obs) and obs[pos[0]]['level'] == level + 1:
            ch.append(rec(level + 1))
        return [o['tag'], sorted(o['attrs']), sorted(ch, key=repr)]
    return rec(obs[0]['level']) if obs else None


def node_walk(ctx: Ctx, case: dict, doc: dict, conv: str, data: Any, trace: dict) -> list:
    """node-level reading of the data aligned with the document through the emitted keys;
    returns the list of failing observations"""
    view = converters()[conv][1]
    fails: list = []

    def check(n: dict, key: str, item: Any, scope: dict, path: str):
        xmlns, attrs, ch = view(item)
        s = dict(scope)
        for p, u in xmlns:
            s[p] = u
        rd = s.get('') or ''
        try:
            got = L.resolve(key, s, False)
        except L.Unresolved:
            got = None
        if got != L.qn(*n['tag']):
            fails.append({'phase': 'decode', 'kind': 'element', 'node': n['id'], 'path': path, 'key': key,
                          'denotes': got, 'expected': n['tag'], 'reported_default': rd, 'reported': sorted(s.items())})
        akeys = trace['attrs'].get(n['id'], [])
        if sorted(set(akeys)) != sorted(attrs) or len(akeys) != len(n['attrs']):
            fails.append({'phase': 'decode', 'kind': 'shape', 'node': n['id'], 'path': path,
                          'emitted': akeys, 'in_data': attrs})
        if len(akeys) == len(n['attrs']):
            for a, k in zip(n['attrs'], akeys):
                try:
                    g = L.resolve(k, s, True)
                except L.Unresolved:
                    g = None
                if g != L.qn(*a):
                    fails.append({'phase': 'decode', 'kind': 'attribute', 'node': n['id'], 'path': path, 'key': k,
                                  'denotes': g, 'expected': a, 'reported_default': rd, 'reported': sorted(s.items())})
        ckeys = trace['elems'].get(n['id'], []) if conv != 'dataelement' else [k for k, _ in ch]
        if len(ckeys) != len(n['ch']) or len(ch) != len(ckeys):
            fails.append({'phase': 'decode', 'kind': 'shape', 'node': n['id'], 'path': path,
                          'emitted': ckeys, 'in_data': [k for k, _ in ch]})
            return
        by_key: dict = {}
        for k, it in ch:
            by_key.setdefault(k, []).append(it)
        for c, k in zip(n['ch'], ckeys):
            lst = by_key.get(k)
            if not lst:
                fails.append({'phase': 'decode', 'kind': 'shape', 'node': c['id'], 'path': path, 'emitted': k,
                              'in_data': sorted(by_key)})
                return
            check(c, k, lst.pop(0), s, path + '/' + k)

    k, item = root_item(conv, data)
    check(doc, k, item, {}, '/' + k)
    return fails


def eval_trace(ctx: Ctx, case: dict, doc: dict, mode: str, trace: dict) -> None:
    """converters that report no xmlns entries: every key handed to the converter, resolved with the document's
    own in-scope declarations over the user map (stacked) resp. with the one final map (other modes), must
    denote the expanded name of its node"""
    user = dict(case.get('user') or [])
    final = dict(map(tuple, trace['calls'][-1]['ns'])) if trace['calls'] else {}
    # namespaces in force right after the first / last set_xmlns_context call of each element (stacked mode: the
    # data reports nothing, generated prefixes of a colliding user map are known to the mapper only)
    enter: dict = {}
    leave: dict = {}
    for c in trace['calls']:
        enter.setdefault(c['obj'], dict(map(tuple, c['ns'])))
        leave[c['obj']] = dict(map(tuple, c['ns']))

    def agree(doc_scope: dict, mapper_ns: dict) -> bool:
        # every binding of the document's own scope is a binding of the mapper's map (xmlns="" aside)
        return all(mapper_ns.get(p) == u for p, u in doc_scope.items() if u or p)

    def walk(n: dict, scope: dict):
        s = dict(scope)
        for p, u in n['decl']:
            s[p] = u
        if mode == 'stacked' and n['id'] in leave and not agree(s, leave[n['id']]):
            yield {'phase': 'decode', 'kind': 'scope', 'node': n['id'], 'document_scope': s, 'mapper': leave[n['id']], 'path': ''}
        rs = leave.get(n['id'], s) if mode == 'stacked' else final
        akeys = trace['attrs'].get(n['id'], [])
        if len(akeys) == len(n['attrs']):
            for a, k in zip(n['attrs'], akeys):
                try:
                    g = L.resolve(k, rs, True)
                except L.Unresolved:
                    g = None
                if g != L.qn(*a):
                    yield {'phase': 'decode', 'kind': 'attribute', 'node': n['id'], 'key': k, 'denotes': g,
                           'expected': a, 'reported_default': rs.get('') or '', 'path': ''}
        ckeys = trace['elems'].get(n['id'], [])
        if len(ckeys) == len(n['ch']):
            for c, k in zip(n['ch'], ckeys):
                cs = dict(s)
                for p, u in c['decl']:
                    cs[p] = u
                crs = enter.get(c['id'], cs) if mode == 'stacked' else final
                try:
                    g = L.resolve(k, crs, False)
                except L.Unresolved:
                    g = None
                if g != L.qn(*c['tag']):
                    yield {'phase': 'decode', 'kind': 'element', 'node': c['id'], 'key': k, 'denotes': g,
                           'expected': c['tag'], 'reported_default': crs.get('') or '', 'path': ''}
        elif n['ch']:
            yield {'phase': 'decode', 'kind': 'shape', 'node': n['id'], 'emitted': ckeys, 'path': ''}
        for c in n['ch']:
            yield from walk(c, s)

    for f in walk(doc, user):
        fid = known_match(case, f)
        if fid:
            ctx.known_hit(fid, case, f)
            ctx.count('known:' + fid)
        else:
            ctx.failure('a key handed to the converter, resolved with the declarations in scope of its node, does not '
                        'denote the expanded name of the node', case, f)
            return
    ctx.count('trace-level evaluation ok')


def eval_doc(ctx: Ctx, case: dict, doc: dict, conv: str, mode: str, data: Any, errors: list, trace: dict) -> Optional[dict]:
    """the property itself on the real code; returns the material for the encode tie when encode restored the names"""
    import xmlschema
    base, view, proot, _ = converters()[conv]
    want = L.canon_doc(doc)
    if errors:
        ctx.failure('valid generated document reported invalid while decoding', case,
                    {'errors': [str(e.reason) for e in errors[:3]]})
        return None
    if view is None or (conv == 'gdata' and any(n['tag'][0] == L.WILD for n in L.doc_nodes(doc))):
        # GData stores an xs:anyType child without a list (a second one overrides it): lossy, judged at trace level
        eval_trace(ctx, case, doc, mode, trace)
        return None
    # --- decode: data read with the declarations it reports -----------------------------------
    unresolved: list = []
    k, item = root_item(conv, data)
    got = L.read_item(view, k, item, {}, unresolved, '')
    decode_ok = got == want and not unresolved
    if not decode_ok:
        fails = node_walk(ctx, case, doc, conv, data, trace)
        if not fails:
            fails = [{'phase': 'decode', 'kind': 'tree', 'diff': L.first_diff(want, got)}]
        for f in fails:
            fid = known_match(case, f)
            if fid:
                ctx.known_hit(fid, case, f)
                ctx.count('known:' + fid)
            else:
                ctx.failure('a decoded key, resolved with the declarations the data reports, does not denote the '
                            'expanded name of its XML node', case, f)
                return None
    # --- encode: restores the names the data denotes ----------------------------------------------
    if conv not in ENCODABLE:
        ctx.count('encode not driven for this converter')
        return None
    wild_elems = any(n['tag'][0] == L.WILD for n in L.doc_nodes(doc))
    if conv == 'badgerfish' and wild_elems:
        # xs:anyType children are stored without a list: single-child dicts are taken for wrappers when encoding
        # (badgerfish.py:104-113): data shape, not naming — counted, not judged
        ctx.count('encode not evaluable (badgerfish, wildcard-matched elements: wrapper ambiguity)')
        return None
    counter, objids, tab = [0], {}, []
    enc_item = build_item(conv, view, k, item, counter, objids, tab)
    L.reset_trace(objids)
    kw: dict = {'converter': L.traced(base), 'validation': 'lax', 'xmlns_processing': mode, 'path': L.qn(*doc['tag'])}
    if proot:
        kw['preserve_root'] = True
    if case.get('user'):
        kw['namespaces'] = dict(case['user'])
    try:
        elem, eerrors = L.schema().encode(data, **kw)
    except Exception as e:  # noqa
        elem, eerrors = None, [e]
    etrace = {'calls': L.TRACE['calls'], 'init': L.TRACE['init']}
    if elem is None and conv == 'badgerfish' and any("'list' object has no attribute 'items'" in str(e) for e in eerrors):
        # BadgerFishConverter.element_encode takes a dict with a single child key for the element's own wrapper
        # (badgerfish.py:104-113) and crashes; not a naming question — counted, not judged
        ctx.count('encode not evaluable (badgerfish single-child wrapper ambiguity)')
        return None
    if etrace['init'] is None:
        ctx.failure('encode did not create the converter', case, {'phase': 'encode', 'errors': [str(e)[:200] for e in eerrors[:2]]})
        return None
    return {'item': enc_item, 'tab': tab, 'etrace': etrace, 'enc': None if elem is None else L.canon_elem(elem), 'got': got,
            'decode_ok': decode_ok, 'errors': [str(getattr(e, 'reason', None) or e)[:200] for e in eerrors[:3]],
            'wild_elems': wild_elems,
            'expected_root': L.qn(*doc['tag'])}


# the mechanisms of the listed encode findings: model runs (flags of EncFlags, initial map)
ENC_RUNS = [('cur', {'f9': True, 'f10': True, 'init': 'real'}),
            ('no9', {'f9': False, 'f10': True, 'init': 'real'}),       # C17-F9 repaired
            ('no10', {'f9': True, 'f10': False, 'init': 'real'}),      # C17-F10 repaired
            ('no8', {'f9': True, 'f10': True, 'init': 'clean'}),       # C17-F8 repaired
            ('off', {'f9': False, 'f10': False, 'init': 'clean'})]     # all three repaired
ENC_FINDING = {'no9': 'C17-F9', 'no10': 'C17-F10', 'no8': 'C17-F8'}


def enc_request(case: dict, variant: str, tie: dict) -> dict:
    conv = case['converter']
    return {'op': 'encg', 'variant': variant, 'mode': case['mode'], 'item': tie['item'],
            'declared': [[ns, loc] for ns in [''] + L.URIS for loc in L.LOCALS], 'unq': ['y'],
            'ns': tie['etrace']['init']['ns'], 'rev': tie['etrace']['init']['rev'], 'user': case.get('user') or [],
            'runs': [dict(f, ownTag=(conv == 'jsonml'), f10=(f['f10'] and F10_ON)) for _, f in ENC_RUNS]}


def root_lookup_finding(case: dict, tie: dict) -> Optional[str]:
    """The element to encode is looked up by name with the converter's INITIAL namespaces (schemas.py iter_encode:
    find(path, namespaces) / root key): when they bind the default namespace to D, a root in no namespace is looked
    up as {D}root.  D from the user map: C17-F4; D leaked from a child of the root by get_namespaces: C17-F8."""
    if tie['expected_root'][:1] == '{':
        return None
    init_default = dict(map(tuple, tie['etrace']['init']['ns'])).get('')
    if not init_default:
        return None
    user_default = dict(map(tuple, case.get('user') or [])).get('')
    if user_default:
        return 'C17-F4' if init_default == user_default else None
    root_default = dict(map(tuple, tie['item']['xmlns'])).get('')
    return 'C17-F8' if init_default != root_default else None


def pred_tree(obs: list) -> Any:
    return canon_from_obs([o for o in obs if not o.get('dropped')])


def judge_enc(ctx: Ctx, case: dict, tie: dict, m: Optional[dict]) -> None:
    """Encode: tie of the real run with the model of the code as it is (`cur`), and judgement of the property
    (encoded names = names the data denotes).  A difference is a known finding exactly when the model with the
    mechanisms of the listed findings reproduces the real output, the model with all of them switched off yields
    the names the data denotes, and switching off the mechanism of that finding alone changes the prediction."""
    enc, got = tie['enc'], tie['got']
    if m is None:
        # no model available (Lean build failed): differences cannot be attributed
        if enc is not None and enc == got:
            ctx.count('encode ok')
        else:
            ctx.count('encode difference not attributable without the model')
        return
    ctx.traces += 1
    if 'err' in m:
        ctx.mismatch('driver error (encg)', case, None, m)
        return
    runs = {name: r for (name, _), r in zip(ENC_RUNS, m['runs'])}
    cur = runs['cur']['obs']
    preds = {name: pred_tree(r['obs']) for name, r in runs.items()}
    explained_by = [ENC_FINDING[n] for n in ('no8', 'no9', 'no10') if preds[n] != preds['cur']]
    if enc is None:
        # the library refused the data: explained when the model resolves the ROOT key to another name than the
        # element it is encoded for, and the root is right with the mechanisms off
        root_cur, root_off = cur[0]['tag'], runs['off']['obs'][0]['tag']
        udef = dict(case.get('user') or []).get('')
        if root_cur != tie['expected_root'] and root_off == tie['expected_root'] and \
                runs['no8']['obs'][0]['tag'] == tie['expected_root']:
            ctx.known_hit('C17-F8', case)
            ctx.count('known:C17-F8 (encode, root refused)')
        elif root_lookup_finding(case, tie) and root_cur in (tie['expected_root'], '{%s}%s' % (udef, tie['expected_root'])) \
                and any('data tag does not match XSD element name' in e or 'Unmatched tag' in e for e in tie['errors']):
            # the root of the document is in no namespace and the initial map binds the default namespace (user map:
            # C17-F4, leaked from a child: C17-F8): the element to encode is looked up as {D}root while the key
            # denotes the name in no namespace (or the converter reads the key into D) — the data is refused
            fid = root_lookup_finding(case, tie)
            ctx.known_hit(fid, case)
            ctx.count('known:' + fid + ' (encode, root refused)')
        elif not tie['decode_ok']:
            ctx.count('encode skipped after known decode finding')
        else:
            ctx.failure('decoded data cannot be encoded back', case, {'phase': 'encode', 'errors': tie['errors'],
                                                                       'model_root': root_cur})
        return
    # ---- tie: set_xmlns_context calls and produced names
    ctx.count('encode run compared')
    rcalls = []
    for c in tie['etrace']['calls']:
        # XsdAnyElement.raw_encode probes an undeclared item with element_encode before any_type.raw_encode encodes
        # it (wildcards.py:606): the second call for the same (object, level) must leave the maps as they are
        if rcalls and (rcalls[-1]['obj'], rcalls[-1]['level']) == (c['obj'], c['level']):
            if (rcalls[-1]['ns'], rcalls[-1]['rev']) != (c['ns'], c['rev']):
                ctx.mismatch('encode: repeated set_xmlns_context call changed the maps', case, c, rcalls[-1])
                return
            continue
        rcalls.append(c)
    fid = root_lookup_finding(case, tie)
    if fid and preds['cur'] != enc and preds['cur'] is not None:
        d0 = dict(map(tuple, tie['etrace']['init']['ns']))['']
        looked_up = '{%s}%s' % (d0, tie['expected_root'])
        if preds['cur'][0] == tie['expected_root'] and (
                enc == [looked_up] + preds['cur'][1:] or
                (case['converter'] == 'badgerfish' and enc == [looked_up, [], [preds['cur']]])):
            # BadgerFish does not refuse the data: the root key does not match the element that was looked up, so it
            # takes the whole wrapper for the content of that element (badgerfish.py:107-113): the tree the model
            # predicts appears as the only child of an element {D}root
            ctx.known_hit(fid, case)
            ctx.count('known:' + fid + ' (encode, root looked up in the default namespace)')
            return
    mcalls = [o for o in cur if _is_map_id(tie['item'], o['id'])]
    shape_issue = False
    if tie['wild_elems'] and preds['cur'] != enc:
        def lo(t):
            return [t[0].split('}')[-1].split(':')[-1], sorted({a.split('}')[-1].split(':')[-1] for a in t[1]}),
                    sorted((lo(c) for c in t[2]), key=repr)]
        dd = L.first_diff(lo(preds['cur']), lo(enc))
        shape_issue = dd is not None and dd.get('kind') == 'children'
    if shape_issue:
        # content of an xs:anyType element that the list/dict conventions cannot tell from simple content: children
        # are missing in the produced tree (shape, not naming) — counted, not judged, not compared
        ctx.count('encode not evaluable (xs:anyType content shape)')
        return
    if [(c['obj'], c['level']) for c in rcalls] != [(o['id'], o['level']) for o in mcalls]:
        ctx.mismatch('encode: order of set_xmlns_context calls', case,
                     [(c['obj'], c['level']) for c in rcalls], [(o['id'], o['level']) for o in mcalls])
    else:
        for i, (a, b) in enumerate(zip(rcalls, mcalls)):
            if (a['ns'], a['rev']) != (b['ns'], b['rev']):
                ctx.mismatch(f'encode: set_xmlns_context call #{i}: maps', case, [a['ns'], a['rev']], [b['ns'], b['rev']])
                break
    if preds['cur'] != enc:
        ctx.mismatch('encode: expanded names of the produced tree', case, enc, preds['cur'])
    # ---- the property
    if enc == got:
        ctx.count('encode ok')
        return
    detail = {'phase': 'encode', 'kind': 'tree', 'diff': L.first_diff(got, enc), 'explained_by': explained_by,
              'model_reproduces': preds['cur'] == enc, 'model_off_is_reader': preds['off'] == got}
    if preds['cur'] == enc and preds['off'] == got and explained_by:
        for fid in explained_by:
            ctx.known_hit(fid, case, detail)
            ctx.count('known:' + fid + ' (encode)')
        return
    if not tie['decode_ok'] and preds['cur'] == enc:
        # the names were already wrong in the data (listed decode finding): the encoder does what the model says
        ctx.count('encode differs after known decode finding')
        return
    ctx.failure('encoding the decoded data does not restore the expanded names', case, detail)


def compare_doc(ctx: Ctx, case: dict, doc: dict, trace: dict, m: dict, data: Any = None) -> None:
    ctx.traces += 1
    if 'err' in m:
        ctx.mismatch('driver error', case, None, m)
        return
    if m.get('fuel'):
        ctx.count('model fuel exhausted')
        return
    conv = case['converter']
    obs = {o['id']: o for o in m['obs']}
    mc = model_calls(doc, obs)
    rc = trace['calls']
    if len(mc) != len(rc):
        ctx.mismatch('number/order of set_xmlns_context calls', case,
                     [(c['obj'], c['level']) for c in rc], [(c['obj'], c['level']) for c in mc])
        return
    for i, (a, b) in enumerate(zip(rc, mc)):
        for f in ('obj', 'level', 'ns', 'rev'):
            if a[f] != b[f]:
                ctx.mismatch(f'set_xmlns_context call #{i} ({b["when"]}): {f}', case, a[f], b[f])
                return
        if b['when'] == 'exit' and a['ret'] != b['ret']:
            ctx.mismatch(f'set_xmlns_context call #{i}: returned xmlns', case, a['ret'], b['ret'])
            return
    if rc and rc[-1]['stack'] != m['final']['stack']:
        ctx.mismatch('final context stack', case, rc[-1]['stack'], m['final']['stack'])
    akey = 'attrsR' if ARULE == 'repaired' else 'attrs'
    has_attr_trace = conv not in ('parker', 'columnar')     # these do not call map_attributes
    for n in L.doc_nodes(doc):
        o = obs[n['id']]
        if has_attr_trace and trace['attrs'].get(n['id'], []) != o[akey]:
            ctx.mismatch('mapped attribute keys', case, trace['attrs'].get(n['id'], []), o[akey])
            return
        want = [obs[c['id']]['key'] for c in n['ch']]
        if trace['elems'].get(n['id'], []) != want:
            ctx.mismatch('mapped child keys', case, trace['elems'].get(n['id'], []), want)
            return
    # the data tree itself (converters that report xmlns entries)
    base, view, proot, prune = converters()[conv]
    if prune is not None and data is not None and view is not None and \
            not (conv == 'gdata' and any(n['tag'][0] == L.WILD for n in L.doc_nodes(doc))):
        ctx.traces += 1
        ctx.count('data tree compared')
        k, item = root_item(conv, data)
        real = canon_item_real(conv, view, k, item)
        model = canon_item_model(m['item'])
        if real != model:
            ctx.mismatch('decoded data tree (keys, reported xmlns, attribute keys, pruning)', case, real, model)


def order_like_real(item: dict, calls: list) -> None:
    """The validators hand the children of an element to the converter in the order of the content model, not of
    the data (groups.py raw_encode): the model is driven with the children in the order of the real run."""
    first: dict = {}
    for i, c in enumerate(calls):
        first.setdefault(c['obj'], i)

    def sub_first(it):
        return min([first.get(it['id'], 10 ** 9)] + [sub_first(c) for c in it['ch']])

    def rec(it):
        it['ch'].sort(key=sub_first)
        for c in it['ch']:
            rec(c)
    rec(item)


def _is_map_id(item: dict, iid: int) -> bool:
    if item['id'] == iid:
        return item['map']
    return any(_is_map_id(c, iid) for c in item['ch'])


DIRECTED = [
    # (xml-ish doc builders are avoided: documents as node dicts) — directed shapes around the defects found
    '<a xmlns:b="u1"><a xmlns:p="u1" xmlns:k="u1"><a xmlns:k="u2" xmlns:p="u3"><b:a b:x="v"/></a></a></a>',
    '<p:a xmlns:p="u1" xmlns:q="u1"><q:b xmlns:p="u2" p:x="v"><p:a xmlns="u3"><b/></p:a></q:b><p:b/></p:a>',
    '<a xmlns:p="u1"><p:b/><p:b xmlns:p="u2"/><p:b xmlns:p="u2"><p:a/></p:b></a>',
    '<a xmlns="u1"><a xmlns=""><b/></a></a>',
    '<a xmlns="u1" xmlns:p="u1" p:x="v"/>',
    '<p:a xmlns:p="u1" xmlns="u1" p:x="v"><b xmlns="u2" y="v"/></p:a>',
    '<a><b xmlns="u1"><b xmlns="u2"><b xmlns=""/></b><a/></b><b/></a>',
    '<q:a xmlns:q="u1"><q:a xmlns:q="u2"><q:a xmlns:q="u3"><q:a xmlns:q="u1"/></q:a><q:b/></q:a><q:b/></q:a>',
]


def parse_doc(xml: str) -> dict:
    """node dict of a directed XML text (declarations in attribute order)"""
    import re
    import xml.etree.ElementTree as ET
    res_decl: list = []
    for m in re.finditer(r'<([\w:]+)((?:\s+[\w:]+="[^"]*")*)\s*/?>', xml):
        res_decl.append([[a[6:] if a.startswith('xmlns:') else '', v] for a, v in
                         re.findall(r'([\w:]+)="([^"]*)"', m.group(2)) if a == 'xmlns' or a.startswith('xmlns:')])
    root = ET.fromstring(xml)
    it = iter(res_decl)

    def split(t):
        return [t[1:].split('}')[0], t.split('}')[1]] if t[:1] == '{' else ['', t]

    def conv(e):
        return {'tag': split(e.tag), 'attrs': [split(a) for a in e.attrib], 'decl': next(it),
                'ch': [conv(c) for c in e], 'pfx': None, 'apfx': []}
    return conv(root)


def documents(ctx: Ctx, drv: Optional[Driver], variant: str) -> None:
    rng = ctx.rng
    n_docs = ctx.pick(900, 9000)
    convs = list(converters())
    reqs: list = []
    pend: list = []
    ereqs: list = []
    epend: list = []
    docs: list = []
    try:
        import lxml.etree  # noqa
        have_lxml = True
    except Exception:  # noqa
        have_lxml = False
    ctx.extra['lxml'] = have_lxml
    for x in DIRECTED:
        d = parse_doc(x)
        docs.append((d, x, 'directed'))
    for i in range(n_docs):
        wild = 0.35 if rng.random() < 0.4 else 0.0
        d = L.gen_doc(rng, max_depth=rng.choice([2, 3, 4, 5, 6]), max_nodes=rng.choice([6, 10, 14, 20]), wild=wild)
        docs.append((d, L.doc_xml(d), 'wild' if wild else 'generated'))
    for i, (doc, xml, origin) in enumerate(docs):
        L.assign_ids(doc)
        nt = nontrivial_doc(doc)
        for mode in MODES:
            users = [[]] if origin == 'directed' else [gen_user(rng)]
            if origin == 'directed':
                users.append([['', 'u1']])
            for user in users:
                if origin == 'directed':
                    conv_list = convs
                elif ctx.quick():
                    conv_list = [convs[(i + MODES.index(mode)) % len(convs)]]
                else:
                    conv_list = [convs[(i + MODES.index(mode) + j) % len(convs)] for j in range(4)]
                for conv in conv_list:
                    lx = have_lxml and (origin == 'directed' or rng.random() < 0.25)
                    for use_lx in ([False, True] if (lx and origin == 'directed') else [lx]):
                        one_document(ctx, drv, variant, doc, xml, origin, nt, mode, user, conv, use_lx,
                                     reqs, pend, ereqs, epend)
        ctx.count(f'doc nodes:{min(len(list(L.doc_nodes(doc))) // 5 * 5, 20)}+')
    if drv is not None and reqs:
        for (case, doc, trace, data), m in zip(pend, drv.query(reqs)):
            compare_doc(ctx, case, doc, trace, m, data)
    if drv is not None and ereqs:
        for (case, tie), m in zip(epend, drv.query(ereqs)):
            if m is not None and 'runs' in m or 'err' in (m or {}):
                judge_enc(ctx, case, tie, m)
            else:
                compare_enc_repaired(ctx, case, tie, m)
    elif drv is None:
        for case, tie in epend:
            judge_enc(ctx, case, tie, None)


def one_document(ctx: Ctx, drv: Optional[Driver], variant: str, doc: dict, xml: str, origin: str, nt: bool, mode: str,
                 user: list, conv: str, lx: bool, reqs: list, pend: list, ereqs: list, epend: list) -> None:
    plain = L.driver_tree(doc)
    case = {'xml': xml, 'doc': plain, 'user': user, 'mode': mode, 'converter': conv, 'parser': 'lxml' if lx else 'etree'}
    try:
        data, errors, trace = decode_real(doc, xml, user, mode, conv, lx)
    except Exception as e:  # noqa
        if conv in ('columnar', 'abdera', 'parker') and isinstance(e, (ValueError, TypeError, KeyError)):
            ctx.count(f'decode not evaluable ({conv}: {type(e).__name__})')
            return
        ctx.failure('decode raised', case, {'exception': repr(e)[:300]})
        return
    # parsing glue: declarations as the resource reports them vs the generator's intent
    mdoc = doc
    differs = any(trace['xmlns'].get(n['id'], []) != n['decl'] for n in L.doc_nodes(doc))
    if differs and lx:
        # lxml reports the declarations of an element from its nsmap: own order, and a redundant redeclaration
        # (same prefix, same URI as in the parent) is not reported at all: the model is driven with what the
        # resource reports (the reported declarations must still yield the document's in-scope bindings)
        import copy
        ctx.count('lxml: reported declarations differ from the attribute text (order / redundant redeclarations)')
        mdoc = copy.deepcopy(doc)
        for n in L.doc_nodes(mdoc):
            n['decl'] = trace['xmlns'].get(n['id'], [])

        def same_scopes(a, b, sa, sb):
            sa, sb = dict(sa), dict(sb)
            sa.update(map(tuple, a['decl']))
            sb.update(map(tuple, b['decl']))
            return {k: v for k, v in sa.items() if v} == {k: v for k, v in sb.items() if v} and \
                all(same_scopes(x, y, sa, sb) for x, y in zip(a['ch'], b['ch']))
        if not same_scopes(doc, mdoc, {}, {}):
            ctx.mismatch('in-scope bindings from the declarations lxml reports', case,
                         [n['decl'] for n in L.doc_nodes(mdoc)], [n['decl'] for n in L.doc_nodes(doc)])
        plain = L.driver_tree(mdoc)
        case = dict(case, doc=plain)
    elif differs:
        ctx.mismatch('xmlns declarations reported by the resource', case,
                     [trace['xmlns'].get(n['id']) for n in L.doc_nodes(doc)], [n['decl'] for n in L.doc_nodes(doc)])
    ctx.case(case, nt, tag=f'{mode}/{conv}')
    ctx.count('parser:' + case['parser'])
    ctx.count('origin:' + origin)
    ctx.count('user map:' + ('none' if not user else 'default' if any(p == '' for p, _ in user) else 'prefixed'))
    tie = eval_doc(ctx, case, mdoc, conv, mode, data, errors, trace)
    if drv is not None:
        prune = converters()[conv][3]
        reqs.append({'op': 'doc', 'variant': variant, 'mode': mode, 'user': user, 'tree': plain,
                     'prune': bool(prune), 'arule': ARULE})
        pend.append((case, mdoc, trace, data if not errors else None))
        if tie is not None:
            if tie['enc'] is not None:
                order_like_real(tie['item'], tie['etrace']['calls'])
            ereqs.append(enc_request(case, variant, tie))
            epend.append((case, tie))
            if tie['enc'] is not None and tie['enc'] == tie['got'] and not tie['wild_elems']:
                # the repaired call pattern `encodeDoc` (theorem encoder_reads_data) on the runs that restore the names
                ereqs.append({'op': 'enc', 'variant': variant, 'mode': mode, 'item': tie['item'], 'tab': tie['tab'],
                              'ns': tie['etrace']['init']['ns'], 'rev': tie['etrace']['init']['rev']})
                epend.append((case, tie))
    elif tie is not None:
        epend.append((case, tie))


def compare_enc_repaired(ctx: Ctx, case: dict, tie: dict, m: dict) -> None:
    """`encodeDoc` (no mechanism of a listed finding) must give the names of the real run whenever that run
    restored the names the data denotes"""
    ctx.traces += 1
    ctx.count('encode run compared with the repaired model')
    if canon_from_obs(m.get('obs', [])) != tie['enc']:
        ctx.mismatch('encode: names by the repaired call pattern (encodeDoc)', case, tie['enc'], canon_from_obs(m.get('obs', [])))


# ------------------------------------------------------------------------------------------------
# mapper operation scripts
def gen_script(rng) -> dict:
    pool_p = L.PREFIXES + ['', 'default', 'p0', 'p9']
    pool_u = L.URIS + ['']
    ns: dict = {}
    for _ in range(rng.choice([0, 1, 2, 3, 4])):
        ns[rng.choice(pool_p)] = rng.choice(L.URIS)
    mode = rng.choice(['stacked', 'stacked', 'collapsed', 'root-only', 'none'])
    ops: list = []
    level = 0
    nobj = 0
    path: list = []          # objects on the current root->node path (disciplined walk)
    for _ in range(rng.choice([3, 6, 10, 16])):
        r = rng.random()
        if r < 0.45:
            decl: dict = {}
            for _ in range(rng.choice([0, 1, 1, 2, 3])):
                p = rng.choice(pool_p[:5])
                decl[p] = rng.choice(pool_u if p == '' else L.URIS)
            move = rng.random()
            if move < 0.5 or not path:          # descend to a new child
                nobj += 1
                path.append(nobj)
            elif move < 0.7:                    # revisit the current node (purge call)
                pass
            elif move < 0.9:                    # next sibling
                path.pop()
                nobj += 1
                path.append(nobj)
            else:                               # jump up
                del path[rng.randrange(len(path)):]
                nobj += 1
                path.append(nobj)
            lvl = len(path) - 1 if rng.random() < 0.9 else rng.randrange(0, 5)
            ops.append({'k': 'ctx', 'obj': path[-1], 'level': lvl, 'decl': [[k, v] for k, v in decl.items()]})
        elif r < 0.55:
            ops.append({'k': 'set', 'p': rng.choice(pool_p), 'u': rng.choice(L.URIS)})
        elif r < 0.62:
            ops.append({'k': 'del', 'p': rng.choice(pool_p)})
        elif r < 0.76:
            ops.append({'k': 'map', 'q': [rng.choice(pool_u + ['uX']), rng.choice(L.LOCALS)]})
        elif r < 0.82:
            ops.append({'k': 'mapattr', 'q': [rng.choice(pool_u + ['uX']), rng.choice(L.LOCALS)], 'arule': ARULE})
        else:
            t = rng.choice(['loc', 'pre', 'pre', 'braced'])
            n = {'t': t, 'l': rng.choice(L.LOCALS)}
            if t == 'pre':
                n['p'] = rng.choice(pool_p[:3] + ['zz', 'p0'])
            if t == 'braced':
                n['u'] = rng.choice(L.URIS)
            x = [[rng.choice(pool_p[:4]), rng.choice(pool_u)]] if rng.random() < 0.3 else []
            ops.append({'k': 'unmap', 'n': n, 'xmlns': x, 'tab': rng.random() < 0.3})
    c = rng.random()
    cfg = {'process': True, 'strip': False} if c < 0.85 else {'process': False, 'strip': False} if c < 0.93 else \
        {'process': True, 'strip': True}
    return {'ns': [[k, v] for k, v in ns.items()], 'mode': mode, 'ops': ops, 'cfg': cfg}


def eval_script(ctx: Ctx, case: dict, real: dict) -> None:
    """the property at mapper level: after every step, each URI that has a prefix maps to a prefixed name that
    resolves back to it through the namespaces in force (names survive prefix mapping)."""
    states = [real['init']] + real['steps']
    for i in range(1, len(states)):
        st = states[i]
        ns, rev = dict(map(tuple, st['ns'])), dict(map(tuple, st['rev']))
        for uri in set(ns.values()):
            if not uri or uri not in rev:
                continue
            if ns.get(rev[uri]) != uri:
                op = case['ops'][i - 1]
                prev = st.get('after_pop') or dict(map(tuple, states[i - 1]['ns']))
                cause = None
                if op['k'] == 'set' and prev.get(op['p']) == uri and op['u'] != uri:
                    cause = 'setitem-rebind'
                elif op['k'] == 'ctx' and case['mode'] == 'stacked':
                    lost = [p for p, u in op['decl'] if prev.get(p) == uri and u != uri]
                    if len(lost) >= 2 and rev[uri] in lost:
                        cause = 'ctx-double-rebind'
                # a stale record may also persist from an earlier step: attribute it to that step
                j = i - 1
                while cause is None and j >= 1:
                    pst = states[j]
                    pns, prv = dict(map(tuple, pst['ns'])), dict(map(tuple, pst['rev']))
                    if uri in prv and prv[uri] == rev[uri] and pns.get(prv[uri]) != uri:
                        opj = case['ops'][j - 1]
                        pp = pst.get('after_pop') or dict(map(tuple, states[j - 1]['ns']))
                        if opj['k'] == 'set' and pp.get(opj['p']) == uri and opj['u'] != uri:
                            cause = 'setitem-rebind'
                        elif opj['k'] == 'ctx' and case['mode'] == 'stacked':
                            lost = [p for p, u in opj['decl'] if pp.get(p) == uri and u != uri]
                            if len(lost) >= 2 and rev[uri] in lost:
                                cause = 'ctx-double-rebind'
                    j -= 1
                detail = {'kind': 'script', 'step': i - 1, 'uri': uri, 'recorded_prefix': rev[uri],
                          'bound_to': ns.get(rev[uri]), 'cause': cause, 'state': st}
                fid = known_match(case, detail)
                if fid:
                    ctx.known_hit(fid)
                    ctx.count('known:' + fid + ' (script)')
                else:
                    ctx.failure('a namespace that has a prefix is mapped to a prefix bound to another namespace',
                                case, detail)
                return


def scripts(ctx: Ctx, drv: Optional[Driver], variant: str) -> None:
    rng = ctx.rng
    n = ctx.pick(5000, 60000)
    reqs, pend = [], []
    setrep = not setitem_stale()
    fixed = [dict(F2_WITNESS, mode='stacked'), dict(F5_WITNESS, mode='none'), dict(F7_WITNESS, mode='none', ops=[dict(o, arule=ARULE) for o in F7_WITNESS['ops']])]
    for i in range(n + len(fixed)):
        case = fixed[i] if i < len(fixed) else gen_script(rng)
        try:
            real = run_script(case['ns'], case['mode'], case['ops'], case.get('cfg'))
        except Exception as e:  # noqa
            ctx.failure('mapper operation raised', case, {'kind': 'script', 'exception': repr(e)[:300]})
            continue
        nt = any(o['k'] in ('set', 'del') for o in case['ops']) or any(
            len(a['stack']) > len(b['stack']) for a, b in zip([real['init']] + real['steps'], real['steps']))
        ctx.case(case, nt, tag='script/' + case['mode'])
        for o in case['ops']:
            ctx.count('op:' + o['k'])
        cfg = case.get('cfg') or {}
        ctx.count('cfg:' + ('strip' if cfg.get('strip') else 'noprocess' if cfg.get('process') is False else 'namespaces'))
        eval_script(ctx, case, real)
        if drv is not None:
            ops = [dict(o, setrep=setrep) if o['k'] == 'set' else o for o in case['ops']]
            reqs.append({'op': 'ops', 'variant': variant, 'mode': case['mode'], 'ns': case['ns'], 'ops': ops,
                         'process': cfg.get('process', True), 'strip': cfg.get('strip', False)})
            pend.append((case, real))
    if drv is not None:
        for (case, real), m in zip(pend, drv.query(reqs)):
            ctx.traces += 1
            if 'err' in m:
                ctx.mismatch('driver error (script)', case, None, m)
                continue
            if any(s.get('fuel') for s in m['steps']):
                ctx.count('model fuel exhausted')
                continue
            if m['init'] != real['init']:
                ctx.mismatch('initial maps (reverse construction)', case, real['init'], m['init'])
                continue
            for k, (a, b) in enumerate(zip(real['steps'], m['steps'])):
                bb = {f: b[f] for f in ('ns', 'rev', 'stack', 'ret')}
                a = {f: a[f] for f in ('ns', 'rev', 'stack', 'ret')}
                if a != bb:
                    ctx.mismatch(f"operation {case['ops'][k]['k']} (step {k})", case, a, bb)
                    break


def merges(ctx: Ctx, drv: Optional[Driver]) -> None:
    """update_namespaces (initial collapsed merge of root declarations) against the model"""
    from xmlschema.utils.qnames import update_namespaces
    rng = ctx.rng
    reqs, pend = [], []
    pool_p = L.PREFIXES + ['', 'default', 'default0', 'p0', 'p9', 'p09']
    for _ in range(ctx.pick(2000, 20000)):
        ns: dict = {}
        for _ in range(rng.choice([0, 1, 2, 3, 5])):
            ns[rng.choice(pool_p)] = rng.choice(L.URIS)
        xm = [[rng.choice(pool_p), rng.choice(L.URIS + [''])] for _ in range(rng.choice([1, 2, 3, 4]))]
        root = rng.random() < 0.5
        real = dict(ns)
        update_namespaces(real, [tuple(x) for x in xm], root)
        case = {'ns': [[k, v] for k, v in ns.items()], 'xmlns': xm, 'root': root}
        ctx.case(case, len(real) > len(ns), tag='merge')
        # generated prefixes never overwrite: every previous binding is kept
        if any(real.get(k) != v for k, v in ns.items()):
            ctx.failure('update_namespaces changed an existing binding', case, {'kind': 'merge', 'result': real})
        reqs.append(dict(case, op='merge', variant='pinned', mode='collapsed'))
        pend.append((case, [[k, v] for k, v in real.items()]))
    if drv is not None:
        for (case, real), m in zip(pend, drv.query(reqs)):
            ctx.traces += 1
            if m.get('fuel'):
                ctx.count('model fuel exhausted')
            elif m.get('ns') != real:
                ctx.mismatch('update_namespaces', case, real, m.get('ns'))


def run(ctx: Ctx, driver_ok: bool) -> None:
    drv = Driver('drv_c17') if driver_ok else None
    global ARULE, F10_ON
    variant = detect_variant()
    ARULE = detect_attr_rule()
    F10_ON = detect_f10()
    ctx.extra['f10_mechanism_detected'] = F10_ON
    ctx.extra['repointing_variant_detected'] = variant
    ctx.extra['setitem_stale'] = setitem_stale()
    ctx.extra['attribute_rule_detected'] = ARULE
    ctx.known = ctx.known + load_local_findings()
    if variant != 'repaired' or setitem_stale():
        # C17-F2 / C17-F5 are fixed: a tree that shows the pre-fix behaviour is a violation
        w = F2_WITNESS if variant != 'repaired' else F5_WITNESS
        ctx.failure('the stale reverse-map defect fixed by b20c29d is back', dict(w, mode='stacked' if variant != 'repaired' else 'none'),
                    {'kind': 'script', 'variant': variant, 'setitem_stale': setitem_stale()})
    replay_counterexamples(ctx)
    documents(ctx, drv, variant)
    scripts(ctx, drv, variant)
    merges(ctx, drv)
    if ctx.failures:
        kinds: dict = {}
        for f in ctx.failures:
            key = f"{f['what'][:70]} | {f['case'].get('mode')} | {f['case'].get('converter')}"
            kinds[key] = kinds.get(key, 0) + 1
        ctx.extra['failure_kinds'] = kinds
        ctx.extra['failure_inputs'] = [{'xml': f['case'].get('xml'), 'user': f['case'].get('user'), 'mode': f['case'].get('mode'),
                                        'converter': f['case'].get('converter'), 'ops': f['case'].get('ops'),
                                        'detail': json.loads(json.dumps(f['detail'], default=str))} for f in ctx.failures[:6]]
    ctx.extra['explanation'] = ('documents: directed + seeded generated (40% with wildcard-matched element / attribute names), '
                                'every xmlns_processing mode that keeps namespaces, all converters of xmlschema/converters + '
                                'DataElementConverter, ElementTree and lxml sources; decoded data tree and element_encode runs '
                                'compared with the model; scripts: seeded operation sequences on a converter used as a bare '
                                'mapper (incl. process_namespaces / strip_namespaces, map_attributes); merges: update_namespaces')


def replay_counterexamples(ctx: Ctx) -> None:
    """the Lean `_counterexample` witnesses, replayed on the real code: they must (still) fail exactly as proved,
    or the corresponding finding is fixed and the witness must be gone"""
    import xmlschema
    sch = L.schema()
    # decoded_attrs_counterexample / roundtrip_attr_counterexample (C17-F7)
    d = sch.decode('<a xmlns="u1" xmlns:p="u1" p:x="v"/>', validation='lax', preserve_root=True)[0]
    ctx.extra['replayed:decoded_attrs_counterexample'] = sorted(k for k in d['a'] if not k.startswith('@xmlns'))
    if ARULE == 'current' and '@x' not in d['a']:
        ctx.mismatch('Lean witness decoded_attrs_counterexample does not replay', {'xml': 'F7'}, d, '@x')
    # flat_names_counterexample (C17-F4)
    d = sch.decode('<a xmlns="u1"><a xmlns=""><b/></a></a>', validation='lax', preserve_root=True,
                   xmlns_processing='collapsed')[0]
    ctx.extra['replayed:flat_names_counterexample'] = json.dumps(d)
    if d != {'a': {'@xmlns': 'u1', 'a': [{'b': [None]}]}}:
        ctx.mismatch('Lean witness flat_names_counterexample does not replay', {'xml': 'F4'}, d, None)
    # unmap_map_attr_counterexample / encode_decode_names_counterexample (C17-F9)
    d = sch.decode('<a xmlns="u1" z="v"/>', validation='lax', preserve_root=True)[0]
    e = sch.encode(d, validation='lax', preserve_root=True, path='{u1}a')[0]
    ctx.extra['replayed:encode_decode_names_counterexample'] = {'data': json.dumps(d), 'encoded_attrs': sorted(e.attrib)}
    if sorted(e.attrib) == ['{u1}z']:
        ctx.known_hit('C17-F9', {'xml': '<a xmlns="u1" z="v"/>', 'mode': 'stacked', 'converter': 'default'})
    elif sorted(e.attrib) != ['z']:
        ctx.mismatch('Lean witness encode_decode_names_counterexample does not replay', {'xml': 'F9'}, sorted(e.attrib), ['{u1}z'])
    # encoder_f10_counterexample (C17-F10): dict converters rename, JsonML refuses the child
    x10 = '<k:b xmlns="u4" xmlns:k="u2"><w><a xmlns=""/></w></k:b>'
    d = sch.decode(x10, validation='lax', preserve_root=True)[0]
    e = sch.encode(d, validation='lax', preserve_root=True, path='{u2}b')[0]
    tags = [x.tag for x in e.iter()]
    dj = sch.decode(x10, validation='lax', converter=xmlschema.JsonMLConverter)[0]
    ej = sch.encode(dj, validation='lax', converter=xmlschema.JsonMLConverter, path='{u2}b')[0]
    tagsj = [x.tag for x in ej.iter()]
    ctx.extra['replayed:encoder_f10_counterexample'] = {'default': tags, 'jsonml': tagsj}
    if tags == ['{u2}b', '{u4}w', '{u4}a'] and tagsj == ['{u2}b', '{u4}w']:
        ctx.known_hit('C17-F10', {'xml': x10, 'mode': 'stacked', 'converter': 'default+jsonml'})
    elif not (tags == ['{u2}b', '{u4}w', 'a'] and tagsj == tags and not F10_ON):
        ctx.mismatch('Lean witness encoder_f10_counterexample does not replay', {'xml': x10}, [tags, tagsj], None)
    # encoder_f8_counterexample (C17-F8)
    x8 = '<a><b xmlns="u1"/><b/></a>'
    dj = sch.decode(x8, validation='lax', converter=xmlschema.JsonMLConverter)[0]
    L.reset_trace({})
    try:
        ej, errs = sch.encode(dj, validation='lax', converter=L.traced(xmlschema.JsonMLConverter), path='a')
    except Exception as ex:  # noqa
        ej, errs = None, [ex]
    init = (L.TRACE['init'] or {}).get('ns')
    ctx.extra['replayed:encoder_f8_counterexample'] = {'initial_map': init, 'encoded': None if ej is None else [x.tag for x in ej.iter()]}
    if init == [['', 'u1']]:
        ctx.known_hit('C17-F8', {'xml': x8, 'mode': 'stacked', 'converter': 'jsonml'})
    elif init not in ([], None) or ej is None or [x.tag for x in ej.iter()] != ['a', '{u1}b', 'b']:
        ctx.mismatch('Lean witness encoder_f8_counterexample does not replay', {'xml': x8}, [init, errs and str(errs[0])[:100]], None)


def load_local_findings() -> list:
    from harness.core import VERIF
    p = VERIF / 'notes' / 'findings' / 'C17.json'
    if not p.exists():
        return []
    data = json.loads(p.read_text())
    return [e for e in data.get('findings', []) if e.get('property') == 'C17']


def search(ctx: Ctx) -> None:
    """a tie broke and nothing failed yet: evaluate the property on the thorough family (no driver)"""
    if ctx.quick():
        saved = ctx.tier
        ctx.tier = 'thorough'
        try:
            v = detect_variant()
            documents(ctx, None, v)
            scripts(ctx, None, v)
        finally:
            ctx.tier = saved


def replay(ctx: Ctx, obj: dict) -> int:
    print(json.dumps(obj, indent=1, default=str)[:6000])
    case = obj.get('input')
    if not case:
        return 0
    drv = None
    try:
        drv = Driver('drv_c17')
        drv.query([{'op': 'merge', 'variant': 'pinned', 'mode': 'collapsed', 'ns': [], 'xmlns': [], 'root': True}])
    except Exception:  # noqa
        drv = None
    global ARULE, F10_ON
    variant = detect_variant()
    ARULE = detect_attr_rule()
    F10_ON = detect_f10()
    ctx.known = ctx.known + load_local_findings()
    if 'xml' in case and 'doc' in case:
        doc = case['doc']
        doc = parse_doc(case['xml']) if 'pfx' not in doc else doc
        L.assign_ids(doc)
        conv = case['converter']
        data, errors, trace = decode_real(doc, case['xml'], case.get('user') or [], case['mode'], conv,
                                          case.get('parser') == 'lxml')
        print('REAL decoded data :', json.dumps(data, default=str))
        tie = eval_doc(ctx, case, doc, conv, case['mode'], data, errors, trace)
        if drv is not None:
            m = drv.query([{'op': 'doc', 'variant': variant, 'mode': case['mode'], 'user': case.get('user') or [],
                            'tree': L.driver_tree(doc), 'prune': bool(converters()[conv][3]), 'arule': ARULE}])[0]
            print('MODEL keys        :', [(o['id'], o['key'], o['attrs']) for o in m.get('obs', [])])
            compare_doc(ctx, case, doc, trace, m, data if not errors else None)
            if tie is not None:
                if tie['enc'] is not None:
                    order_like_real(tie['item'], tie['etrace']['calls'])
                print('REAL encoded      :', tie['enc'])
                print('DATA denotes      :', tie['got'])
                me = drv.query([enc_request(case, variant, tie)])[0]
                for (name, _), r in zip(ENC_RUNS, me.get('runs', [])):
                    print(f'MODEL encoded {name:5}:', pred_tree(r['obs']))
                judge_enc(ctx, case, tie, me)
        elif tie is not None:
            judge_enc(ctx, case, tie, None)
    elif 'ops' in case:
        real = run_script(case['ns'], case['mode'], case['ops'], case.get('cfg'))
        print('REAL  :', json.dumps(real['steps']))
        eval_script(ctx, case, real)
        if drv is not None:
            cfg = case.get('cfg') or {}
            m = drv.query([{'op': 'ops', 'variant': variant, 'mode': case['mode'], 'ns': case['ns'], 'ops': case['ops'],
                            'process': cfg.get('process', True), 'strip': cfg.get('strip', False)}])[0]
            print('MODEL :', json.dumps(m.get('steps')))
    for f in ctx.failures:
        print('FAILS ON THE REAL CODE:', f['what'], json.dumps(f['detail'], default=str)[:1500])
    for mm in ctx.mismatches:
        print('MODEL != IMPLEMENTATION:', mm['correspondence'], 'impl=', mm['impl'], 'model=', mm['model'])
    print('JUDGEMENT:', 'property violated' if ctx.failures else 'property holds on this input'
          + (f' (known findings re-confirmed: {ctx.known_hits})' if ctx.known_hits else ''))
    return 1 if ctx.failures else 0
