"""
C17 — names survive prefix mapping: decoded names resolve back to the same QNames.

Correspondence (I <-> M).  Generated documents over a pool of 3 prefixes + the default namespace and 3 URIs
(redeclared, shadowed, several prefixes per URI, default set / unset, depth <= 6) are decoded by the real
code with a *tracing subclass* of the converter: every `set_xmlns_context` call (object, level, maps after
the call, returned xmlns), the child keys handed to the converter and the mapped attribute keys are
recorded and compared, call by call, with the Lean model of NamespaceMapper driven by the validators' call
pattern (XsVerif/Model/NsMapper.lean, `decodeDoc`).  The mapper is also driven directly with seeded
operation scripts (`__setitem__`, `__delitem__`, `set_xmlns_context` with arbitrary levels, `map_qname`,
`unmap_qname` with xmlns overrides / name tables) against the model, op for op.

Deepening round.  The model also builds the decoded DATA TREE (`decodeT`: keys, reported xmlns, attribute keys,
pruning of childless items by the default converter) which is compared with the data the real converters
return, and ports the encoders' call pattern (`encodeDoc`/`encVisit`): the real `encode()` is run with the
tracing converter and its `set_xmlns_context` calls and the names of the produced XML tree are compared with
the model.  All converters shipped in xmlschema/converters plus DataElementConverter are driven (those that
report no xmlns entries are tied at trace level and judged against the document's own in-scope
declarations), ElementTree and lxml sources, documents with wildcard-matched (undeclared) element and
attribute names, `process_namespaces` / `strip_namespaces` switches in the operation scripts.

Property evaluation on the real code (independent of Lean).  The decoded data is read by an independent
XML-Namespaces resolver (unprefixed element keys take the reported default namespace, unprefixed attribute
keys never do) using only the declarations that the data reports for the item and its ancestors; the
resulting tree of expanded names must equal the document's.  `encode()` of that data must produce the
expanded names the data denotes.
"""
from __future__ import annotations

import json
from typing import Any, Optional

from harness.core import Ctx, Driver
from harness import lib_nsdoc as L

PROPS = 'XsVerif.Props.C17'
AUDIT = 'XsVerif.Audit.C17'
LEAN_TARGETS = ['XsVerif.Props.C17', 'drv_c17']
LEANCHECK = ['XsVerif.Model.NsMapper', 'XsVerif.Lemmas.NsMapper', 'XsVerif.Lemmas.NsStack', 'XsVerif.Lemmas.NsSpec', 'XsVerif.Lemmas.NsInv',
             'XsVerif.Lemmas.NsCollapse', 'XsVerif.Lemmas.NsEncode', 'XsVerif.Lemmas.NsDenote', 'XsVerif.Props.C17']
RULE = ('a case is (document, user namespace map, xmlns_processing mode, converter, parser) or one mapper operation '
        'script; non-trivial = the document redeclares a prefix in an inner scope, binds two prefixes to one URI, '
        'or sets/unsets a default namespace below the root (documents), resp. the script contains a rebind of a '
        'bound prefix or a context pop (scripts); distinct by canonical JSON of the case')
TRUSTED = ['the XML parser reports xmlns declarations in attribute order (resources/xml_loader.py start-ns events); '
           'the harness reads them back from the resource, so a difference shows up as a model/implementation mismatch',
           'rendering of names ({uri}local, prefix:local) is done by the driver; local parts are NCNames',
           'object identity of elements is modelled by their document position']
ASSUMPTIONS = ['documents are namespace-well-formed (every used name has a binding in scope) — guaranteed by the '
               'generator and required by the XML parser',
               'prefixes within one element are distinct (XML well-formedness); hypothesis `NodupKeys` of the theorems',
               'schema family: elements a, b in four namespaces, one recursive type, global attributes {ui}x and a '
               'local attribute y, a lax element wildcard for namespace u4 (undeclared elements typed xs:anyType) and '
               'a lax attribute wildcard (undeclared attribute names, qualified or not)',
               'encode: the initial map of the encoder (user map + declarations get_namespaces reads from the data) is '
               'taken from the real converter as an input of the model (its merge step is tied separately: merges)']

MODES = ['stacked', 'collapsed', 'root-only']


def converters():
    """name -> (class, view of decoded items or None, preserve_root, prune)
    view None: the converter reports no xmlns entries (loss_xmlns): tied at trace level, judged against the
    document's own declarations.  prune: the model's `keptItem` rule (None: data tree not compared)."""
    import xmlschema
    from xmlschema.dataobjects import DataElementConverter
    return {
        'default': (xmlschema.XMLSchemaConverter, L.view_default, True, True),
        'unordered': (xmlschema.UnorderedConverter, L.view_default, True, True),
        'badgerfish': (xmlschema.BadgerFishConverter, L.view_badgerfish, False, False),
        'jsonml': (xmlschema.JsonMLConverter, L.view_jsonml, False, False),
        'gdata': (xmlschema.GDataConverter, L.view_gdata, False, False),
        'dataelement': (DataElementConverter, L.view_dataelement, False, None),
        'abdera': (xmlschema.AbderaConverter, None, False, None),
        'parker': (xmlschema.ParkerConverter, None, True, None),
        'columnar': (xmlschema.ColumnarConverter, None, False, None),
    }


ENCODABLE = ('default', 'unordered', 'badgerfish', 'jsonml')


# ------------------------------------------------------------------------------------------------
# which repointing rule does the tree under check implement?  (witness of finding C17-F2)
F2_WITNESS = {'ns': [['b', 'u']],
              'ops': [{'k': 'ctx', 'obj': 1, 'level': 1, 'decl': [['p0', 'u'], ['k1', 'u']]},
                      {'k': 'ctx', 'obj': 2, 'level': 2, 'decl': [['k1', 'x'], ['p0', 'y']]},
                      {'k': 'map', 'q': ['u', 'e']}]}
F2_XML = '<a xmlns:b="u1"><a xmlns:p="u1" xmlns:k="u1"><a xmlns:k="u2" xmlns:p="u3"><b:a b:x="v"/></a></a></a>'
F5_WITNESS = {'ns': [['p', 'u1'], ['q', 'u1']], 'ops': [{'k': 'set', 'p': 'p', 'u': 'u2'}, {'k': 'map', 'q': ['u1', 'e']}]}


class ScriptMapper:
    """A real NamespaceMapper whose xmlns getter returns the declarations attached to script objects."""

    def __init__(self, ns: list, mode: str, cfg: Optional[dict] = None):
        from xmlschema import XMLSchemaConverter

        class M(XMLSchemaConverter):      # a NamespaceMapper with map_attributes
            __slots__ = ()

            def get_xmlns_from_data(self, obj):
                return getattr(obj, 'decl', None) or None

        cfg = cfg or {}
        self.m = M(dict(ns), xmlns_processing=mode, source=None,
                   process_namespaces=cfg.get('process', True), strip_namespaces=cfg.get('strip', False))
        self.objs: dict = {}

    def obj(self, oid: int, decl: list):
        o = self.objs.get(oid)
        if o is None:
            o = self.objs[oid] = type('Obj', (), {})()
        o.decl = [tuple(d) for d in decl]
        return o

    def state(self) -> dict:
        ids = {id(o): k for k, o in self.objs.items()}
        return {'ns': [[k, v] for k, v in self.m.namespaces.items()],
                'rev': [[k, (v[:-1] if v else v)] for k, v in self.m._reverse.items()],
                'stack': [[ids.get(id(c.obj)), c.level] for c in reversed(self.m._xmlns_contexts)]}

    def step(self, op: dict) -> Any:
        m = self.m
        k = op['k']
        if k == 'ctx':
            before = list(m._xmlns_contexts)
            cur = dict(m.namespaces)
            ret = m.set_xmlns_context(self.obj(op['obj'], op['decl']), op['level'])
            j = 0
            while j < len(before) and j < len(m._xmlns_contexts) and before[j] is m._xmlns_contexts[j]:
                j += 1
            # namespaces in force after the pop phase (saved maps of the deepest popped context)
            self.after_pop = dict(before[j].namespaces) if j < len(before) else cur
            return None if ret is None else [list(x) for x in ret]
        if k == 'set':
            m[op['p']] = op['u']
            return None
        if k == 'del':
            try:
                del m[op['p']]
            except KeyError:
                return 'KeyError'
            return None
        if k == 'map':
            return m.map_qname(L.qn(*op['q']))
        if k == 'mapattr':
            return list(m.map_attributes([(L.qn(*op['q']), 'v')]))[0][0][1:]
        if k == 'unmap':
            n = op['n']
            s = n['l'] if n['t'] == 'loc' else (f"{n['p']}:{n['l']}" if n['t'] == 'pre' else '{%s}%s' % (n['u'], n['l']))
            table = [s] if op['tab'] else None
            return m.unmap_qname(s, table, [tuple(x) for x in op['xmlns']] or None)
        raise ValueError(k)


def run_script(ns: list, mode: str, ops: list, cfg: Optional[dict] = None) -> dict:
    sm = ScriptMapper(ns, mode, cfg)
    init = sm.state()
    steps = []
    for op in ops:
        sm.after_pop = None
        ret = sm.step(op)
        st = sm.state()
        st['ret'] = ret
        if sm.after_pop is not None:
            st['after_pop'] = sm.after_pop
        steps.append(st)
    return {'init': init, 'steps': steps}


def detect_variant() -> str:
    r = run_script(F2_WITNESS['ns'], 'stacked', F2_WITNESS['ops'])
    return 'pinned' if r['steps'][-1]['ret'] != 'b:e' else 'repaired'


def setitem_stale() -> bool:
    r = run_script(F5_WITNESS['ns'], 'none', F5_WITNESS['ops'])
    return r['steps'][-1]['ret'] != 'q:e'


F7_WITNESS = {'ns': [['', 'u1'], ['p', 'u1']], 'ops': [{'k': 'mapattr', 'q': ['u1', 'x']}]}


def detect_attr_rule() -> str:
    """'current' (map_attributes = map_qname, C17-F7) or 'repaired' (notes/fixes/C17-attribute-default-prefix.patch)"""
    r = run_script(F7_WITNESS['ns'], 'none', F7_WITNESS['ops'])
    return 'current' if r['steps'][-1]['ret'] == 'x' else 'repaired'


ARULE = 'current'


# ------------------------------------------------------------------------------------------------
# known findings (exact, symptom + cause; see notes/findings/C17.json)
def _chain(doc: dict, nid: int) -> Optional[list]:
    if doc['id'] == nid:
        return [doc]
    for c in doc['ch']:
        r = _chain(c, nid)
        if r is not None:
            return [doc] + r
    return None


def _doc_scopes(chain: list) -> list:
    """in-scope declarations of the document itself *before* each element of the chain"""
    out, s = [], {}
    for n in chain:
        out.append(dict(s))
        for p, u in n['decl']:
            s[p] = u
    return out


def known_match(case: dict, detail: dict) -> Optional[str]:
    """Returns the id of the listed finding that explains this failing observation, else None."""
    kind = detail.get('kind')
    if kind == 'script':
        # C17-F2 / C17-F5 are fixed (b20c29d): a stale reverse record is a violation again
        return None
    mode = case.get('mode')
    if kind == 'encode-tree':
        conv = detail['converter']
        view = converters()[conv][1]
        d = detail.get('diff') or {}
        udef = dict(case.get('user') or []).get('')
        if udef and d.get('kind') == 'element' and isinstance(d.get('document'), str) and d['document'][:1] != '{' \
                and d.get('data') == '{%s}%s' % (udef, d['document']):
            # C17-F4 (encode side): a no-namespace name is read into the user-supplied default namespace
            return 'C17-F4'
        if d.get('kind') == 'element' and isinstance(d.get('document'), str) and d['document'][:1] != '{' \
                and d.get('data') == '{%s}%s' % (L.WILD, d['document']):
            # C17-F10: the validators re-apply the parent's default namespace to a child name that the converter
            # resolved to no namespace (xmlns=""), and the wildcard for that namespace admits it
            return 'C17-F10'
        if conv == 'unordered':
            # C17-F6: two different keys of one parent denote the same expanded name
            def collide(key, item, scope):
                xmlns, _, ch = view(item)
                s = dict(scope)
                s.update(xmlns)
                seen: dict = {}
                for ck, it in ch:
                    sx = dict(s)
                    sx.update(view(it)[0])
                    try:
                        r = L.resolve(ck, sx, False)
                    except L.Unresolved:
                        continue
                    if seen.setdefault(r, ck) != ck:
                        return True
                return any(collide(ck, it, s) for ck, it in ch)
            return 'C17-F6' if collide(detail['key'], detail['item'], {}) else None
        if conv == 'jsonml':
            # C17-F8: declarations of a child of the root are merged into the root's map by the encoder
            root_decl = {p for p, u in case['doc']['decl'] if u}
            for c in case['doc']['ch']:
                if any(p not in root_decl for p, _ in c['decl']):
                    return 'C17-F8'
        return None
    if kind in ('element', 'attribute') and detail.get('phase') == 'decode':
        exp_ns, key = detail['expected'][0], detail['key']
        unprefixed = key[:1] != '{' and ':' not in key
        doc = case['doc']
        chain = _chain(doc, detail['node']) or []
        if kind == 'attribute' and exp_ns and unprefixed and detail.get('reported_default') == exp_ns:
            return 'C17-F7'
        if kind == 'element' and not exp_ns and unprefixed and detail.get('reported_default'):
            own_default = any(p == '' for n in chain for p, _ in n['decl'])
            if mode in ('collapsed', 'root-only') or (not own_default and dict(case.get('user') or []).get('')):
                return 'C17-F4'
        return None
    return None


# ------------------------------------------------------------------------------------------------
def nontrivial_doc(doc: dict) -> bool:
    def walk(n, scope, depth):
        s = dict(scope)
        hit = False
        for p, u in n['decl']:
            if depth and (p in s and s[p] != u or p == ''):
                hit = True
            if u and u in [v for k, v in s.items() if k != p]:
                hit = True
            s[p] = u
        return hit or any(walk(c, s, depth + 1) for c in n['ch'])
    return walk(doc, {}, 0)


def gen_user(rng) -> list:
    r = rng.random()
    if r < 0.55:
        return []
    n = rng.choice([1, 1, 2, 3])
    out: dict = {}
    for _ in range(n):
        p = rng.choice(L.PREFIXES + ['z', 'p0', ''] if rng.random() < 0.85 else [''])
        out[p] = rng.choice(L.URIS + ([] if p == '' else ['uX']))
    return [[k, v] for k, v in out.items()]


def model_calls(doc: dict, obs: dict) -> list:
    """linearise the model's observations into the sequence of set_xmlns_context calls"""
    out = []

    def walk(n):
        o = obs[n['id']]
        out.append({'obj': n['id'], 'level': o['level'], 'ns': o['nsK'], 'rev': o['revK'], 'when': 'enter'})
        for c in n['ch']:
            walk(c)
        out.append({'obj': n['id'], 'level': o['level'], 'ns': o['nsA'], 'rev': o['revA'], 'ret': o['ret'],
                    'when': 'exit'})
    walk(doc)
    return out


def decode_real(doc: dict, xml: str, user: list, mode: str, conv: str, lx: bool = False):
    import xmlschema
    base, view, proot, _ = converters()[conv]
    if lx:
        import lxml.etree as LE
        res = xmlschema.XMLResource(LE.fromstring(xml.encode()))
    else:
        res = xmlschema.XMLResource(xml)
    ids = {id(e): i for i, e in enumerate(res.root.iter())}
    L.reset_trace(ids)

    def hook(data, xsd_element, xsd_type):
        L.TRACE['elems'][L.TRACE['last']] = [n for n, _, _ in (data.content or []) if isinstance(n, str)]
        return data
    kw: dict = {'converter': L.traced(base), 'validation': 'lax', 'element_hook': hook, 'xmlns_processing': mode}
    if proot:
        kw['preserve_root'] = True
    if user:
        kw['namespaces'] = dict(user)
    data, errors = L.schema().decode(res, **kw)
    def norm(k):            # GData writes prefixed names with '$'
        return k if conv != 'gdata' or k[:1] == '{' else k.replace('$', ':')
    trace = {'calls': L.TRACE['calls'], 'elems': {i: [norm(k) for k in v] for i, v in L.TRACE['elems'].items()},
             'attrs': {i: [norm(k) for k in v] for i, v in L.TRACE['attrs'].items()},
             'init': L.TRACE['init'],
             'xmlns': {ids[id(e)]: [list(x) for x in (res.get_xmlns(e) or [])] for e in res.root.iter()}}
    return data, errors, trace


def root_item(conv: str, data: Any):
    """(root key, root item) of decoded data"""
    if conv == 'jsonml':
        return data[0], data
    if conv == 'dataelement':
        return data.tag, data
    (k, v), = data.items()
    return (k if conv != 'gdata' or k[:1] == '{' else k.replace('$', ':')), v


def is_map(conv: str, item: Any) -> bool:
    return True if conv == 'jsonml' else isinstance(item, dict)


def canon_item_real(conv: str, view, key: str, item: Any) -> Any:
    m = is_map(conv, item)
    xmlns, attrs, ch = view(item) if m else ([], [], [])
    return [key, m, [list(x) for x in xmlns], sorted(attrs),
            sorted((canon_item_real(conv, view, k, it) for k, it in ch), key=repr)]


def canon_item_model(it: dict) -> Any:
    return [it['key'], it['map'], it['xmlns'], sorted(it['attrs']), sorted((canon_item_model(c) for c in it['ch']), key=repr)]


def build_item(conv: str, view, key: str, item: Any, counter: list, objids: dict, tab: list) -> dict:
    """the data as the encoder will walk it (data order), with identifiers for the mapping objects"""
    iid = counter[0]
    counter[0] += 1
    m = is_map(conv, item)
    xmlns, attrs, ch = view(item) if m else ([], [], [])
    if m:
        objids[id(item)] = iid
    loc = key.split('}')[-1].split(':')[-1]
    if loc != 'w':
        tab.append([iid, 'y'])           # declared elements a, b: the type declares the unqualified attribute y
    return {'id': iid, 'key': key, 'map': m, 'xmlns': [list(x) for x in xmlns], 'attrs': list(attrs),
            'ch': [build_item(conv, view, k, it, counter, objids, tab) for k, it in ch]}


def canon_from_obs(obs: list) -> Any:
    """nested canonical tree [tag, sorted attrs, sorted children] from the model's pre-order observations"""
    pos = [0]

    def rec(level):
        o = obs[pos[0]]
        pos[0] += 1
        ch = []
        while pos[0] < len(obs) and obs[pos[0]]['level'] == level + 1:
            ch.append(rec(level + 1))
        return [o['tag'], sorted(o['attrs']), sorted(ch, key=repr)]
    return rec(obs[0]['level']) if obs else None


def node_walk(ctx: Ctx, case: dict, doc: dict, conv: str, data: Any, trace: dict) -> list:
    """node-level reading of the data aligned with the document through the emitted keys;
    returns the list of failing observations"""
    view = converters()[conv][1]
    fails: list = []

    def check(n: dict, key: str, item: Any, scope: dict, path: str):
        xmlns, attrs, ch = view(item)
        s = dict(scope)
        for p, u in xmlns:
            s[p] = u
        rd = s.get('') or ''
        try:
            got = L.resolve(key, s, False)
        except L.Unresolved:
            got = None
        if got != L.qn(*n['tag']):
            fails.append({'phase': 'decode', 'kind': 'element', 'node': n['id'], 'path': path, 'key': key,
                          'denotes': got, 'expected': n['tag'], 'reported_default': rd, 'reported': sorted(s.items())})
        akeys = trace['attrs'].get(n['id'], [])
        if sorted(set(akeys)) != sorted(attrs) or len(akeys) != len(n['attrs']):
            fails.append({'phase': 'decode', 'kind': 'shape', 'node': n['id'], 'path': path,
                          'emitted': akeys, 'in_data': attrs})
        if len(akeys) == len(n['attrs']):
            for a, k in zip(n['attrs'], akeys):
                try:
                    g = L.resolve(k, s, True)
                except L.Unresolved:
                    g = None
                if g != L.qn(*a):
                    fails.append({'phase': 'decode', 'kind': 'attribute', 'node': n['id'], 'path': path, 'key': k,
                                  'denotes': g, 'expected': a, 'reported_default': rd, 'reported': sorted(s.items())})
        ckeys = trace['elems'].get(n['id'], []) if conv != 'dataelement' else [k for k, _ in ch]
        if len(ckeys) != len(n['ch']) or len(ch) != len(ckeys):
            fails.append({'phase': 'decode', 'kind': 'shape', 'node': n['id'], 'path': path,
                          'emitted': ckeys, 'in_data': [k for k, _ in ch]})
            return
        by_key: dict = {}
        for k, it in ch:
            by_key.setdefault(k, []).append(it)
        for c, k in zip(n['ch'], ckeys):
            lst = by_key.get(k)
            if not lst:
                fails.append({'phase': 'decode', 'kind': 'shape', 'node': c['id'], 'path': path, 'emitted': k,
                              'in_data': sorted(by_key)})
                return
            check(c, k, lst.pop(0), s, path + '/' + k)

    k, item = root_item(conv, data)
    check(doc, k, item, {}, '/' + k)
    return fails


def encoder_reading(view, conv: str, key: str, item: Any, scope: dict, tag: Optional[str], hits: dict,
                    doc: Optional[dict] = None) -> Any:
    """What the library's own encoder makes of the data (dict-based converters): an unprefixed attribute key
    under a default namespace is taken into it unless the element's type declares it unqualified (a key that
    came from a namespaced attribute: C17-F7; from an undeclared attribute in no namespace: C17-F9), all items
    listed under one key take the name resolved for the first item (C17-F3)."""
    xmlns, attrs, ch = view(item)
    s = dict(scope)
    for p, u in xmlns:
        s[p] = u
    if tag is None:
        tag = L.resolve(key, s, False)
    table = ['y'] if (tag.split('}')[-1] in L.LOCALS and not tag.startswith('{%s}' % L.WILD)) else []
    ra = []
    for a in attrs:
        r = L.resolve(a, s, True)
        if r == a and a not in table and s.get(''):
            r = L.qn(s[''], a)
            fid = 'C17-F9' if a in ('y', 'z') else 'C17-F7'
            hits[fid] = hits.get(fid, 0) + 1
        ra.append(r)
    rc = []
    if conv == 'jsonml':
        for k, it in ch:
            rc.append(encoder_reading(view, conv, k, it, s, None, hits))
    else:
        groups: dict = {}
        for k, it in ch:
            groups.setdefault(k, []).append(it)
        for k, items in groups.items():
            first = None
            if len(items) > 1:
                # list value: name resolved once, with the xmlns of the first item (if it is a mapping)
                fx = view(items[0])[0]
                s0 = dict(s)
                for p, u in fx:
                    s0[p] = u
                first = L.resolve(k, s0, False)
            for it in items:
                own = None
                if first is not None:
                    sx = dict(s)
                    for p, u in view(it)[0]:
                        sx[p] = u
                    own = L.resolve(k, sx, False)
                    if own != first:
                        hits['C17-F3'] = hits.get('C17-F3', 0) + 1
                rc.append(encoder_reading(view, conv, k, it, s, first, hits))
    return [tag, sorted(ra), sorted(rc, key=repr)]


def eval_trace(ctx: Ctx, case: dict, doc: dict, mode: str, trace: dict) -> None:
    """converters that report no xmlns entries: every key handed to the converter, resolved with the document's
    own in-scope declarations over the user map (stacked) resp. with the one final map (other modes), must
    denote the expanded name of its node"""
    user = dict(case.get('user') or [])
    final = dict(map(tuple, trace['calls'][-1]['ns'])) if trace['calls'] else {}
    # namespaces in force right after the first / last set_xmlns_context call of each element (stacked mode: the
    # data reports nothing, generated prefixes of a colliding user map are known to the mapper only)
    enter: dict = {}
    leave: dict = {}
    for c in trace['calls']:
        enter.setdefault(c['obj'], dict(map(tuple, c['ns'])))
        leave[c['obj']] = dict(map(tuple, c['ns']))

    def agree(doc_scope: dict, mapper_ns: dict) -> bool:
        # every binding of the document's own scope is a binding of the mapper's map (xmlns="" aside)
        return all(mapper_ns.get(p) == u for p, u in doc_scope.items() if u or p)

    def walk(n: dict, scope: dict):
        s = dict(scope)
        for p, u in n['decl']:
            s[p] = u
        if mode == 'stacked' and n['id'] in leave and not agree(s, leave[n['id']]):
            yield {'phase': 'decode', 'kind': 'scope', 'node': n['id'], 'document_scope': s, 'mapper': leave[n['id']], 'path': ''}
        rs = leave.get(n['id'], s) if mode == 'stacked' else final
        akeys = trace['attrs'].get(n['id'], [])
        if len(akeys) == len(n['attrs']):
            for a, k in zip(n['attrs'], akeys):
                try:
                    g = L.resolve(k, rs, True)
                except L.Unresolved:
                    g = None
                if g != L.qn(*a):
                    yield {'phase': 'decode', 'kind': 'attribute', 'node': n['id'], 'key': k, 'denotes': g,
                           'expected': a, 'reported_default': rs.get('') or '', 'path': ''}
        ckeys = trace['elems'].get(n['id'], [])
        if len(ckeys) == len(n['ch']):
            for c, k in zip(n['ch'], ckeys):
                cs = dict(s)
                for p, u in c['decl']:
                    cs[p] = u
                crs = enter.get(c['id'], cs) if mode == 'stacked' else final
                try:
                    g = L.resolve(k, crs, False)
                except L.Unresolved:
                    g = None
                if g != L.qn(*c['tag']):
                    yield {'phase': 'decode', 'kind': 'element', 'node': c['id'], 'key': k, 'denotes': g,
                           'expected': c['tag'], 'reported_default': crs.get('') or '', 'path': ''}
        elif n['ch']:
            yield {'phase': 'decode', 'kind': 'shape', 'node': n['id'], 'emitted': ckeys, 'path': ''}
        for c in n['ch']:
            yield from walk(c, s)

    for f in walk(doc, user):
        fid = known_match(case, f)
        if fid:
            ctx.known_hit(fid, case, f)
            ctx.count('known:' + fid)
        else:
            ctx.failure('a key handed to the converter, resolved with the declarations in scope of its node, does not '
                        'denote the expanded name of the node', case, f)
            return
    ctx.count('trace-level evaluation ok')


def eval_doc(ctx: Ctx, case: dict, doc: dict, conv: str, mode: str, data: Any, errors: list, trace: dict) -> Optional[dict]:
    """the property itself on the real code; returns the material for the encode tie when encode restored the names"""
    import xmlschema
    base, view, proot, _ = converters()[conv]
    want = L.canon_doc(doc)
    if errors:
        ctx.failure('valid generated document reported invalid while decoding', case,
                    {'errors': [str(e.reason) for e in errors[:3]]})
        return None
    if view is None or (conv == 'gdata' and any(n['tag'][0] == L.WILD for n in L.doc_nodes(doc))):
        # GData stores an xs:anyType child without a list (a second one overrides it): lossy, judged at trace level
        eval_trace(ctx, case, doc, mode, trace)
        return None
    # --- decode: data read with the declarations it reports -----------------------------------
    unresolved: list = []
    k, item = root_item(conv, data)
    got = L.read_item(view, k, item, {}, unresolved, '')
    decode_ok = got == want and not unresolved
    if not decode_ok:
        fails = node_walk(ctx, case, doc, conv, data, trace)
        if not fails:
            fails = [{'phase': 'decode', 'kind': 'tree', 'diff': L.first_diff(want, got)}]
        for f in fails:
            fid = known_match(case, f)
            if fid:
                ctx.known_hit(fid, case, f)
                ctx.count('known:' + fid)
            else:
                ctx.failure('a decoded key, resolved with the declarations the data reports, does not denote the '
                            'expanded name of its XML node', case, f)
                return None
    # --- encode: restores the names the data denotes ----------------------------------------------
    if conv not in ENCODABLE:
        ctx.count('encode not driven for this converter')
        return None
    wild_elems = any(n['tag'][0] == L.WILD for n in L.doc_nodes(doc))
    wild_any = wild_elems or any(a[0] == L.WILD for n in L.doc_nodes(doc) for a in n['attrs']) or \
        any(u == L.WILD for n in L.doc_nodes(doc) for _, u in n['decl'])
    if conv == 'badgerfish' and wild_elems:
        # xs:anyType children are stored without a list: single-child dicts are taken for wrappers when encoding
        ctx.count('encode not evaluable (badgerfish, wildcard-matched elements: wrapper ambiguity)')
        return None
    counter, objids, tab = [0], {}, []
    enc_item = build_item(conv, view, k, item, counter, objids, tab)
    L.reset_trace(objids)
    kw: dict = {'converter': L.traced(base), 'validation': 'lax', 'xmlns_processing': mode, 'path': L.qn(*doc['tag'])}
    if proot:
        kw['preserve_root'] = True
    if case.get('user'):
        kw['namespaces'] = dict(case['user'])
    try:
        elem, eerrors = L.schema().encode(data, **kw)
    except Exception as e:  # noqa
        elem, eerrors = None, [e]
    etrace = {'calls': L.TRACE['calls'], 'init': L.TRACE['init']}
    if elem is None and conv == 'badgerfish' and any("'list' object has no attribute 'items'" in str(e) for e in eerrors):
        # BadgerFishConverter.element_encode takes a dict with a single child key for the element's own wrapper
        # (badgerfish.py:104-113) and crashes; not a naming question — counted, not judged
        ctx.count('encode not evaluable (badgerfish single-child wrapper ambiguity)')
        return None
    if elem is None and decode_ok and not doc['tag'][0] and dict(case.get('user') or []).get('') and \
            any('data tag does not match XSD element name' in str(e) or 'Unmatched tag' in str(e) for e in eerrors):
        # C17-F4 (encode side): the user-supplied default namespace is applied to the no-namespace root key
        ctx.known_hit('C17-F4', case)
        ctx.count('known:C17-F4 (encode)')
        return None
    if elem is None and decode_ok and conv == 'jsonml' and any('Unmatched tag' in str(e) for e in eerrors) and \
            known_match(case, {'kind': 'encode-tree', 'phase': 'encode', 'converter': conv, 'item': item, 'key': k}) == 'C17-F8':
        ctx.known_hit('C17-F8', case)
        ctx.count('known:C17-F8 (encode)')
        return None
    if elem is None and wild_elems and conv == 'jsonml' and decode_ok and any('Unmatched tag' in str(e) for e in eerrors):
        # C17-F11: after the level-0 probe reset the context stack, an item's own tag resolves to another name
        ctx.known_hit('C17-F11', case)
        ctx.count('known:C17-F11 (encode, unmatched tag)')
        return None
    if elem is None and wild_any and any('is not loaded' in str(e) for e in eerrors):
        # the wildcard namespace has no schema: not a naming question — counted, not judged
        ctx.count('encode not evaluable (wildcard namespace not loaded)')
        return None
    if elem is None:
        if decode_ok:
            ctx.failure('decoded data cannot be encoded back', case, {'phase': 'encode', 'errors': [str(e)[:200] for e in eerrors[:2]]})
        else:
            ctx.count('encode skipped after known decode finding')
        return None
    enc = L.canon_elem(elem)
    if enc == got:
        ctx.count('encode ok')
        if wild_elems:
            # XsdAnyElement.raw_encode probes the item with element_encode(value, xsd_element) at level 0 before the
            # real call (wildcards.py:606): an extra set_xmlns_context the model of the call pattern does not have
            ctx.count('encode run not compared (wildcard-matched elements: extra level-0 probe call)')
            return None
        return {'item': enc_item, 'tab': tab, 'etrace': etrace, 'enc': enc}
    hits: dict = {}
    try:
        pred = encoder_reading(view, conv, k, item, {}, None, hits, doc)
    except L.Unresolved:
        pred = None
    if pred == enc and hits:
        for fid, n in hits.items():
            ctx.known_hit(fid, case)
            ctx.count('known:' + fid + ' (encode)')
        return None
    def norm9(t):
        # C17-F9: an unqualified attribute the element type does not declare (z anywhere, y on a wildcard-matched
        # element) read into the default namespace; documents never contain a namespaced z / y
        und = ('z', 'y') if t[0].split('}')[-1] == 'w' else ('z',)
        return [t[0], sorted(a.split('}')[-1] if a.split('}')[-1] in und else a for a in t[1]), sorted((norm9(c) for c in t[2]), key=repr)]
    if decode_ok and norm9(enc) == norm9(got) and norm9(enc) != enc:
        ctx.known_hit('C17-F9', case)
        ctx.count('known:C17-F9 (encode)')
        return None

    def norm10(t):
        # C17-F10: a declared local name (a, b) never occurs in the wildcard namespace in the documents
        tag = t[0]
        if tag.startswith('{%s}' % L.WILD) and tag.split('}')[-1] in L.LOCALS:
            tag = tag.split('}')[-1]
        return [tag, t[1], sorted((norm10(c) for c in t[2]), key=repr)]
    if decode_ok and wild_elems:
        def lo(t):
            return [t[0].split('}')[-1], sorted(a.split('}')[-1] for a in t[1]), sorted((lo(c) for c in t[2]), key=repr)]
        dd = L.first_diff(lo(got), lo(enc))
        if dd is not None and dd.get('kind') == 'children':
            # an xs:anyType element with a single child item and no attributes is taken for simple content by the
            # list/dict conventions (JsonML, BadgerFish): content shape, not naming — counted, not judged
            ctx.count('encode not evaluable (xs:anyType content shape)')
            return None
    if decode_ok and wild_elems and norm10(enc) != enc and norm10(norm9(enc)) == norm10(norm9(got)):
        ctx.known_hit('C17-F10', case)
        ctx.count('known:C17-F10 (encode)')
        if norm9(enc) != enc:
            ctx.known_hit('C17-F9', case)
        return None
    def norm_attr_ns(t):
        return [t[0], sorted(a.split('}')[-1] for a in t[1]), sorted((norm_attr_ns(c) for c in t[2]), key=repr)]
    if decode_ok and wild_elems and norm_attr_ns(norm10(enc)) == norm_attr_ns(norm10(got)):
        # documents with wildcard-matched elements: only the namespaces of unprefixed attribute keys differ (the
        # C17-F7 / C17-F9 reading of the encoder, combined with C17-F10 element names)
        for fid in sorted(set(hits) & {'C17-F7', 'C17-F9'}) or ['C17-F9']:
            ctx.known_hit(fid, case)
            ctx.count('known:' + fid + ' (encode, combined)')
        return None
    def local_only(t):
        # (a prefix the encoder could not resolve stays in the name: `k:a`)
        # (two attribute keys that resolve to one name collapse: compare the sets of local names)
        return [t[0].split('}')[-1].split(':')[-1], sorted({a.split('}')[-1].split(':')[-1] for a in t[1]}),
                sorted((local_only(c) for c in t[2]), key=repr)]
    if decode_ok and wild_any and conv == 'jsonml':
        # JsonML resolves every item's own tag and attributes after its set_xmlns_context: once a level-0 probe of a
        # wildcard match (C17-F11) has reset the context stack, any later name may take other bindings, collapse
        # with another attribute or keep an unresolved prefix.  Documents that bind the wildcard namespace only.
        ctx.known_hit('C17-F11', case)
        ctx.count('known:C17-F11 (encode, jsonml after a context reset)')
        return None
    if decode_ok and wild_elems and local_only(enc) == local_only(got):
        # documents with wildcard-matched elements, same shape and local names, namespaces differ:
        # C17-F11 (JsonML: the level-0 probe of a wildcard-matched item resets the context stack and every item's
        # own tag is resolved after its set_xmlns_context) resp. C17-F10 (an unprefixed child name below xmlns=""
        # inside an element whose wildcard admits the parent's default namespace), possibly with C17-F9
        fid = 'C17-F11' if conv == 'jsonml' else 'C17-F10'
        ctx.known_hit(fid, case)
        ctx.count('known:' + fid + ' (encode)')
        return None
    if not decode_ok:
        # names were already wrong in the data (listed decode finding); the encoder cannot restore them
        ctx.count('encode differs after known decode finding')
        return None
    fid = known_match(case, {'kind': 'encode-tree', 'phase': 'encode', 'converter': conv, 'item': item, 'key': k,
                             'diff': L.first_diff(got, enc)})
    if fid:
        ctx.known_hit(fid, case)
        ctx.count('known:' + fid + ' (encode)')
        return None
    ctx.failure('encoding the decoded data does not restore the expanded names', case,
                {'phase': 'encode', 'kind': 'tree', 'diff': L.first_diff(got, enc),
                 'data': json.loads(json.dumps(data, default=str))})
    return None


def compare_doc(ctx: Ctx, case: dict, doc: dict, trace: dict, m: dict, data: Any = None) -> None:
    ctx.traces += 1
    if 'err' in m:
        ctx.mismatch('driver error', case, None, m)
        return
    if m.get('fuel'):
        ctx.count('model fuel exhausted')
        return
    conv = case['converter']
    obs = {o['id']: o for o in m['obs']}
    mc = model_calls(doc, obs)
    rc = trace['calls']
    if len(mc) != len(rc):
        ctx.mismatch('number/order of set_xmlns_context calls', case,
                     [(c['obj'], c['level']) for c in rc], [(c['obj'], c['level']) for c in mc])
        return
    for i, (a, b) in enumerate(zip(rc, mc)):
        for f in ('obj', 'level', 'ns', 'rev'):
            if a[f] != b[f]:
                ctx.mismatch(f'set_xmlns_context call #{i} ({b["when"]}): {f}', case, a[f], b[f])
                return
        if b['when'] == 'exit' and a['ret'] != b['ret']:
            ctx.mismatch(f'set_xmlns_context call #{i}: returned xmlns', case, a['ret'], b['ret'])
            return
    if rc and rc[-1]['stack'] != m['final']['stack']:
        ctx.mismatch('final context stack', case, rc[-1]['stack'], m['final']['stack'])
    akey = 'attrsR' if ARULE == 'repaired' else 'attrs'
    has_attr_trace = conv not in ('parker', 'columnar')     # these do not call map_attributes
    for n in L.doc_nodes(doc):
        o = obs[n['id']]
        if has_attr_trace and trace['attrs'].get(n['id'], []) != o[akey]:
            ctx.mismatch('mapped attribute keys', case, trace['attrs'].get(n['id'], []), o[akey])
            return
        want = [obs[c['id']]['key'] for c in n['ch']]
        if trace['elems'].get(n['id'], []) != want:
            ctx.mismatch('mapped child keys', case, trace['elems'].get(n['id'], []), want)
            return
    # the data tree itself (converters that report xmlns entries)
    base, view, proot, prune = converters()[conv]
    if prune is not None and data is not None and view is not None and \
            not (conv == 'gdata' and any(n['tag'][0] == L.WILD for n in L.doc_nodes(doc))):
        ctx.traces += 1
        ctx.count('data tree compared')
        k, item = root_item(conv, data)
        real = canon_item_real(conv, view, k, item)
        model = canon_item_model(m['item'])
        if real != model:
            ctx.mismatch('decoded data tree (keys, reported xmlns, attribute keys, pruning)', case, real, model)


def compare_enc(ctx: Ctx, case: dict, tie: dict, m: dict) -> None:
    """encode: set_xmlns_context calls of the real element_encode run and names of the produced XML tree"""
    ctx.traces += 1
    ctx.count('encode run compared')
    if 'err' in m:
        ctx.mismatch('driver error (enc)', case, None, m)
        return
    obs = m['obs']
    mcalls = [o for o in obs if _is_map_id(tie['item'], o['id'])]
    rcalls = tie['etrace']['calls']
    if [(c['obj'], c['level']) for c in rcalls] != [(o['id'], o['level']) for o in mcalls]:
        ctx.mismatch('encode: order of set_xmlns_context calls', case,
                     [(c['obj'], c['level']) for c in rcalls], [(o['id'], o['level']) for o in mcalls])
        return
    for i, (a, b) in enumerate(zip(rcalls, mcalls)):
        for f in ('ns', 'rev'):
            if a[f] != b[f]:
                ctx.mismatch(f'encode: set_xmlns_context call #{i}: {f}', case, a[f], b[f])
                return
    model = canon_from_obs(obs)
    if model != tie['enc']:
        ctx.mismatch('encode: expanded names of the produced tree', case, tie['enc'], model)


def order_like_real(item: dict, calls: list) -> None:
    """The validators hand the children of an element to the converter in the order of the content model, not of
    the data (groups.py raw_encode): the model is driven with the children in the order of the real run."""
    first: dict = {}
    for i, c in enumerate(calls):
        first.setdefault(c['obj'], i)

    def sub_first(it):
        return min([first.get(it['id'], 10 ** 9)] + [sub_first(c) for c in it['ch']])

    def rec(it):
        it['ch'].sort(key=sub_first)
        for c in it['ch']:
            rec(c)
    rec(item)


def _is_map_id(item: dict, iid: int) -> bool:
    if item['id'] == iid:
        return item['map']
    return any(_is_map_id(c, iid) for c in item['ch'])


DIRECTED = [
    # (xml-ish doc builders are avoided: documents as node dicts) — directed shapes around the defects found
    '<a xmlns:b="u1"><a xmlns:p="u1" xmlns:k="u1"><a xmlns:k="u2" xmlns:p="u3"><b:a b:x="v"/></a></a></a>',
    '<p:a xmlns:p="u1" xmlns:q="u1"><q:b xmlns:p="u2" p:x="v"><p:a xmlns="u3"><b/></p:a></q:b><p:b/></p:a>',
    '<a xmlns:p="u1"><p:b/><p:b xmlns:p="u2"/><p:b xmlns:p="u2"><p:a/></p:b></a>',
    '<a xmlns="u1"><a xmlns=""><b/></a></a>',
    '<a xmlns="u1" xmlns:p="u1" p:x="v"/>',
    '<p:a xmlns:p="u1" xmlns="u1" p:x="v"><b xmlns="u2" y="v"/></p:a>',
    '<a><b xmlns="u1"><b xmlns="u2"><b xmlns=""/></b><a/></b><b/></a>',
    '<q:a xmlns:q="u1"><q:a xmlns:q="u2"><q:a xmlns:q="u3"><q:a xmlns:q="u1"/></q:a><q:b/></q:a><q:b/></q:a>',
]


def parse_doc(xml: str) -> dict:
    """node dict of a directed XML text (declarations in attribute order)"""
    import re
    import xml.etree.ElementTree as ET
    res_decl: list = []
    for m in re.finditer(r'<([\w:]+)((?:\s+[\w:]+="[^"]*")*)\s*/?>', xml):
        res_decl.append([[a[6:] if a.startswith('xmlns:') else '', v] for a, v in
                         re.findall(r'([\w:]+)="([^"]*)"', m.group(2)) if a == 'xmlns' or a.startswith('xmlns:')])
    root = ET.fromstring(xml)
    it = iter(res_decl)

    def split(t):
        return [t[1:].split('}')[0], t.split('}')[1]] if t[:1] == '{' else ['', t]

    def conv(e):
        return {'tag': split(e.tag), 'attrs': [split(a) for a in e.attrib], 'decl': next(it),
                'ch': [conv(c) for c in e], 'pfx': None, 'apfx': []}
    return conv(root)


def documents(ctx: Ctx, drv: Optional[Driver], variant: str) -> None:
    rng = ctx.rng
    n_docs = ctx.pick(900, 9000)
    convs = list(converters())
    reqs: list = []
    pend: list = []
    ereqs: list = []
    epend: list = []
    docs: list = []
    try:
        import lxml.etree  # noqa
        have_lxml = True
    except Exception:  # noqa
        have_lxml = False
    ctx.extra['lxml'] = have_lxml
    for x in DIRECTED:
        d = parse_doc(x)
        docs.append((d, x, 'directed'))
    for i in range(n_docs):
        wild = 0.35 if rng.random() < 0.4 else 0.0
        d = L.gen_doc(rng, max_depth=rng.choice([2, 3, 4, 5, 6]), max_nodes=rng.choice([6, 10, 14, 20]), wild=wild)
        docs.append((d, L.doc_xml(d), 'wild' if wild else 'generated'))
    for i, (doc, xml, origin) in enumerate(docs):
        L.assign_ids(doc)
        nt = nontrivial_doc(doc)
        for mode in MODES:
            users = [[]] if origin == 'directed' else [gen_user(rng)]
            if origin == 'directed':
                users.append([['', 'u1']])
            for user in users:
                if origin == 'directed':
                    conv_list = convs
                elif ctx.quick():
                    conv_list = [convs[(i + MODES.index(mode)) % len(convs)]]
                else:
                    conv_list = [convs[(i + MODES.index(mode) + j) % len(convs)] for j in range(4)]
                for conv in conv_list:
                    lx = have_lxml and (origin == 'directed' or rng.random() < 0.25)
                    for use_lx in ([False, True] if (lx and origin == 'directed') else [lx]):
                        one_document(ctx, drv, variant, doc, xml, origin, nt, mode, user, conv, use_lx,
                                     reqs, pend, ereqs, epend)
        ctx.count(f'doc nodes:{min(len(list(L.doc_nodes(doc))) // 5 * 5, 20)}+')
    if drv is not None and reqs:
        for (case, doc, trace, data), m in zip(pend, drv.query(reqs)):
            compare_doc(ctx, case, doc, trace, m, data)
    if drv is not None and ereqs:
        for (case, tie), m in zip(epend, drv.query(ereqs)):
            compare_enc(ctx, case, tie, m)


def one_document(ctx: Ctx, drv: Optional[Driver], variant: str, doc: dict, xml: str, origin: str, nt: bool, mode: str,
                 user: list, conv: str, lx: bool, reqs: list, pend: list, ereqs: list, epend: list) -> None:
    plain = L.driver_tree(doc)
    case = {'xml': xml, 'doc': plain, 'user': user, 'mode': mode, 'converter': conv, 'parser': 'lxml' if lx else 'etree'}
    try:
        data, errors, trace = decode_real(doc, xml, user, mode, conv, lx)
    except Exception as e:  # noqa
        if conv in ('columnar', 'abdera', 'parker') and isinstance(e, (ValueError, TypeError, KeyError)):
            ctx.count(f'decode not evaluable ({conv}: {type(e).__name__})')
            return
        ctx.failure('decode raised', case, {'exception': repr(e)[:300]})
        return
    # parsing glue: declarations as the resource reports them vs the generator's intent
    mdoc = doc
    differs = any(trace['xmlns'].get(n['id'], []) != n['decl'] for n in L.doc_nodes(doc))
    if differs and lx:
        # lxml reports the declarations of an element from its nsmap: own order, and a redundant redeclaration
        # (same prefix, same URI as in the parent) is not reported at all: the model is driven with what the
        # resource reports (the reported declarations must still yield the document's in-scope bindings)
        import copy
        ctx.count('lxml: reported declarations differ from the attribute text (order / redundant redeclarations)')
        mdoc = copy.deepcopy(doc)
        for n in L.doc_nodes(mdoc):
            n['decl'] = trace['xmlns'].get(n['id'], [])

        def same_scopes(a, b, sa, sb):
            sa, sb = dict(sa), dict(sb)
            sa.update(map(tuple, a['decl']))
            sb.update(map(tuple, b['decl']))
            return {k: v for k, v in sa.items() if v} == {k: v for k, v in sb.items() if v} and \
                all(same_scopes(x, y, sa, sb) for x, y in zip(a['ch'], b['ch']))
        if not same_scopes(doc, mdoc, {}, {}):
            ctx.mismatch('in-scope bindings from the declarations lxml reports', case,
                         [n['decl'] for n in L.doc_nodes(mdoc)], [n['decl'] for n in L.doc_nodes(doc)])
        plain = L.driver_tree(mdoc)
        case = dict(case, doc=plain)
    elif differs:
        ctx.mismatch('xmlns declarations reported by the resource', case,
                     [trace['xmlns'].get(n['id']) for n in L.doc_nodes(doc)], [n['decl'] for n in L.doc_nodes(doc)])
    ctx.case(case, nt, tag=f'{mode}/{conv}')
    ctx.count('parser:' + case['parser'])
    ctx.count('origin:' + origin)
    ctx.count('user map:' + ('none' if not user else 'default' if any(p == '' for p, _ in user) else 'prefixed'))
    tie = eval_doc(ctx, case, mdoc, conv, mode, data, errors, trace)
    if drv is not None:
        prune = converters()[conv][3]
        reqs.append({'op': 'doc', 'variant': variant, 'mode': mode, 'user': user, 'tree': plain,
                     'prune': bool(prune), 'arule': ARULE})
        pend.append((case, mdoc, trace, data if not errors else None))
        if tie is not None and any(c['level'] == 0 for c in tie['etrace']['calls'][1:]):
            # XsdAnyElement.raw_encode probed an item at level 0 (wildcards.py:606, C17-F11): not in the model
            ctx.count('encode run not compared (level-0 probe call of a wildcard match)')
            tie = None
        if tie is not None:
            order_like_real(tie['item'], tie['etrace']['calls'])
            ereqs.append({'op': 'enc', 'variant': variant, 'mode': mode, 'item': tie['item'], 'tab': tie['tab'],
                          'ns': tie['etrace']['init']['ns'], 'rev': tie['etrace']['init']['rev']})
            epend.append((case, tie))


# ------------------------------------------------------------------------------------------------
# mapper operation scripts
def gen_script(rng) -> dict:
    pool_p = L.PREFIXES + ['', 'default', 'p0', 'p9']
    pool_u = L.URIS + ['']
    ns: dict = {}
    for _ in range(rng.choice([0, 1, 2, 3, 4])):
        ns[rng.choice(pool_p)] = rng.choice(L.URIS)
    mode = rng.choice(['stacked', 'stacked', 'collapsed', 'root-only', 'none'])
    ops: list = []
    level = 0
    nobj = 0
    path: list = []          # objects on the current root->node path (disciplined walk)
    for _ in range(rng.choice([3, 6, 10, 16])):
        r = rng.random()
        if r < 0.45:
            decl: dict = {}
            for _ in range(rng.choice([0, 1, 1, 2, 3])):
                p = rng.choice(pool_p[:5])
                decl[p] = rng.choice(pool_u if p == '' else L.URIS)
            move = rng.random()
            if move < 0.5 or not path:          # descend to a new child
                nobj += 1
                path.append(nobj)
            elif move < 0.7:                    # revisit the current node (purge call)
                pass
            elif move < 0.9:                    # next sibling
                path.pop()
                nobj += 1
                path.append(nobj)
            else:                               # jump up
                del path[rng.randrange(len(path)):]
                nobj += 1
                path.append(nobj)
            lvl = len(path) - 1 if rng.random() < 0.9 else rng.randrange(0, 5)
            ops.append({'k': 'ctx', 'obj': path[-1], 'level': lvl, 'decl': [[k, v] for k, v in decl.items()]})
        elif r < 0.55:
            ops.append({'k': 'set', 'p': rng.choice(pool_p), 'u': rng.choice(L.URIS)})
        elif r < 0.62:
            ops.append({'k': 'del', 'p': rng.choice(pool_p)})
        elif r < 0.76:
            ops.append({'k': 'map', 'q': [rng.choice(pool_u + ['uX']), rng.choice(L.LOCALS)]})
        elif r < 0.82:
            ops.append({'k': 'mapattr', 'q': [rng.choice(pool_u + ['uX']), rng.choice(L.LOCALS)], 'arule': ARULE})
        else:
            t = rng.choice(['loc', 'pre', 'pre', 'braced'])
            n = {'t': t, 'l': rng.choice(L.LOCALS)}
            if t == 'pre':
                n['p'] = rng.choice(pool_p[:3] + ['zz', 'p0'])
            if t == 'braced':
                n['u'] = rng.choice(L.URIS)
            x = [[rng.choice(pool_p[:4]), rng.choice(pool_u)]] if rng.random() < 0.3 else []
            ops.append({'k': 'unmap', 'n': n, 'xmlns': x, 'tab': rng.random() < 0.3})
    c = rng.random()
    cfg = {'process': True, 'strip': False} if c < 0.85 else {'process': False, 'strip': False} if c < 0.93 else \
        {'process': True, 'strip': True}
    return {'ns': [[k, v] for k, v in ns.items()], 'mode': mode, 'ops': ops, 'cfg': cfg}


def eval_script(ctx: Ctx, case: dict, real: dict) -> None:
    """the property at mapper level: after every step, each URI that has a prefix maps to a prefixed name that
    resolves back to it through the namespaces in force (names survive prefix mapping)."""
    states = [real['init']] + real['steps']
    for i in range(1, len(states)):
        st = states[i]
        ns, rev = dict(map(tuple, st['ns'])), dict(map(tuple, st['rev']))
        for uri in set(ns.values()):
            if not uri or uri not in rev:
                continue
            if ns.get(rev[uri]) != uri:
                op = case['ops'][i - 1]
                prev = st.get('after_pop') or dict(map(tuple, states[i - 1]['ns']))
                cause = None
                if op['k'] == 'set' and prev.get(op['p']) == uri and op['u'] != uri:
                    cause = 'setitem-rebind'
                elif op['k'] == 'ctx' and case['mode'] == 'stacked':
                    lost = [p for p, u in op['decl'] if prev.get(p) == uri and u != uri]
                    if len(lost) >= 2 and rev[uri] in lost:
                        cause = 'ctx-double-rebind'
                # a stale record may also persist from an earlier step: attribute it to that step
                j = i - 1
                while cause is None and j >= 1:
                    pst = states[j]
                    pns, prv = dict(map(tuple, pst['ns'])), dict(map(tuple, pst['rev']))
                    if uri in prv and prv[uri] == rev[uri] and pns.get(prv[uri]) != uri:
                        opj = case['ops'][j - 1]
                        pp = pst.get('after_pop') or dict(map(tuple, states[j - 1]['ns']))
                        if opj['k'] == 'set' and pp.get(opj['p']) == uri and opj['u'] != uri:
                            cause = 'setitem-rebind'
                        elif opj['k'] == 'ctx' and case['mode'] == 'stacked':
                            lost = [p for p, u in opj['decl'] if pp.get(p) == uri and u != uri]
                            if len(lost) >= 2 and rev[uri] in lost:
                                cause = 'ctx-double-rebind'
                    j -= 1
                detail = {'kind': 'script', 'step': i - 1, 'uri': uri, 'recorded_prefix': rev[uri],
                          'bound_to': ns.get(rev[uri]), 'cause': cause, 'state': st}
                fid = known_match(case, detail)
                if fid:
                    ctx.known_hit(fid)
                    ctx.count('known:' + fid + ' (script)')
                else:
                    ctx.failure('a namespace that has a prefix is mapped to a prefix bound to another namespace',
                                case, detail)
                return


def scripts(ctx: Ctx, drv: Optional[Driver], variant: str) -> None:
    rng = ctx.rng
    n = ctx.pick(5000, 60000)
    reqs, pend = [], []
    setrep = not setitem_stale()
    fixed = [dict(F2_WITNESS, mode='stacked'), dict(F5_WITNESS, mode='none'), dict(F7_WITNESS, mode='none', ops=[dict(o, arule=ARULE) for o in F7_WITNESS['ops']])]
    for i in range(n + len(fixed)):
        case = fixed[i] if i < len(fixed) else gen_script(rng)
        try:
            real = run_script(case['ns'], case['mode'], case['ops'], case.get('cfg'))
        except Exception as e:  # noqa
            ctx.failure('mapper operation raised', case, {'kind': 'script', 'exception': repr(e)[:300]})
            continue
        nt = any(o['k'] in ('set', 'del') for o in case['ops']) or any(
            len(a['stack']) > len(b['stack']) for a, b in zip([real['init']] + real['steps'], real['steps']))
        ctx.case(case, nt, tag='script/' + case['mode'])
        for o in case['ops']:
            ctx.count('op:' + o['k'])
        cfg = case.get('cfg') or {}
        ctx.count('cfg:' + ('strip' if cfg.get('strip') else 'noprocess' if cfg.get('process') is False else 'namespaces'))
        eval_script(ctx, case, real)
        if drv is not None:
            ops = [dict(o, setrep=setrep) if o['k'] == 'set' else o for o in case['ops']]
            reqs.append({'op': 'ops', 'variant': variant, 'mode': case['mode'], 'ns': case['ns'], 'ops': ops,
                         'process': cfg.get('process', True), 'strip': cfg.get('strip', False)})
            pend.append((case, real))
    if drv is not None:
        for (case, real), m in zip(pend, drv.query(reqs)):
            ctx.traces += 1
            if 'err' in m:
                ctx.mismatch('driver error (script)', case, None, m)
                continue
            if any(s.get('fuel') for s in m['steps']):
                ctx.count('model fuel exhausted')
                continue
            if m['init'] != real['init']:
                ctx.mismatch('initial maps (reverse construction)', case, real['init'], m['init'])
                continue
            for k, (a, b) in enumerate(zip(real['steps'], m['steps'])):
                bb = {f: b[f] for f in ('ns', 'rev', 'stack', 'ret')}
                a = {f: a[f] for f in ('ns', 'rev', 'stack', 'ret')}
                if a != bb:
                    ctx.mismatch(f"operation {case['ops'][k]['k']} (step {k})", case, a, bb)
                    break


def merges(ctx: Ctx, drv: Optional[Driver]) -> None:
    """update_namespaces (initial collapsed merge of root declarations) against the model"""
    from xmlschema.utils.qnames import update_namespaces
    rng = ctx.rng
    reqs, pend = [], []
    pool_p = L.PREFIXES + ['', 'default', 'default0', 'p0', 'p9', 'p09']
    for _ in range(ctx.pick(2000, 20000)):
        ns: dict = {}
        for _ in range(rng.choice([0, 1, 2, 3, 5])):
            ns[rng.choice(pool_p)] = rng.choice(L.URIS)
        xm = [[rng.choice(pool_p), rng.choice(L.URIS + [''])] for _ in range(rng.choice([1, 2, 3, 4]))]
        root = rng.random() < 0.5
        real = dict(ns)
        update_namespaces(real, [tuple(x) for x in xm], root)
        case = {'ns': [[k, v] for k, v in ns.items()], 'xmlns': xm, 'root': root}
        ctx.case(case, len(real) > len(ns), tag='merge')
        # generated prefixes never overwrite: every previous binding is kept
        if any(real.get(k) != v for k, v in ns.items()):
            ctx.failure('update_namespaces changed an existing binding', case, {'kind': 'merge', 'result': real})
        reqs.append(dict(case, op='merge', variant='pinned', mode='collapsed'))
        pend.append((case, [[k, v] for k, v in real.items()]))
    if drv is not None:
        for (case, real), m in zip(pend, drv.query(reqs)):
            ctx.traces += 1
            if m.get('fuel'):
                ctx.count('model fuel exhausted')
            elif m.get('ns') != real:
                ctx.mismatch('update_namespaces', case, real, m.get('ns'))


def run(ctx: Ctx, driver_ok: bool) -> None:
    drv = Driver('drv_c17') if driver_ok else None
    global ARULE
    variant = detect_variant()
    ARULE = detect_attr_rule()
    ctx.extra['repointing_variant_detected'] = variant
    ctx.extra['setitem_stale'] = setitem_stale()
    ctx.extra['attribute_rule_detected'] = ARULE
    ctx.known = ctx.known + load_local_findings()
    if variant != 'repaired' or setitem_stale():
        # C17-F2 / C17-F5 are fixed: a tree that shows the pre-fix behaviour is a violation
        w = F2_WITNESS if variant != 'repaired' else F5_WITNESS
        ctx.failure('the stale reverse-map defect fixed by b20c29d is back', dict(w, mode='stacked' if variant != 'repaired' else 'none'),
                    {'kind': 'script', 'variant': variant, 'setitem_stale': setitem_stale()})
    replay_counterexamples(ctx)
    documents(ctx, drv, variant)
    scripts(ctx, drv, variant)
    merges(ctx, drv)
    if ctx.failures:
        kinds: dict = {}
        for f in ctx.failures:
            key = f"{f['what'][:70]} | {f['case'].get('mode')} | {f['case'].get('converter')}"
            kinds[key] = kinds.get(key, 0) + 1
        ctx.extra['failure_kinds'] = kinds
        ctx.extra['failure_inputs'] = [{'xml': f['case'].get('xml'), 'user': f['case'].get('user'), 'mode': f['case'].get('mode'),
                                        'converter': f['case'].get('converter'), 'ops': f['case'].get('ops'),
                                        'detail': json.loads(json.dumps(f['detail'], default=str))} for f in ctx.failures[:6]]
    ctx.extra['explanation'] = ('documents: directed + seeded generated (40% with wildcard-matched element / attribute names), '
                                'every xmlns_processing mode that keeps namespaces, all converters of xmlschema/converters + '
                                'DataElementConverter, ElementTree and lxml sources; decoded data tree and element_encode runs '
                                'compared with the model; scripts: seeded operation sequences on a converter used as a bare '
                                'mapper (incl. process_namespaces / strip_namespaces, map_attributes); merges: update_namespaces')


def replay_counterexamples(ctx: Ctx) -> None:
    """the Lean `_counterexample` witnesses, replayed on the real code: they must (still) fail exactly as proved,
    or the corresponding finding is fixed and the witness must be gone"""
    import xmlschema
    sch = L.schema()
    # decoded_attrs_counterexample / roundtrip_attr_counterexample (C17-F7)
    d = sch.decode('<a xmlns="u1" xmlns:p="u1" p:x="v"/>', validation='lax', preserve_root=True)[0]
    ctx.extra['replayed:decoded_attrs_counterexample'] = sorted(k for k in d['a'] if not k.startswith('@xmlns'))
    if ARULE == 'current' and '@x' not in d['a']:
        ctx.mismatch('Lean witness decoded_attrs_counterexample does not replay', {'xml': 'F7'}, d, '@x')
    # flat_names_counterexample (C17-F4)
    d = sch.decode('<a xmlns="u1"><a xmlns=""><b/></a></a>', validation='lax', preserve_root=True,
                   xmlns_processing='collapsed')[0]
    ctx.extra['replayed:flat_names_counterexample'] = json.dumps(d)
    if d != {'a': {'@xmlns': 'u1', 'a': [{'b': [None]}]}}:
        ctx.mismatch('Lean witness flat_names_counterexample does not replay', {'xml': 'F4'}, d, None)
    # unmap_map_attr_counterexample / encode_decode_names_counterexample (C17-F9)
    d = sch.decode('<a xmlns="u1" z="v"/>', validation='lax', preserve_root=True)[0]
    e = sch.encode(d, validation='lax', preserve_root=True, path='{u1}a')[0]
    ctx.extra['replayed:encode_decode_names_counterexample'] = {'data': json.dumps(d), 'encoded_attrs': sorted(e.attrib)}
    if sorted(e.attrib) == ['{u1}z']:
        ctx.known_hit('C17-F9', {'xml': '<a xmlns="u1" z="v"/>', 'mode': 'stacked', 'converter': 'default'})
    elif sorted(e.attrib) != ['z']:
        ctx.mismatch('Lean witness encode_decode_names_counterexample does not replay', {'xml': 'F9'}, sorted(e.attrib), ['{u1}z'])


def load_local_findings() -> list:
    from harness.core import VERIF
    p = VERIF / 'notes' / 'findings' / 'C17.json'
    if not p.exists():
        return []
    data = json.loads(p.read_text())
    return [e for e in data.get('findings', []) if e.get('property') == 'C17']


def search(ctx: Ctx) -> None:
    """a tie broke and nothing failed yet: evaluate the property on the thorough family (no driver)"""
    if ctx.quick():
        saved = ctx.tier
        ctx.tier = 'thorough'
        try:
            v = detect_variant()
            documents(ctx, None, v)
            scripts(ctx, None, v)
        finally:
            ctx.tier = saved


def replay(ctx: Ctx, obj: dict) -> int:
    print(json.dumps(obj, indent=1, default=str)[:6000])
    case = obj.get('input')
    if not case:
        return 0
    drv = None
    try:
        drv = Driver('drv_c17')
        drv.query([{'op': 'merge', 'variant': 'pinned', 'mode': 'collapsed', 'ns': [], 'xmlns': [], 'root': True}])
    except Exception:  # noqa
        drv = None
    global ARULE
    variant = detect_variant()
    ARULE = detect_attr_rule()
    ctx.known = ctx.known + load_local_findings()
    if 'xml' in case and 'doc' in case:
        doc = case['doc']
        doc = parse_doc(case['xml']) if 'pfx' not in doc else doc
        L.assign_ids(doc)
        conv = case['converter']
        data, errors, trace = decode_real(doc, case['xml'], case.get('user') or [], case['mode'], conv,
                                          case.get('parser') == 'lxml')
        print('REAL decoded data :', json.dumps(data, default=str))
        tie = eval_doc(ctx, case, doc, conv, case['mode'], data, errors, trace)
        if drv is not None:
            m = drv.query([{'op': 'doc', 'variant': variant, 'mode': case['mode'], 'user': case.get('user') or [],
                            'tree': L.driver_tree(doc), 'prune': bool(converters()[conv][3]), 'arule': ARULE}])[0]
            print('MODEL keys        :', [(o['id'], o['key'], o['attrs']) for o in m.get('obs', [])])
            compare_doc(ctx, case, doc, trace, m, data if not errors else None)
            if tie is not None:
                me = drv.query([{'op': 'enc', 'variant': variant, 'mode': case['mode'], 'item': tie['item'], 'tab': tie['tab'],
                                 'ns': tie['etrace']['init']['ns'], 'rev': tie['etrace']['init']['rev']}])[0]
                print('MODEL encoded     :', canon_from_obs(me.get('obs', [])))
                compare_enc(ctx, case, tie, me)
    elif 'ops' in case:
        real = run_script(case['ns'], case['mode'], case['ops'], case.get('cfg'))
        print('REAL  :', json.dumps(real['steps']))
        eval_script(ctx, case, real)
        if drv is not None:
            cfg = case.get('cfg') or {}
            m = drv.query([{'op': 'ops', 'variant': variant, 'mode': case['mode'], 'ns': case['ns'], 'ops': case['ops'],
                            'process': cfg.get('process', True), 'strip': cfg.get('strip', False)}])[0]
            print('MODEL :', json.dumps(m.get('steps')))
    for f in ctx.failures:
        print('FAILS ON THE REAL CODE:', f['what'], json.dumps(f['detail'], default=str)[:1500])
    for mm in ctx.mismatches:
        print('MODEL != IMPLEMENTATION:', mm['correspondence'], 'impl=', mm['impl'], 'model=', mm['model'])
    print('JUDGEMENT:', 'property violated' if ctx.failures else 'property holds on this input'
          + (f' (known findings re-confirmed: {ctx.known_hits})' if ctx.known_hits else ''))
    return 1 if ctx.failures else 0
