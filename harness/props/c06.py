"""
C06 — lazy (streaming) processing gives the same results as full loading.

Correspondence (implementation vs Lean model XsVerif/Model/Lazy.lean, driver drv_c06):
  * namespace maps assigned by the lazy loader and by the eager loader vs the ports of the two loops,
  * order / ancestors of the elements yielded by lazy `iter` (the loop of the library under check is detected:
    pinned = reversed post-order below the lazy depth, patched = document order), `iter_depth` (modes 1-5), `iterfind`,
    lazy depths 1-4 on documents deeper / as deep / shallower than the lazy depth,
  * the live tree of `iter_depth` (model ldStep / TB.clear, the port of `_clear`): at every yield the yielded element
    (must be the complete subtree), the siblings still in the tree before it, len(_nsmaps); after the iteration the
    tree that is left and len(_nsmaps); thin and not thin, modes 1-5, lazy depths 1-4,
  * the lazy error sequence at lazy depths 2-4 (errors that do not depend on document-wide tables) vs the model of the
    lazy driver at depth k,
  * identity constraints declared on the root whose selected nodes lie in both phases of lazy validation (selectors
    '.', depth-level, deeper, '|' and './/' mixes; key references in the other zone): duplicated / dangling values
    reported by the real lazy run vs the two-phase table model (collect / mergeTables), lazy depth 1; depths 2-3 explored,
  * the eager error sequence re-assembled by the compositional validator of the model from the per-element
    error segments measured on the real run, and the lazy error sequence predicted by the port of the lazy
    driver (chunks looked up statically, skip rule, root with depth cut, references last).
Property evaluation on the real code (independent of Lean): lazy result == eager result, literally
(errors with paths and order, decoded data, elements/text/namespaces); every difference must be explained by
a listed finding of status `known` with an exact rule, otherwise it is a failure.

Findings that were repaired in /repo have NO rule here (C06-F3 03cfe89, C06-F4 6d25df9, C06-F5 851aaad, C06-F6 32ac39b,
the validation side of C06-F10 c3a1309): the model and the predictions describe the repaired behaviour and a
recurrence is reported as a violation with the failing input.
"""
from __future__ import annotations

import json
import re
import types
from pathlib import Path
from typing import Any, Optional

from harness.core import Ctx, Driver, VERIF
from harness import lib_lazy as L

PROPS = 'XsVerif.Props.C06'
AUDIT = 'XsVerif.Audit.C06'
LEAN_TARGETS = ['XsVerif.Props.C06', 'drv_c06']
LEANCHECK = ['XsVerif.Model.Lazy', 'XsVerif.Model.LazyLive', 'XsVerif.Lemmas.Lazy', 'XsVerif.Lemmas.LazyLive',
             'XsVerif.Props.C06']
RULE = ('a case is one (generated schema, generated document, API, lazy depth, thin_lazy, read size); schemas have local '
        'declarations with repeated names, references, a substitution group, wildcard tails, xsi:type-extensible types, '
        'ID/IDREF and key/unique/keyref; documents are mostly valid with seeded defects and random namespace '
        'redeclarations; non-trivial = the document has depth >= 2 and at least one of: an error, a namespace '
        'declaration below the root, an identity constraint, a chunk that is not governed by its static declaration; '
        'distinct by canonical JSON of (schema, document, API parameters)')
TRUSTED = ['the event order delivered by ElementTree.iterparse (start-ns*, start, …, end, end-ns*) is assumed by the '
           'model; the harness feeds the real parser a few bytes at a time so that the real incremental behaviour is '
           'what is compared',
           'the abstract validator of the model is instantiated from error segments measured on the real eager run']
ASSUMPTIONS = ['the PROPERTY lazy == eager is claimed at lazy depth 1; at depths 2-4 it is explored (histogram explored-depth*), '
               'while the MODEL of the loops, of the pruning and of the lazy driver is compared with the real code at depths 1-4 '
               '(errors depending on ID/identity tables left out at depths >= 2; chunks under an intermediate element with own '
               'xmlns declarations are measured with the driver\'s own call)',
               'the live-tree model identifies objects by their place (open elements / last child), not by ids: `_clear` is '
               'called right after the end event of its element with the open elements as ancestors (proved for the list by '
               'iter_depth_spec); tied at every yield by the correspondence run',
               'compared up to spelling: namespace prefixes in error paths / messages, memory addresses in '
               'messages, and the order inside a block of dangling-IDREF errors (first-seen order of the ID table)',
               'decoded data: the lazily decoded skeleton with its placeholders filled by the streamed chunk values is '
               'compared with the eager value (when equally named chunks are grouped under several keys the placeholders '
               'cannot be aligned with the stream: then the shape of the skeleton and the multiset of chunk values are '
               'compared); xmlns pseudo-attributes at the root of a separately decoded chunk are not compared; prefixes of '
               'decoded names are compared (a difference is finding C06-F10)',
               'for documents with a chunk that is not governed by its static declaration (finding C06-F2) errors that depend '
               'on document-wide tables (ID/IDREF, identity constraints) are left out of the exact prediction; the errors of '
               'such a chunk are measured with the lazy driver\'s own call (context at level 1 on the document, own xmlns '
               'declarations pushed, raw_decode against the static declaration); paths are then compared as a multiset '
               'outside these chunks (buffered source)',
               'text of elements above the lazy depth is not compared at their start event (documented as incomplete)',
               'with a byte-wise streaming source, positional predicates of error paths are compared up to the siblings '
               'already parsed (a[1] may be spelled a when no later sibling exists yet)']

FINDINGS_FILE = VERIF / 'notes' / 'findings' / 'C06.json'
BIG = 10 ** 7


def load_findings() -> list[dict]:
    if FINDINGS_FILE.exists():
        return json.loads(FINDINGS_FILE.read_text()).get('findings', [])
    return []


_ITER_VARIANT: Optional[str] = None


def iter_variant() -> str:
    """Which lazy branch of XMLResource.iter does the library under check have?  'pinned': descendants of a
    depth-level element in reversed post-order (model `iterStep`, theorem iter_lazy_order_pinned, finding C06-F11);
    'patched': `yield from node.iter(tag)` (notes/fixes/C06-iter-document-order.patch; model `liStep`, theorem
    iter_lazy_order).  Decided on a fixed four-element document; every generated document is then compared with the
    model of the detected loop, and any order other than the detected loop's is a mismatch / failure."""
    global _ITER_VARIANT
    if _ITER_VARIANT is None:
        import io
        from xmlschema import XMLResource
        seq = [e.tag for e in XMLResource(io.BytesIO(b'<r><a><b/><c/></a></r>'), lazy=1).iter()]
        _ITER_VARIANT = 'patched' if seq == ['r', 'a', 'b', 'c'] else 'pinned'
    return _ITER_VARIANT


# ---------------------------------------------------------------------------------------------------
# helpers on the real code

def canon_err(e) -> tuple:
    r = re.sub(r' at 0x[0-9a-f]+', '', (e.reason or '').strip())
    r = re.sub(r"[Tt]ag '(\{[^}]*\}|[A-Za-z_][\w.-]*:)", "tag '", r)     # spelling of the namespace is not compared
    r = re.sub(r"'(\{[^}]*\}|[A-Za-z_][\w.-]*:)(?=[A-Za-z_][\w.-]*')", "'", r)
    return (type(e).__name__, r)


def norm_path(p: Optional[str]) -> Optional[str]:
    """prefix spelling is not part of the identity of a path (all generated elements share one namespace)"""
    return None if p is None else re.sub(r'(?<=/)[A-Za-z_][\w.-]*:', '', p)


def canon_seq(seq: list) -> list:
    """the order inside a block of dangling-IDREF errors is the first-seen order of the values in the ID table, i.e.
    the processing order: part of the order finding C06-F1, compared as a set"""
    out: list = []
    run: list = []
    for x in seq:
        if REF_ID.search(x[1]):
            run.append(tuple(x))
        else:
            out.extend(sorted(run))
            run = []
            out.append(tuple(x))
    out.extend(sorted(run))
    return out


def strip_pos(path: Optional[str]) -> Optional[str]:
    return None if path is None else re.sub(r'\[\d+\]', '', path)


def path_compatible(lazy_path: Optional[str], eager_path: Optional[str], streaming: bool) -> bool:
    lazy_path, eager_path = norm_path(lazy_path), norm_path(eager_path)
    if lazy_path == eager_path:
        return True
    if not streaming or lazy_path is None or eager_path is None:
        return False
    a, b = lazy_path.split('/'), eager_path.split('/')
    if len(a) != len(b):
        return False
    for x, y in zip(a, b):
        if x == y:
            continue
        # the lazy path may lack a position when later siblings were not parsed yet
        if '[' not in x and (y == x + '[1]'):
            continue
        return False
    return True


def bare_path(p: Optional[str]) -> str:
    """path without namespace spelling (prefixes, Clark braces)"""
    return re.sub(r'\{[^}]*\}', '', norm_path(p) or '')


def same_path_mod1(a: Optional[str], b: Optional[str]) -> bool:
    """equal paths up to namespace spelling and to an explicit [1]"""
    return re.sub(r'\[1\]', '', bare_path(a)) == re.sub(r'\[1\]', '', bare_path(b))


def thin_expected_path(tree: dict, eager_path: Optional[str]) -> Optional[str]:
    """Finding C06-F12: the path a THIN lazy resource (lazy depth 1) computes for an error that the loaded tree
    reports at `eager_path`.  When the k-th depth-1 element is processed, all the depth-1 elements before the
    (k-1)-th have been deleted from the root (xml_loader.py _clear: `del parent[:k]`), so the position of its step is
    counted among at most one preceding sibling: 1, or 2 when the immediately preceding depth-1 element has the same
    tag.  Deeper steps are unaffected."""
    parts = bare_path(eager_path).split('/')
    if len(parts) < 3:
        return None
    m = re.match(r'^(.*?)(?:\[(\d+)\])?$', parts[2])
    name, pos = m.group(1), int(m.group(2) or 1)
    loc = lambda t: t.split('}')[-1]  # noqa
    same = [k for k, c in enumerate(tree['cs']) if loc(c['tag']) == name]
    if pos > len(same):
        return None
    k = same[pos - 1]
    p = 1 if k == 0 else 1 + (1 if loc(tree['cs'][k - 1]['tag']) == name else 0)
    parts[2] = name if p == 1 else f'{name}[{p}]'
    return '/'.join(parts)


def py_lazy_order(tree: dict, d: int, lvl: int = 0) -> list:
    """python reading of `lazyOrder` (Model/Lazy.lean): document order above the lazy depth; an element of the lazy
    depth followed by its descendants in reversed post-order"""
    if lvl < d:
        out = [tree['id']]
        for c in tree['cs']:
            out.extend(py_lazy_order(c, d, lvl + 1))
        return out

    def post(t: dict) -> list:
        r = []
        for c in t['cs']:
            r.extend(post(c))
        return r + [t['id']]
    sub = []
    for c in tree['cs']:
        sub.extend(post(c))
    return [tree['id']] + sub[::-1]


class Eager:
    """everything measured on the fully loaded document"""

    def __init__(self, schema, xml: bytes):
        from xmlschema import XMLResource
        self.res = XMLResource(xml)
        self.tree, self.ids = L.doc_tree(self.res)
        self.flat = L.flat(self.tree)
        self.node = {i: n for i, _, _, n in self.flat}
        self.depth = {i: d for i, d, _, _ in self.flat}
        self.parent = {i: p for i, _, p, _ in self.flat}
        self.elem = {}
        for e in self.res.root.iter():
            if id(e) in self.ids:
                self.elem[self.ids[id(e)]] = e
        self.child_index = {}
        for i, _, _, n in self.flat:
            for k, c in enumerate(n['cs']):
                self.child_index[c['id']] = k
        self.visits: list[tuple[int, Any]] = []

        def hook(elem, xe):
            self.visits.append((self.ids.get(id(elem), -1), xe))
            return False
        self.errors = list(schema.iter_errors(self.res, validation_hook=hook))
        self.gov = {}
        for nid, xe in self.visits:
            self.gov[nid] = xe
        self.owner = [self.ids.get(id(e.elem), 0) if e.elem is not None else 0 for e in self.errors]
        self.paths = [e.path for e in self.errors]
        self.canon = [canon_err(e) for e in self.errors]
        self.canon_sorted = None

    def anc_at(self, nid: int, depth: int) -> int:
        while self.depth[nid] > depth:
            nid = self.parent[nid]
        return nid

    def in_subtree(self, nid: int, top: int) -> bool:
        while nid is not None:
            if nid == top:
                return True
            nid = self.parent[nid]
        return False


REF_K = re.compile(r'not found for Xsd(Key|Unique)')
REF_ID = re.compile(r"^IDREF .* not found in XML document")
ID_TABLE = re.compile(r"^IDREF .* not found in XML document|duplicated xs:ID value")
IDENT = re.compile(r"duplicated value|not found for Xsd|missing key field")
STATEFUL = re.compile(ID_TABLE.pattern + '|' + IDENT.pattern)   # errors that depend on document-wide tables


def chunk_errors_as(eg: Eager, elem, xsd_element, level: int = 1) -> list:
    """The errors the lazy driver collects for one depth-level element when it validates it against
    `xsd_element` (schemas.py:1364-1385 as it is now): a validation context at level 1 on the document, the
    element's OWN namespace declarations pushed (commit c3a1309; the declarations of deeper elements are pushed by
    their parent groups as in any run), XsdElement.raw_decode.  The context is fresh: errors that depend on
    document-wide tables (ID/IDREF, identity constraints) are not predicted by this function."""
    from xmlschema.namespaces import NamespaceMapper
    from xmlschema.validators.validation import ValidationContext
    from xmlschema.validators.exceptions import XMLSchemaStopValidation
    context = ValidationContext(source=eg.res, converter=NamespaceMapper(None, source=eg.res), level=level,
                                check_identities=True, use_defaults=True)
    context.converter.set_xmlns_context(elem, context.level)
    try:
        xsd_element.raw_decode(elem, 'lax', context)
    except XMLSchemaStopValidation:
        pass
    return [canon_err(e) for e in context.errors]


def nodes_at(tree: dict, k: int) -> list:
    level = [tree]
    for _ in range(k):
        level = [c for n in level for c in n['cs']]
    return level


def build_tables(eg: Eager, schema, static_of: dict, created_of: Optional[dict] = None, depth: int = 1) -> Optional[dict]:
    """error segments / governing declarations of the eager run as tables for the model; `depth` = lazy depth (the
    chunks are the elements at that depth)"""
    created_of = created_of or {}
    n = len(eg.errors)
    # trailing reference errors of the root
    tail = n
    while tail > 0 and eg.owner[tail - 1] == 0 and REF_ID.search(eg.canon[tail - 1][1]):
        tail -= 1
    idrefs = list(range(tail, n))
    ktail = tail
    while ktail > 0 and eg.owner[ktail - 1] == 0 and REF_K.search(eg.canon[ktail - 1][1]):
        ktail -= 1
    krefs = list(range(ktail, tail))
    decl_id: dict[int, int] = {}

    def did(xe) -> int:
        return decl_id.setdefault(id(xe), len(decl_id))
    if 0 not in eg.gov:
        return None
    root_decl = did(eg.gov[0])
    segs: dict[tuple, list] = {}
    last_child_with_err: dict[int, int] = {}     # node -> highest child index whose subtree already has an error
    for i in range(ktail):
        o = eg.owner[i]
        slot = last_child_with_err.get(o, -1) + 1
        segs.setdefault((did(eg.gov[o]) if o in eg.gov else 10 ** 6, o, slot), []).append(i)
        # register this error for all ancestors
        c = o
        while eg.parent[c] is not None:
            p = eg.parent[c]
            k = eg.child_index[c]
            if last_child_with_err.get(p, -1) < k:
                last_child_with_err[p] = k
            c = p
    govs = []
    for nid, xe in eg.gov.items():
        p = eg.parent.get(nid)
        if p is not None and p in eg.gov:
            govs.append([did(eg.gov[p]), p, eg.child_index[nid], did(xe)])
    static = []
    created = []
    alt_failed: list[int] = []
    table = list(eg.canon)
    seg_rows = [[d, o, s, idx] for (d, o, s), idx in segs.items()]
    nonlocal_chunks = []
    for c in nodes_at(eg.tree, depth):
        cid = c['id']
        s = static_of.get(cid)
        g = eg.gov.get(cid)
        if s is None and cid not in created_of:
            if g is not None:
                nonlocal_chunks.append(cid)     # the lazy driver skips the chunk, the eager run validated it
            continue
        # k >= 2: namespace declarations written on an element strictly between the root and the chunk are not in
        # scope when the chunk is validated alone (same root cause as C20-F3): such a chunk is measured, not predicted
        between_decl = False
        a = eg.parent.get(cid)
        while a is not None and a != 0:
            between_decl = between_decl or bool(eg.node[a]['decls'])
            a = eg.parent.get(a)
        if s is not None and s is g and not between_decl:
            static.append([cid, did(s)])
            continue
        # the lazy driver validates the chunk against another declaration than the eager run (the statically found
        # one, or an element created for its xsi:type): its errors are measured with the driver's own call
        nonlocal_chunks.append(cid)
        aid = 10 ** 6 + cid + 1
        try:
            alt_errs = chunk_errors_as(eg, eg.elem[cid], s if s is not None else created_of[cid], level=depth)
        except Exception:   # noqa  (the real lazy run will raise as well: nothing to predict)
            alt_errs = []
            alt_failed.append(cid)
        idxs = []
        for a in alt_errs:
            table.append(a)
            idxs.append(len(table) - 1)
        seg_rows.append([aid, cid, 0, idxs])
        (static if s is not None else created).append([cid, aid])
    return {'root': root_decl, 'segs': seg_rows, 'govs': govs, 'static': static, 'created': created,
            'krefs': krefs, 'idrefs': idrefs, 'table': table, 'nonlocal': nonlocal_chunks, 'ktail': ktail,
            'alt_failed': alt_failed}


def static_lookup(schema, eg: Eager, k: int = 1) -> tuple[dict, dict]:
    """what the lazy driver's `get_element(tag, '/root/*')` returns for every depth-1 element, and the element it
    creates for a depth-1 element without a match that carries xsi:type (schemas.py:1364-1367)"""
    from xmlschema.namespaces import NamespaceMapper
    namespaces = NamespaceMapper(None, source=eg.res).namespaces
    root = eg.res.root
    namespace = eg.res.namespace or namespaces.get('', '')
    try:
        sch = schema.get_schema(namespace)
    except KeyError:
        sch = schema
    out = {}
    created = {}
    for c in nodes_at(eg.tree, k):
        e = eg.elem[c['id']]
        xe = sch.get_element(e.tag, f"/{root.tag}/{'/'.join('*' * k)}", namespaces)
        out[c['id']] = xe
        if xe is None and ('{%s}type' % L.XSI) in e.attrib:
            created[c['id']] = schema.builders.create_element(e.tag, schema)
    return out, created


def lazy_errors(schema, xml: bytes, depth: int, n: int):
    from xmlschema import XMLResource
    res = XMLResource(L.Slow(xml, n), lazy=depth)
    return [(e.path, canon_err(e)) for e in schema.iter_errors(res)]


def stable_partition_prediction(eg: Eager, tb: dict) -> list[int]:
    """python reading of the order law (used when the driver is unavailable and for the known-finding rule)"""
    deep, shallow = [], []
    nonlocal_set = set(tb['nonlocal'])
    for i in range(tb['ktail']):
        o = eg.owner[i]
        if o == 0:
            shallow.append(i)
        else:
            chunk = eg.anc_at(o, 1)
            if chunk in nonlocal_set:
                continue
            deep.append((chunk, i))
    out: list[int] = []
    alt = {row[1]: row[3] for row in tb['segs'] if row[0] >= 10 ** 6 + 1 and row[0] != 10 ** 6}
    by_chunk: dict[int, list] = {}
    for ch, i in deep:
        by_chunk.setdefault(ch, []).append(i)
    for c in eg.tree['cs']:
        cid = c['id']
        if cid in nonlocal_set:
            out.extend(alt.get(cid, []))
        else:
            out.extend(by_chunk.get(cid, []))
    return out + shallow + tb['idrefs'] + tb['krefs']


def known_match(case: dict, detail: dict) -> Optional[str]:
    """Exact rules of the listed findings of status `known` (see notes/findings/C06.json).  Repaired findings
    (F3, F4, F5, F6, validation side of F10) have no rule: whatever looked like them is a failure."""
    kind = detail.get('kind')
    if kind == 'order':          # same multiset, same paths, order == the proved stable partition
        return 'C06-F1' if detail.get('observed') == detail.get('law') and not detail.get('nonlocal') else None
    if kind == 'lost':           # errors differ exactly as the lazy driver's static lookup predicts
        return 'C06-F2' if detail.get('observed') == detail.get('law') and detail.get('nonlocal') else None
    if kind == 'root-id':        # an xs:ID value of the root repeated below: which of the two is "duplicated" (order)
        return 'C06-F1' if detail.get('root_id_repeated') and detail.get('same_multiset') and not detail.get('nonlocal') else None
    if kind == 'decode-refs':    # two ID/identity tables: root skeleton vs streamed chunks
        return 'C06-F8' if detail.get('two_tables') else None
    if kind == 'iterfind-stream':  # named path deeper than the lazy depth on an incrementally delivered document
        return 'C06-F7' if (detail.get('subsequence') and detail.get('buffered_ok') and detail.get('deeper')) else None
    if kind == 'identity-stream':  # identity constraints on a streamed document
        return 'C06-F9' if detail.get('only_identity') else None
    if kind == 'decode-holes':   # placeholders and streamed chunks misaligned only for non-XsdElement chunks
        return 'C06-F2' if detail.get('nonlocal') else None
    if kind == 'iter-order':     # same elements, each once; order == the proved lazyOrder (reversed post-order inside a chunk)
        return 'C06-F11' if detail.get('same_multiset') and detail.get('order_is_lazyOrder') else None
    if kind == 'thin-path':      # thin lazy resource: position of the depth-1 step counted after the deletion of siblings
        return 'C06-F12' if detail.get('thin') and detail.get('path_is_thin_prediction') else None
    if kind == 'identity-merge':   # a key/unique value counted once in the root pass and once in the chunks: not reported
        return 'C06-F13' if detail.get('only_cross_duplicates') else None
    if kind == 'decode-prefixes':  # chunk values equal up to the prefixes of names, only for chunks with own declarations
        return 'C06-F10' if (detail.get('chunks_with_declarations') and detail.get('same_skeleton') and
                             detail.get('equal_up_to_prefixes') and
                             0 < detail.get('differing_values', 0) <= detail.get('chunks_with_declarations')) else None
    return None


# ---------------------------------------------------------------------------------------------------
# checks

def check_ns_iter(ctx: Ctx, spec, marked: bytes, reqs: list, pend: list, case_base: dict) -> None:
    """an exception while observing a lazy resource (e.g. a pruned placeholder without its attributes) is a failing
    input, not a crash of the check; the request/pending lists stay paired"""
    nr, npd = len(reqs), len(pend)
    try:
        _check_ns_iter(ctx, spec, marked, reqs, pend, case_base)
    except Exception as ex:  # noqa
        import traceback
        k = min(len(reqs) - nr, len(pend) - npd)
        del reqs[nr + k:]
        del pend[npd + k:]
        ctx.failure('observing the lazy resource (iteration / live tree) raised', dict(case_base, api='observe-lazy'),
                    {'exception': repr(ex), 'where': traceback.format_exc()[-600:]})


def live_payload(e) -> list:
    """what `_clear` must keep of every element that stays in the tree: attributes, text (tail: see caller)"""
    return [dict(e.attrib), e.text or '']


def _check_ns_iter(ctx: Ctx, spec, marked: bytes, reqs: list, pend: list, case_base: dict) -> None:
    from xmlschema import XMLResource
    res = XMLResource(marked)
    tree, ids = L.doc_tree(res)
    flat = L.flat(tree)
    nid_of = lambda e: int(e.attrib['n'])  # noqa
    scope = L.in_scope(tree)
    eager_ns = {nid_of(e): dict(res.get_nsmap(e)) for e in res.root.iter()}
    eager_txt = {nid_of(e): ((e.text or ''), len(e)) for e in res.root.iter()}
    eager_pay = {nid_of(e): live_payload(e) + [e.tail or ''] for e in res.root.iter()}
    has_inner_decl = any(n['decls'] for i, d, p, n in flat if d > 0)
    depth_max = max(d for _, d, _, _ in flat)
    # --- namespaces: lazy loader
    case = dict(case_base, api='nsmap')
    lres = XMLResource(L.Slow(marked, 7), lazy=1)
    lazy_ns = {}
    for e in lres.iter():
        lazy_ns[nid_of(e)] = dict(lres.get_nsmap(e))
    ctx.case(case, has_inner_decl, 'api:nsmap')
    if set(lazy_ns) != set(scope):
        ctx.failure('lazy iter does not yield every element exactly once', case,
                    {'yielded': sorted(lazy_ns), 'expected': sorted(scope)})
    want = {i: scope[i] for i in lazy_ns}
    if lazy_ns != want:
        ctx.failure('in-scope namespaces of a lazy resource differ from the declarations in scope', case,
                    {'lazy': lazy_ns, 'xml-reading': want})
    # lazy maps == eager maps is decided in `compare` (with the model's reading when the driver is available)
    reqs.append({'op': 'ns', 'tree': tree})
    pend.append(('ns', case, eager_ns, lazy_ns))
    ctx.count('nsdecl-below-root:%s' % has_inner_decl)
    # --- iter / iter_depth / iterfind
    tags = sorted({n['tag'] for _, _, _, n in flat})
    for d in (1, 2, 3, 4):
        ctx.count('depth-vs-document:%s' % ('deeper-doc' if depth_max > d else 'exact' if depth_max == d else 'shallower-doc'))
        for thin in (True, False):
            for nbytes in (BIG, 5):
                if ctx.quick() and (thin, nbytes) in ((False, BIG),):
                    continue
                tag = ctx.rng.choice([None, None, ctx.rng.choice(tags)])
                case = dict(case_base, api='iter', depth=d, thin=thin, read=nbytes, tag=tag)
                lres = XMLResource(L.Slow(marked, nbytes), lazy=d, thin_lazy=thin)
                seq = []
                obs = {}
                try:
                    for e in lres.iter(tag):
                        k = nid_of(e)
                        seq.append(k)
                        obs[k] = ((e.text or ''), len(e), dict(lres.get_nsmap(e) or {}))
                except Exception as ex:  # noqa
                    ctx.failure('lazy iter raised', case, repr(ex))
                    continue
                ctx.case(case, depth_max >= 2, 'api:iter')
                expected_ids = sorted(i for i, _, _, n in flat if tag is None or n['tag'] == tag)
                if sorted(seq) != expected_ids:
                    ctx.failure('lazy iter does not yield every element exactly once', case,
                                {'yielded': seq, 'expected(sorted)': expected_ids})
                elif seq != expected_ids:
                    # the loaded tree iterates in document order (= preorder ids): the lazy order differs (C06-F11)
                    keep = set(expected_ids)
                    detail = {'kind': 'iter-order', 'same_multiset': True, 'lazy': seq, 'document order': expected_ids,
                              'order_is_lazyOrder': seq == [i for i in py_lazy_order(tree, d) if i in keep]}
                    fid = known_match(case, detail)
                    if fid:
                        ctx.known_hit(fid)
                    else:
                        ctx.failure('lazy iter yields the elements in another order than the loaded tree', case, detail)
                else:
                    ctx.count('iter:document-order')
                for k, (txt, nch, ns) in obs.items():
                    dk = next(dd for i, dd, _, _ in flat if i == k)
                    if ns != scope[k]:
                        ctx.failure('namespace map of an element yielded by lazy iter differs from the declarations in scope',
                                    case, {'node': k, 'got': ns, 'want': scope[k]})
                        break
                    if dk >= d and (txt, nch) != eager_txt[k]:
                        ctx.failure('a full element yielded by lazy iter differs (text/children) from the loaded tree',
                                    case, {'node': k, 'got': (txt, nch), 'want': eager_txt[k]})
                        break
                r = {'op': 'iter' if iter_variant() == 'pinned' else 'iterdoc', 'tree': tree, 'd': d, 'thin': thin}
                if tag is not None:
                    r['tag'] = tag
                reqs.append(r)
                pend.append(('iter', case, seq))
        # --- the live tree at every yield of iter_depth: complete elements, remaining siblings, size of _nsmaps,
        #     and the tree that is left when the iteration is over (model: ldStep / TB.clear)
        for mode, thin in ((2, True), (2, False), (4, True), (1, True), (5, False), (3, True)):
            if ctx.quick() and (mode, thin) in ((1, True), (5, False), (3, True)) and ctx.rng.random() < 0.6:
                continue
            case = dict(case_base, api='iter_depth-live', depth=d, mode=mode, thin=thin)
            lres = XMLResource(L.Slow(marked, 5), lazy=d, thin_lazy=thin)
            anc = []
            ys = []
            bad_payload = None
            final_pay = None
            final = []

            def payload_lost(elems, e):
                # the elements still in the tree around the yielded one (pruned placeholders among them: preceding
                # siblings, ancestors) keep their attributes and text - identity fields of a node checked later in
                # the root pass read them (`stub` keeps the node's payload: stub_keeps_payload, clear_keeps_payload)
                for x in elems:
                    i = int(x.attrib.get('n', -1))
                    if i < 0 or live_payload(x) != eager_pay[i][:2]:
                        return {'at yield of': e.attrib.get('n'), 'tag': x.tag, 'got': live_payload(x),
                                'loaded tree': eager_pay.get(i, 'no attribute n: attributes lost')}
                return None
            try:
                for e in lres.iter_depth(mode, anc):
                    if bad_payload is not None:
                        break
                    if e is not lres.root and anc:
                        kids = list(anc[-1])
                        bad_payload = payload_lost(list(anc) + kids[:kids.index(e)], e)
                        if bad_payload is not None:
                            break
                    if e is lres.root or not anc:
                        inner = []
                    else:
                        inner = [nid_of(x) for x in kids[:kids.index(e)]]
                    ys.append([[nid_of(x) for x in e.iter()], inner, len(lres._nsmaps)])
                final_pay = [[x.tag] + live_payload(x) + [x.tail or ''] for x in lres.root.iter()]
                final = [nid_of(x) for x in lres.root.iter()]
            except Exception as ex:  # noqa
                if bad_payload is None and final_pay is None:
                    ctx.failure('iter_depth raised', case, repr(ex))
                    continue
            if bad_payload is None and final_pay is not None:
                for tg, at, tx, tl in final_pay:
                    i = int(at.get('n', -1))
                    if i < 0 or [at, tx] != eager_pay[i][:2] or (i != 0 and tl != eager_pay[i][2]):
                        bad_payload = {'after the iteration': True, 'tag': tg, 'got': [at, tx, tl],
                                       'loaded tree': eager_pay.get(i, 'no attribute n: attributes lost')}
                        break
            ctx.count('live-payload:%s' % ('kept' if bad_payload is None else 'lost'))
            if bad_payload is not None:
                ctx.failure('an element left in the live tree of a lazy resource (pruned placeholder / ancestor) lost '
                            'attributes, text or tail', case, bad_payload)
                continue
            ctx.case(case, depth_max >= 2, 'api:iter_depth-live')
            by_id = {i: n for i, _, _, n in flat}
            full_ids = lambda n: [n['id']] + [x for c in n['cs'] for x in full_ids(c)]  # noqa
            for el, _, _ in ys:
                if mode != 5 and el and el[0] != 0 and el != full_ids(by_id[el[0]]):
                    ctx.failure('an element yielded by iter_depth is not the complete subtree of the document', case,
                                {'yielded': el, 'document': full_ids(by_id[el[0]])})
                    break
            reqs.append({'op': 'live', 'tree': tree, 'd': d, 'mode': mode, 'thin': thin})
            pend.append(('live', case, {'yields': ys, 'final': final, 'nkeys': len(lres._nsmaps)}))
        for mode in (1, 2, 3, 4, 5):
            case = dict(case_base, api='iter_depth', depth=d, mode=mode)
            lres = XMLResource(L.Slow(marked, 5), lazy=d)
            anc: list = []
            seq = []
            for e in lres.iter_depth(mode, anc):
                seq.append([nid_of(e), [nid_of(a) for a in anc]])
            ctx.case(case, depth_max >= 2, 'api:iter_depth')
            at_depth = [i for i, dd, _, _ in flat if dd == d]
            got = [x[0] for x in seq if x[0] != 0]
            if mode != 3 and got != at_depth:
                ctx.failure('iter_depth does not yield the elements of the lazy depth in document order', case,
                            {'got': got, 'want': at_depth})
            reqs.append({'op': 'iterdepth', 'tree': tree, 'd': d, 'mode': mode})
            pend.append(('iterdepth', case, seq))
        for pd in (d, d + 1):
            path = '/'.join('*' * pd)
            for thin in (True, False):
                case = dict(case_base, api='iterfind', depth=d, path=path, thin=thin)
                lres = XMLResource(L.Slow(marked, 5), lazy=d, thin_lazy=thin)
                anc = []
                seq = [[nid_of(e), [nid_of(a) for a in anc]] for e in lres.iterfind(path, ancestors=anc)]
                eager_sel = [nid_of(e) for e in res.iterfind(path)]
                ctx.case(case, depth_max >= 2, 'api:iterfind')
                if [x[0] for x in seq] != eager_sel:
                    ctx.failure('lazy iterfind selects other elements than the loaded tree', case,
                                {'lazy': seq, 'eager': eager_sel})
                reqs.append({'op': 'iterfind', 'tree': tree, 'pd': pd})
                pend.append(('iterfind', case, seq))
    # named paths: python-only property evaluation
    for _ in range(3):
        i, dd, _, n = ctx.rng.choice(flat)
        if dd == 0:
            continue
        steps = []
        k = i
        par = {a: p for a, _, p, _ in flat}
        nodes = {a: nn for a, _, _, nn in flat}
        while par[k] is not None:
            steps.append(nodes[k]['tag'])
            k = par[k]
        path = '/'.join(reversed(steps))
        for d in (1, 2):
            if dd < d:
                continue
            case = dict(case_base, api='iterfind', depth=d, path=path)
            ns = {}
            try:
                lres = XMLResource(L.Slow(marked, 5), lazy=d)
                lz = [(nid_of(e), (e.text or ''), len(e)) for e in lres.iterfind(path)]
            except Exception as ex:  # noqa
                ctx.failure('lazy iterfind raised', case, repr(ex))
                continue
            eg = [(nid_of(e), (e.text or ''), len(e)) for e in res.iterfind(path)]
            ctx.case(case, True, 'api:iterfind-named')
            if lz != eg:
                lres = XMLResource(L.Slow(marked, BIG), lazy=d)
                lzb = [(nid_of(e), (e.text or ''), len(e)) for e in lres.iterfind(path)]
                it = iter(eg)
                detail = {'kind': 'iterfind-stream', 'lazy': lz, 'eager': eg, 'buffered_ok': lzb == eg,
                          'subsequence': all(x in it for x in lz), 'deeper': len(steps) > d}
                fid = known_match(case, detail)
                if fid:
                    ctx.known_hit(fid)
                else:
                    ctx.failure('lazy iterfind(path) differs from the loaded tree (elements/text)', case, detail)


def check_validation(ctx: Ctx, spec, schema, xml: bytes, defects: list, reqs: list, pend: list, case_base: dict) -> None:
    eg = Eager(schema, xml)
    static_of, created_of = static_lookup(schema, eg)
    tb = build_tables(eg, schema, static_of, created_of)
    depth_max = max(eg.depth.values())
    has_ident = bool(spec.root.idents)
    ctx.count('eager:%s' % ('valid' if not eg.errors else 'invalid'))
    for ck in {c for c, _ in eg.canon}:
        ctx.count('errkind:' + ck)
    if created_of:
        ctx.count('chunk-created-for-xsi-type', len(created_of))
    if tb is not None and tb['alt_failed']:
        ctx.count('nonlocal-chunk-unpredictable', len(tb['alt_failed']))
        tb = None
    if tb is None:
        ctx.count('skipped:untabulated')
    # An xs:ID value on the root that is repeated below: which of the two elements gets the "duplicated" error
    # depends on the processing order (root last when lazy) - part of C06-F1, evaluated on the multiset only.
    root_ids = {v for k, v in eg.res.root.attrib.items() if k in ('id',)}
    root_id_dup = any(root_ids & {v for k, v in e.attrib.items() if k == 'id'} for e in eg.res.root.iter()
                      if e is not eg.res.root)
    nontrivial = depth_max >= 2 and (bool(eg.errors) or has_ident or bool(tb and tb['nonlocal']))
    if tb and tb['nonlocal']:
        ctx.count('nonlocal-chunks', len(tb['nonlocal']))
    chunk_decl_type = sum(1 for c in eg.tree['cs'] if c['decls'] and any(
        ('{%s}type' % L.XSI) in e.attrib for e in eg.elem[c['id']].iter()))
    if chunk_decl_type:
        ctx.count('chunk-own-xmlns-and-xsi-type-inside', chunk_decl_type)   # exercises schemas.py:1374-1377 (c3a1309)
    buffered_canon = None
    for nbytes in (BIG, 6):
        streaming = nbytes != BIG
        case = dict(case_base, api='iter_errors', depth=1, read=nbytes)
        ctx.case(case, nontrivial, 'api:iter_errors')
        try:
            lz = lazy_errors(schema, xml, 1, nbytes)
        except Exception as ex:  # noqa   (a KeyError here used to be finding C06-F5, fixed by 851aaad)
            ctx.failure('lazy validation raised', case, {'exception': repr(ex), 'depth-1 elements': len(eg.tree['cs']),
                                                         'root_identities': has_ident})
            continue
        lz_canon = canon_seq([c for _, c in lz])
        lz_paths = [p for p, _ in lz]
        eg_canon = canon_seq(eg.canon)
        same_seq = lz_canon == eg_canon
        if not streaming:
            buffered_canon = lz_canon
        elif buffered_canon is not None and lz_canon != buffered_canon and has_ident:
            # C06-F9: on an incrementally delivered document the set of elements selected by an identity constraint
            # is computed once (at the first selected element) - later chunks are never counted
            strip = lambda l: [x for x in l if not IDENT.search(x[1])]  # noqa
            detail = {'kind': 'identity-stream', 'streaming': lz_canon, 'buffered': buffered_canon,
                      'only_identity': strip(lz_canon) == strip(buffered_canon)}
            fid = known_match(case, detail)
            if fid:
                ctx.known_hit(fid)
            else:
                ctx.failure('lazy validation of a streamed document differs from the buffered lazy run', case, detail)
            continue
        same_paths = same_seq and all(path_compatible(a, b, streaming) for a, b in zip(lz_paths, eg.paths))
        ctx.count('verdict-agree:%s' % (bool(lz) == bool(eg.errors)))
        if root_id_dup and not same_seq:
            ctx.count('root-id-duplicate')
            nonlocal_ = bool(tb and tb['nonlocal'])
            if nonlocal_:
                # with a non-Local chunk as well: the multiset differs as finding C06-F2 says, checked without the
                # errors that depend on the ID table
                law_ns = [x for x in canon_seq([tb['table'][i] for i in stable_partition_prediction(eg, tb)])
                          if not STATEFUL.search(x[1])]
                detail = {'kind': 'lost', 'observed': [x for x in lz_canon if not STATEFUL.search(x[1])], 'law': law_ns,
                          'nonlocal': tb['nonlocal'], 'eager': eg.canon}
            else:
                detail = {'kind': 'root-id', 'root_id_repeated': True, 'same_multiset': sorted(lz_canon) == sorted(eg.canon),
                          'nonlocal': [], 'eager': list(zip(eg.paths, eg.canon)), 'lazy': lz}
            fid = known_match(case, detail)
            if fid:
                ctx.known_hit(fid)
            else:
                ctx.failure('lazy validation reports other errors than full loading', case, detail)
            continue
        if tb is not None:
            law = stable_partition_prediction(eg, tb)
            law_canon = canon_seq([tb['table'][i] for i in law])
            if tb['nonlocal']:
                law_canon = [x for x in law_canon if not STATEFUL.search(x[1])]
            if not streaming and not root_id_dup:
                reqs.append({'op': 'lazyval', 'tree': eg.tree, 'k': 1, 'root': tb['root'], 'segs': tb['segs'],
                             'govs': tb['govs'], 'static': tb['static'], 'created': tb['created'], 'krefs': tb['krefs'],
                             'idrefs': tb['idrefs']})
                pend.append(('lazyval', case, {'lazy': lz_canon, 'n_eager': len(eg.errors), 'table': tb['table'],
                                               'nonlocal': tb['nonlocal']}))
        else:
            law = law_canon = None
        if same_seq and same_paths:
            ctx.count('lazy==eager')
            continue
        # ---- a difference: it must be explained exactly by a listed finding
        explained = True
        if not same_seq:
            if law_canon is None:
                explained = False
                ctx.failure('lazy validation reports other errors than full loading', case,
                            {'eager': list(zip(eg.paths, eg.canon)), 'lazy': lz, 'note': 'document could not be tabulated'})
            else:
                kind = 'lost' if tb['nonlocal'] else 'order'
                observed = [x for x in lz_canon if not STATEFUL.search(x[1])] if tb['nonlocal'] else lz_canon
                detail = {'kind': kind, 'observed': observed, 'law': law_canon, 'nonlocal': tb['nonlocal'],
                          'eager': eg.canon}
                fid = known_match(case, detail)
                if fid:
                    ctx.known_hit(fid)
                else:
                    explained = False
                    ctx.failure('lazy validation reports other errors than full loading', case,
                                {'eager': list(zip(eg.paths, eg.canon)), 'lazy': lz, 'predicted-by-order-law': law_canon,
                                 'depth-1 elements validated against another declaration than in the full run': tb['nonlocal'],
                                 'depth-1 elements with own xmlns declarations': [c['id'] for c in eg.tree['cs'] if c['decls']]})
        if explained and tb is not None and tb['nonlocal']:
            # errors were lost or added inside the non-Local chunks (C06-F2, matched above): positions do not
            # correspond; outside these chunks the errors must be the same with the same paths
            if not streaming:
                from xmlschema.utils.etree import etree_getpath
                bare = lambda q: re.sub(r'\{[^}]*\}', '', norm_path(q) or '')  # noqa
                pfx = [bare(etree_getpath(eg.elem[cid], eg.res.root, None, False, True)) for cid in tb['nonlocal']]
                inside = lambda q: any(bare(q) == pf or bare(q).startswith(pf + '/') for pf in pfx)  # noqa
                got = sorted((bare(q), c) for q, c in lz if not inside(q) and not STATEFUL.search(c[1]))
                want = sorted((bare(eg.paths[i]), eg.canon[i]) for i, o in enumerate(eg.owner)
                              if not any(eg.in_subtree(o, cid) for cid in tb['nonlocal'])
                              and not STATEFUL.search(eg.canon[i][1]))
                if got != want:
                    ctx.failure('lazy validation reports an error at another path than full loading', case,
                                {'outside the depth-1 elements': tb['nonlocal'], 'lazy': got, 'eager': want})
        elif explained:
            # paths: compare each lazy error with the eager error it corresponds to (the order law says which one);
            # a different path used to be finding C06-F3 (fixed by 03cfe89): no rule, it is a failure
            if law is not None and law_canon == lz_canon:
                order = [i for i in law]
                idblock = sorted(i for i in order if REF_ID.search(tb['table'][i][1]))
                if order != list(range(len(eg.errors))) and same_seq and \
                        [i for i in order if i not in idblock] != [i for i in range(len(eg.errors)) if i not in idblock]:
                    # equal (class, reason) sequences hide a reordering of equal errors
                    ctx.known_hit('C06-F1')
            else:
                order = list(range(len(eg.errors)))     # untabulated document with the same sequence
            for pos, idx in enumerate(order):
                if pos >= len(lz_paths) or idx >= len(eg.errors):
                    break
                lp, ep = lz_paths[pos], eg.paths[idx]
                if path_compatible(lp, ep, streaming):
                    continue
                if root_id_dup and 'duplicated xs:ID' in eg.canon[idx][1]:
                    # the root (processed last when lazy) and a descendant carry the same xs:ID value
                    detail = {'kind': 'root-id', 'root_id_repeated': True, 'same_multiset': same_seq, 'nonlocal': [],
                              'lazy_path': lp, 'eager_path': ep, 'error': eg.canon[idx]}
                    fid = known_match(case, detail)
                    if fid:
                        ctx.known_hit(fid)
                        continue
                    ctx.failure('lazy validation reports an error at another path than full loading', case, detail)
                    break
                owner = eg.owner[idx]
                desc_paths = set()
                for nid, _ in eg.visits:
                    if nid != owner and nid >= 0 and eg.in_subtree(nid, owner):
                        from xmlschema.utils.etree import etree_getpath
                        desc_paths.add(etree_getpath(eg.elem[nid], eg.res.root, eg.errors[idx].namespaces, False, True))
                desc_paths = {norm_path(x) for x in desc_paths}
                lpn = norm_path(lp)
                ok = lpn in desc_paths or (streaming and strip_pos(lpn) in {strip_pos(x) for x in desc_paths})
                ctx.failure('lazy validation reports an error at another path than full loading', case,
                            {'lazy_path': lp, 'eager_path': ep, 'error': eg.canon[idx],
                             'lazy path is a descendant visited later (C06-F3, fixed by 03cfe89)': ok})
                break
    # deeper lazy depths: the PROPERTY (lazy == eager) is explored and reported in the histogram, never alarmed;
    # the MODEL of the lazy driver at depth k (chunks at depth k looked up statically by '/root/*/…/*', skip rule, root
    # with max_depth = k, references last; theorems lazy_errors_split / lazy_errors_law quantify over k) is compared
    # with the real run on the errors that do not depend on document-wide tables
    for d in (2, 3, 4):
        case = dict(case_base, api='iter_errors', depth=d, read=BIG)
        try:
            lz = lazy_errors(schema, xml, d, BIG)
            lzc = [c for _, c in lz]
            tagk = 'same' if lzc == eg.canon else 'perm' if sorted(lzc) == sorted(eg.canon) else 'differs'
        except Exception as ex:  # noqa
            tagk = 'raises:' + type(ex).__name__
            lz = None
        ctx.count(f'explored-depth{d}:{tagk}')
        if lz is None or root_id_dup:
            continue
        ctx.case(case, nontrivial, 'api:iter_errors-deep')
        ctx.count(f'depth{d}-vs-document:%s' % ('deeper-doc' if depth_max > d else 'exact' if depth_max == d else 'shallower-doc'))
        try:
            st_k, cr_k = static_lookup(schema, eg, d)
            tbk = build_tables(eg, schema, st_k, cr_k, d)
        except Exception:  # noqa
            tbk = None
        if tbk is None or tbk['alt_failed']:
            ctx.count(f'depth{d}:untabulated')
            continue
        reqs.append({'op': 'lazyval', 'tree': eg.tree, 'k': d, 'root': tbk['root'], 'segs': tbk['segs'],
                     'govs': tbk['govs'], 'static': tbk['static'], 'created': tbk['created'], 'krefs': tbk['krefs'],
                     'idrefs': tbk['idrefs']})
        pend.append(('lazyval-deep', case, {'lazy': canon_seq([c for _, c in lz]), 'n_eager': len(eg.errors),
                                            'table': tbk['table'], 'nonlocal': tbk['nonlocal'], 'k': d}))


def strip_xmlns(x: Any) -> Any:
    """value of a depth-1 element without the xmlns pseudo-attributes at its root (a separately decoded chunk does not
    carry them: not compared, see ASSUMPTIONS / finding C06-F10); a simple value that was wrapped only to carry them
    ({'@xmlns:q': …, '$': v}) is unwrapped"""
    if isinstance(x, dict):
        d = {k: v for k, v in x.items() if not k.startswith('@xmlns')}
        if len(d) < len(x) and set(d) == {'$'}:
            return d['$']
        return d
    return x


def _unprefix(x: Any) -> Any:
    """decoded value with the prefixes of element / attribute names removed (xsi: attributes kept, xmlns pseudo-
    attributes dropped).  Children whose names differ only in the prefix are merged into one list; lists of
    children are compared as multisets (sorted by repr): when one name is spelled with two prefixes inside one
    element the decoder groups the children under two keys and their relative order is lost."""
    if isinstance(x, dict):
        groups: dict = {}
        for k, v in x.items():
            if isinstance(k, str) and k.startswith('@xmlns'):
                continue
            k2 = k if not isinstance(k, str) or k.startswith('@xsi:') else re.sub(r'^(@?)[A-Za-z_][\w.-]*:', r'\1', k)
            groups.setdefault(k2, []).append(v)
        out = {}
        for k2, vs in groups.items():
            if len(vs) == 1 and not isinstance(vs[0], list):
                out[k2] = _unprefix(vs[0])
            else:
                flat_ = []
                for v in vs:
                    flat_.extend(v if isinstance(v, list) else [v])
                out[k2] = sorted((_unprefix(v) for v in flat_), key=repr)
        return out
    if isinstance(x, list):
        return [_unprefix(v) for v in x]
    return x


def fill_holes(x: Any, stream: list, gens: set) -> Any:
    if isinstance(x, types.GeneratorType):
        gens.add(id(x))
        return strip_xmlns(stream.pop(0)) if stream else '<<missing>>'
    if isinstance(x, dict):
        return {k: fill_holes(v, stream, gens) for k, v in x.items()}
    if isinstance(x, list):
        return [fill_holes(v, stream, gens) for v in x]
    return x


def find_gen(x: Any) -> Optional[Any]:
    if isinstance(x, types.GeneratorType):
        return x
    if isinstance(x, dict):
        for v in x.values():
            g = find_gen(v)
            if g is not None:
                return g
    if isinstance(x, list):
        for v in x:
            g = find_gen(v)
            if g is not None:
                return g
    return None


def compare_error_paths(ctx: Ctx, case: dict, tree: dict, lazy: list, eager: list, thin: bool, what: str) -> None:
    """Same multiset of (class, reason): pair the errors and compare their paths.  The pairing sorts both sides by
    (error, path without the position of the depth-1 step, that position): errors of one kind in equally named
    depth-1 elements are paired in document order."""
    def key(item, lazy_side):
        pth, c = item
        parts = bare_path(pth).split('/')
        pos = 0
        if len(parts) >= 3:
            m = re.match(r'^(.*?)(?:\[(\d+)\])?$', parts[2])
            parts[2], pos = m.group(1), int(m.group(2) or 1)
        return (c, re.sub(r'\[1\]', '', '/'.join(parts)), pos)
    a = sorted(lazy, key=lambda x: key(x, True))
    b = sorted(eager, key=lambda x: key(x, False))
    for (lp, lc), (ep, ec) in zip(a, b):
        if same_path_mod1(lp, ep):
            continue
        detail = {'kind': 'thin-path', 'thin': thin, 'lazy_path': lp, 'eager_path': ep, 'error': lc,
                  'path_is_thin_prediction': same_path_mod1(lp, thin_expected_path(tree, ep))}
        fid = known_match(case, detail)
        if fid:
            ctx.known_hit(fid)
        else:
            ctx.failure(what + ' reports an error at another path than the loaded document', case, detail)
            return
    ctx.count('paths-compared:' + what.replace(' ', '-'))


def check_lazy_path(ctx: Ctx, spec, schema, xml: bytes, case_base: dict) -> None:
    """path-selected validation through a lazy resource == the same selection on the loaded document (same driver
    loop on both sides: no root run); errors, order and paths"""
    from xmlschema import XMLResource
    try:
        eager = [(e.path, canon_err(e)) for e in schema.iter_errors(XMLResource(xml), path='*')]
    except Exception:  # noqa
        ctx.count('path-run:eager-raises')
        return
    tree, _ = L.doc_tree(XMLResource(xml))
    for thin in (True, False):
        case = dict(case_base, api='iter_errors(path)', path='*', depth=1, thin=thin)
        ctx.case(case, bool(eager), 'api:iter_errors-path')
        try:
            lz = [(e.path, canon_err(e)) for e in schema.iter_errors(XMLResource(L.Slow(xml, BIG), lazy=1, thin_lazy=thin),
                                                                     path='*')]
        except Exception as ex:  # noqa
            ctx.failure('path-selected lazy validation raised', case, repr(ex))
            continue
        if canon_seq([c for _, c in lz]) != canon_seq([c for _, c in eager]):
            ctx.failure('path-selected lazy validation reports other errors than the same selection on the loaded document',
                        case, {'lazy': lz, 'eager': eager})
            continue
        compare_error_paths(ctx, case, tree, lz, eager, thin, 'path-selected lazy validation')


def check_decode(ctx: Ctx, spec, schema, xml: bytes, case_base: dict) -> None:
    from xmlschema import XMLResource
    from xmlschema.validators.exceptions import XMLSchemaValidationError
    eg = Eager(schema, xml)
    static_of, _ = static_lookup(schema, eg)
    from xmlschema.validators import XsdElement
    root_decl = eg.gov.get(0)
    named = []
    if root_decl is not None and root_decl.type.has_complex_content():
        named = [x for x in root_decl.type.content.iter_elements() if isinstance(x, XsdElement)]
    nonlocal_chunks = [c['id'] for c in eg.tree['cs'] if static_of.get(c['id']) is not eg.gov.get(c['id'])
                       or eg.gov.get(c['id']) is None
                       or not any(x.is_matching(c['tag']) for x in named)
                       or ('{%s}type' % L.XSI) in eg.res.root.attrib]
    try:
        edata, eerrs = schema.decode(XMLResource(xml), validation='lax')
    except Exception as ex:  # noqa
        ctx.count('decode:eager-raises')
        return
    for thin in (True, False):
        case = dict(case_base, api='decode', depth=1, thin=thin)
        ctx.case(case, max(eg.depth.values()) >= 2, 'api:decode')
        try:
            ldata, lerrs = schema.decode(XMLResource(L.Slow(xml, 6), lazy=1, thin_lazy=thin), validation='lax')
            g = find_gen(ldata)
            items = list(g) if g is not None else []
        except Exception as ex:  # noqa   (a KeyError here used to be finding C06-F5, fixed by 851aaad)
            ctx.failure('lazy decode raised', case, {'exception': repr(ex), 'depth-1 elements': len(eg.tree['cs']),
                                                     'root_identities': bool(spec.root.idents)})
            continue
        stream = [x for x in items if not isinstance(x, XMLSchemaValidationError)]
        serrs = [x for x in items if isinstance(x, XMLSchemaValidationError)]
        n_stream = len(stream)
        stream0 = list(stream)
        filled = fill_holes(ldata, stream, set())
        want = edata
        if isinstance(want, dict):
            want = {k: ([strip_xmlns(i) for i in v] if isinstance(v, list) else strip_xmlns(v)) for k, v in want.items()}
        ok = filled == want and not stream
        if not ok and isinstance(want, dict) and isinstance(ldata, dict):
            # same-named children may be grouped under differently spelled keys, then the placeholders cannot be
            # aligned with the stream: compare the shape of the skeleton and the multiset of chunk values
            def shape(x):
                if isinstance(x, types.GeneratorType):
                    return 'HOLE'
                if isinstance(x, list):
                    return [shape(v) for v in x]
                return x
            def unpre(k):
                return re.sub(r'^[A-Za-z_][\w.-]*:', '', k)
            def key_shape(dct):
                out = {}
                for k, v in dct.items():
                    if k[:1] in '@$' or isinstance(k, int):
                        out[k] = v
                    else:
                        n = len(v) if isinstance(v, list) else 1
                        out[unpre(k)] = out.get(unpre(k), 0) + n
                return out
            lshape = key_shape({k: shape(v) for k, v in ldata.items()})
            eshape = key_shape(want)
            def vals(dct):
                r = []
                for k, v in dct.items():
                    if k[:1] in '@$' or isinstance(k, int):
                        continue
                    r.extend(v if isinstance(v, list) else [v])
                return r
            ms = [strip_xmlns(v) for v in stream0]
            me = list(vals(want))
            rest_l = list(ms)
            rest_e = []
            for v in me:
                if v in rest_l:
                    rest_l.remove(v)
                else:
                    rest_e.append(v)
            if lshape == eshape and not rest_l and not rest_e:
                ok = True
                ctx.count('decode:same-up-to-grouping')
            elif len(ms) == len(me):
                # C06-F10 (what remains of it): a depth-1 element with its own namespace declarations is decoded at
                # level 0 of the chunk decoder, its names are spelled with other prefixes than in the full result
                n_decl = sum(1 for c in eg.tree['cs'] if c['decls'])
                detail = {'kind': 'decode-prefixes', 'chunks_with_declarations': n_decl, 'same_skeleton': lshape == eshape,
                          'differing_values': len(rest_l),
                          'equal_up_to_prefixes': len(rest_l) == len(rest_e) and
                          sorted(repr(_unprefix(v)) for v in rest_l) == sorted(repr(_unprefix(v)) for v in rest_e),
                          'lazy-only chunk values': repr(rest_l)[:800], 'eager-only chunk values': repr(rest_e)[:800]}
                fid = known_match(case, detail)
                if fid:
                    ctx.known_hit(fid)
                    ctx.count('decode:prefix-spelling')
                    ok = True
        ctx.count('decode:%s' % ('same' if ok else 'differs'))
        if not ok:
            # every depth-1 element that IS governed by its static declaration must still be streamed with its value
            local_ok = True
            if isinstance(want, dict):
                pool = [repr(_unprefix(strip_xmlns(v))) for v in stream0]
                for c in eg.tree['cs']:
                    if c['id'] in nonlocal_chunks:
                        continue
                    name = c['tag'].split('}')[-1]
                    same = [x['id'] for x in eg.tree['cs'] if x['tag'] == c['tag']]
                    vals = []
                    for key, v in want.items():
                        if isinstance(key, str) and key[:1] not in '@$' and key.split(':')[-1] == name:
                            vals.extend(v if isinstance(v, list) else [v])
                    if len(vals) != len(same):
                        continue
                    r = repr(_unprefix(vals[same.index(c['id'])]))
                    if r in pool:
                        pool.remove(r)
                    else:
                        local_ok = False
            detail = {'kind': 'decode-holes', 'nonlocal': nonlocal_chunks if local_ok else [], 'local_chunks_streamed': local_ok, 'eager': repr(want)[:1500],
                      'lazy-filled': repr(filled)[:1500], 'streamed': n_stream, 'left': len(stream)}
            fid = known_match(case, detail)
            if fid:
                ctx.known_hit(fid)
            else:
                ctx.failure('lazy decoding (skeleton + streamed chunks) differs from the decoded loaded document', case, detail)
            continue
        le = sorted(canon_err(e) for e in list(lerrs) + serrs)
        ee = sorted(canon_err(e) for e in eerrs)
        if le != ee and not nonlocal_chunks:
            # (the eager decoder not running _validate_references was finding C06-F6, fixed by 32ac39b: no rule)
            # C06-F8: the lazy decoder keeps two ID / identity tables (root skeleton vs streamed chunks)
            extra = list(le)
            for x in ee:
                if x in extra:
                    extra.remove(x)
            full = sorted(eg.canon)
            root_has_idattr = any(k in ('id', 'rf') for k in eg.res.root.attrib)
            non_ref = lambda l: [x for x in l if not (ID_TABLE.search(x[1]) or IDENT.search(x[1]))]  # noqa
            detail = {'kind': 'decode-refs', 'lazy': le, 'eager-decode': ee, 'eager-iter_errors': full,
                      'eager decode lacks only IDREF errors (C06-F6, fixed by 32ac39b)':
                          bool(extra) and all(REF_ID.search(x[1]) for x in extra) and le == full,
                      'two_tables': (root_has_idattr or bool(spec.root.idents)) and non_ref(le) == non_ref(ee) == non_ref(full)}
            fid = known_match(case, detail)
            if fid:
                ctx.known_hit(fid)
            else:
                ctx.failure('lazy decoding reports other errors than decoding the loaded document', case, detail)
        elif le == ee and not nonlocal_chunks:
            compare_error_paths(ctx, case, eg.tree, [(e.path, canon_err(e)) for e in list(lerrs) + serrs],
                                [(e.path, canon_err(e)) for e in eerrs], thin, 'lazy decoding')


def compare(ctx: Ctx, reqs: list, pend: list, drv: Optional[Driver]) -> None:
    answers = drv.query(reqs) if drv is not None else [None] * len(reqs)
    for p, m in zip(pend, answers):
        kind, case = p[0], p[1]
        if kind == 'ns':
            eager_ns, lazy_ns = p[2], p[3]
            differs = {i: eager_ns.get(i) for i in lazy_ns} != lazy_ns
            detail = {'eager': eager_ns, 'lazy': lazy_ns} if differs else None
            if m is not None:
                ctx.traces += 1
                if 'err' in m:
                    ctx.mismatch('driver error', case, None, m)
                else:
                    as_dict = lambda rows: {r[0]: dict(r[1]) for r in rows} if isinstance(rows, list) else rows  # noqa
                    if as_dict(m['lazy']) != lazy_ns:
                        ctx.mismatch('lazy loader namespace maps', case, lazy_ns, m['lazy'])
                    if as_dict(m['eager']) != eager_ns:
                        ctx.mismatch('eager loader namespace maps', case, eager_ns, m['eager'])
                    if differs:
                        detail['eager maps are those of the loop without a pop in its end branch (C06-F4, fixed by 6d25df9)'] = \
                            as_dict(m['eager_unpopped']) == eager_ns
            if differs:
                ctx.failure('in-scope namespaces of the loaded tree differ from those of the lazy resource', case, detail)
            continue
        if m is None:
            continue
        ctx.traces += 1
        if 'err' in m:
            ctx.mismatch('driver error', case, None, m)
            continue
        if kind == 'iter':
            got = [x[0] for x in m['yields']]
            if got != p[2]:
                ctx.mismatch('order of lazy iter (loop variant: %s)' % iter_variant(), case, p[2], got)
        elif kind == 'live':
            obs = p[2]
            if m.get('fail'):
                ctx.mismatch('live tree: the model ran into a KeyError/close without open element', case, obs, m)
            if m['yields'] != obs['yields']:
                ctx.mismatch('live tree at the yields of iter_depth (element, remaining siblings, len(_nsmaps))', case,
                             obs['yields'], m['yields'])
            if m['final'] != obs['final'] or m['nkeys'] != obs['nkeys']:
                ctx.mismatch('tree / _nsmaps left after iter_depth', case, [obs['final'], obs['nkeys']],
                             [m['final'], m['nkeys']])
        elif kind in ('iterdepth', 'iterfind'):
            if m['yields'] != p[2]:
                ctx.mismatch(kind + ' yields/ancestors', case, p[2], m['yields'])
        elif kind == 'lazyval-deep':
            info = p[2]
            model_lazy = [list(x) for x in canon_seq([info['table'][i] for i in m['lazy']]) if not STATEFUL.search(x[1])]
            real_lazy = [list(x) for x in info['lazy'] if not STATEFUL.search(x[1])]
            if model_lazy != real_lazy:
                ctx.mismatch('lazy error sequence at lazy depth %d (errors that do not depend on document-wide tables)'
                             % info['k'], case, real_lazy, model_lazy)
            else:
                ctx.count('depth%d:model==real' % info['k'])
        elif kind == 'lazyval':
            info = p[2]
            if m['eager'] != list(range(info['n_eager'])):
                ctx.mismatch('eager error sequence is not the compositional one', case, list(range(info['n_eager'])), m['eager'])
            model_lazy = [list(x) for x in canon_seq([info['table'][i] for i in m['lazy']])]
            real_lazy = [list(x) for x in info['lazy']]
            if info['nonlocal']:
                model_lazy = [x for x in model_lazy if not STATEFUL.search(x[1])]
                real_lazy = [x for x in real_lazy if not STATEFUL.search(x[1])]
            if model_lazy != real_lazy:
                ctx.mismatch('lazy error sequence', case, info['lazy'], model_lazy)
            if m['local'] != (not info['nonlocal']):
                ctx.mismatch('Local hypothesis', case, not info['nonlocal'], m['local'])


# ---------------------------------------------------------------------------------------------------
# identity constraints declared on the root whose selected nodes lie in both phases of lazy validation
# (root pass: above the lazy depth; chunk phase: at / below it) - model: collect / mergeTables (Model/LazyLive.lean),
# theorems merge_counts, merge_dangling, merge_dups_cross; finding C06-F13

ZONE_SELECTORS = ['.', 'e', 'e/f', 'e/f/g', '.|e', 'e|e/f', './/f', '.|.//f', '.|e|e/f', './/e', '*', './/g', '.|e/f/g',
                  'e/f|e/f/g', '.|.//g']
_MERGE_VARIANT: Optional[str] = None
ZONE_XSD = """<xs:schema xmlns:xs="http://www.w3.org/2001/XMLSchema">
<xs:attributeGroup name="A"><xs:attribute name="k" type="xs:int"/><xs:attribute name="q" type="xs:int"/></xs:attributeGroup>
<xs:element name="r"><xs:complexType><xs:sequence>
 <xs:element name="e" minOccurs="0" maxOccurs="unbounded"><xs:complexType><xs:sequence>
  <xs:element name="f" minOccurs="0" maxOccurs="unbounded"><xs:complexType><xs:sequence>
   <xs:element name="g" minOccurs="0" maxOccurs="unbounded"><xs:complexType><xs:attributeGroup ref="A"/></xs:complexType></xs:element>
  </xs:sequence><xs:attributeGroup ref="A"/></xs:complexType></xs:element>
 </xs:sequence><xs:attributeGroup ref="A"/></xs:complexType></xs:element>
</xs:sequence><xs:attributeGroup ref="A"/></xs:complexType>
 <xs:%(kind)s name="U"><xs:selector xpath="%(ksel)s"/><xs:field xpath="@k"/></xs:%(kind)s>
 <xs:keyref name="R" refer="U"><xs:selector xpath="%(rsel)s"/><xs:field xpath="@q"/></xs:keyref>
</xs:element></xs:schema>"""


def zone_select(doc: dict, selector: str) -> list:
    """nodes (dicts with depth) picked by a selector of the XSD subset used here, document order"""
    nodes = []

    def walk(n):
        nodes.append(n)
        for c in n['cs']:
            walk(c)
    walk(doc)
    picked = set()
    for alt in selector.split('|'):
        for n in nodes:
            if alt == '.':
                ok = n['depth'] == 0
            elif alt == '*':
                ok = n['depth'] == 1
            elif alt.startswith('.//'):
                ok = n['depth'] >= 1 and n['tag'] == alt[3:]
            else:
                steps = alt.split('/')
                ok = n['depth'] == len(steps) and n['tag'] == steps[-1]      # names determine the depth here
            if ok:
                picked.add(n['id'])
    return [n for n in nodes if n['id'] in picked]


ZONE_REF_FIELDS = ['@q', '@q', 'e/@q', 'f/@q', 'g/@q', '*/@q', 'e/f/@q', 'f/g/@q']


def zone_field_values(nodes: list, field: str) -> tuple[list, bool]:
    """(node, value) for the nodes whose field (child steps by name or '*', then @q) selects exactly one attribute;
    False when some node selects more than one (the library reports that in both runs: outside the table model)"""
    out = []
    single = True
    for n in nodes:
        cur = [n]
        for st in field.split('/')[:-1]:
            cur = [c for x in cur for c in x['cs'] if st == '*' or c['tag'] == st]
        vals = [x['q'] for x in cur if x['q'] is not None]
        if len(vals) == 1:
            out.append((n, vals[0]))
        elif vals:
            single = False
    return out, single


def gen_zone_doc(rng) -> tuple[bytes, dict]:
    ids = [0]

    def mk(tag, depth):
        n = {'id': ids[0], 'tag': tag, 'depth': depth, 'cs': [], 'k': None, 'q': None}
        ids[0] += 1
        if rng.random() < 0.8:
            n['k'] = rng.randint(1, 6)
        if rng.random() < 0.4:
            n['q'] = rng.randint(1, 7)
        if depth < 3:
            child = 'efg'[depth]
            for _ in range(rng.choice([0, 1, 2, 2, 3] if depth < 2 else [0, 0, 1, 2])):
                n['cs'].append(mk(child, depth + 1))
        return n
    doc = mk('r', 0)

    def ser(n):
        a = ''.join(f' {x}="{n[x]}"' for x in ('k', 'q') if n[x] is not None)
        return f'<{n["tag"]}{a}>' + ''.join(ser(c) for c in n['cs']) + f'</{n["tag"]}>'
    return ser(doc).encode(), doc


def merge_variant() -> str:
    """does the library report a key/unique value duplicated across the root pass and the chunks (finding C06-F13
    repaired by notes/fixes/C06-lazy-identity-merge-duplicates.patch)?"""
    global _MERGE_VARIANT
    if _MERGE_VARIANT is None:
        import io
        import xmlschema
        from xmlschema import XMLResource
        sch = xmlschema.XMLSchema(ZONE_XSD % {'kind': 'unique', 'ksel': '.|e', 'rsel': 'e/f'})
        errs = list(sch.iter_errors(XMLResource(io.BytesIO(b'<r k="1"><e k="1"/></r>'), lazy=1)))
        _MERGE_VARIANT = 'patched' if errs else 'pinned'
    return _MERGE_VARIANT


DUP_RE = re.compile(r"^duplicated value \((\d+),\) for Xsd\w+\(name='U'\)")
NF_RE = re.compile(r"^value \((\d+),\) not found for Xsd\w+\(name='U'\)(?: \((\d+) times\))?")


def identity_zones(ctx: Ctx, drv: Optional[Driver]) -> None:
    import io
    import xmlschema
    from xmlschema import XMLResource
    reqs: list = []
    pend: list = []
    ctx.count('identity-merge-variant:' + merge_variant())
    for _ in range(ctx.pick(60, 600)):
        kind = ctx.rng.choice(['key', 'unique', 'unique'])
        ksel = ctx.rng.choice(ZONE_SELECTORS)
        rsel = ctx.rng.choice(ZONE_SELECTORS)
        xsd = ZONE_XSD % {'kind': kind, 'ksel': ksel, 'rsel': rsel}
        # keyref FIELD descending to attributes of elements below the selected node: a node selected in the root pass
        # reads them from the pruned placeholders that `_clear` left in the tree (attributes must survive pruning).
        # Excluded precisely: a selector with the alternative '.' (the root: the only node of the root pass at lazy depth 1)
        # combined with a field of two child steps (e/f/@q) - it reads BELOW the placeholders, whose children are gone
        # by design, so /repo itself loses these references (reported in notes/reports/x-c06-r11.md, not matched here)
        rfield = ctx.rng.choice(ZONE_REF_FIELDS)
        if '.' in rsel.split('|') and rfield != '@q':
            rfield = ctx.rng.choice(['e/@q', '*/@q'])       # one step: the depth-1 placeholders themselves
        xsd = xsd.replace('<xs:field xpath="@q"/>', '<xs:field xpath="%s"/>' % rfield)
        ctx.count('zones:keyref-field:' + ('own-attribute' if rfield == '@q' else 'descendant-attribute'))
        try:
            schema = xmlschema.XMLSchema(xsd)
        except Exception:  # noqa
            ctx.count('zones:schema-rejected')
            continue
        for _ in range(ctx.pick(5, 8)):
            xml, doc = gen_zone_doc(ctx.rng)
            keyn = [n for n in zone_select(doc, ksel) if n['k'] is not None]
            refn, single = zone_field_values(zone_select(doc, rsel), rfield)
            try:
                eager = sorted(canon_err(e) for e in schema.iter_errors(XMLResource(xml)))
            except Exception:  # noqa
                ctx.count('zones:eager-raises')
                continue
            for d in (1, 2, 3):
                key = [[n['depth'] < d, n['k']] for n in keyn]
                ref = [[n['depth'] < d, q] for n, q in refn]
                zones = {('root' if b else 'chunk') for b, _ in key} | {('root-ref' if b else 'chunk-ref') for b, _ in ref}
                both = {'root', 'chunk'} <= zones or ('root' in zones and 'chunk-ref' in zones) or \
                    ('chunk' in zones and 'root-ref' in zones)
                ctx.count('zones:spanning-both-phases:%s' % both)
                cross = sorted({v for _, v in key if [x for x in key if x[1] == v] in ([[True, v], [False, v]], [[False, v], [True, v]])})
                for thin in (True, False):
                    case = {'xsd': xsd, 'xml': xml.decode(), 'api': 'iter_errors(identity zones)', 'depth': d, 'thin': thin,
                            'key selector': ksel, 'keyref selector': rsel, 'keyref field': rfield}
                    ctx.case(case, both, 'api:identity-zones')
                    if d == 1 and rfield != '@q' and any(b for b, _ in ref):
                        ctx.count('zones:root-pass-field-reads-streamed-child')
                    try:
                        lz = sorted(canon_err(e) for e in schema.iter_errors(
                            XMLResource(io.BytesIO(xml), lazy=d, thin_lazy=thin)))
                    except Exception as ex:  # noqa
                        if d == 1:
                            ctx.failure('lazy validation raised', case, repr(ex))
                        else:
                            ctx.count(f'zones-depth{d}:raises')
                        continue
                    if d > 1:
                        ctx.count(f'zones-depth{d}:%s' % ('same' if lz == eager else 'differs'))
                    elif lz == eager:
                        ctx.count('zones:lazy==eager')
                    else:
                        # the only listed difference: a key/unique value that occurs once in the root pass and once in a
                        # chunk is not reported (C06-F13); everything else (a lost or an extra error) is a failure
                        missing = list(eager)
                        extra = []
                        for x in lz:
                            if x in missing:
                                missing.remove(x)
                            else:
                                extra.append(x)
                        want = sorted(str(v) for v in cross)
                        got = sorted(DUP_RE.match(x[1]).group(1) for x in missing if DUP_RE.match(x[1]))
                        detail = {'kind': 'identity-merge', 'eager-only': missing, 'lazy-only': extra,
                                  'values counted once in the root pass and once in the chunks': cross,
                                  'only_cross_duplicates': not extra and len(got) == len(missing) and got == want}
                        fid = known_match(case, detail)
                        if fid:
                            ctx.known_hit(fid)
                        else:
                            ctx.failure('lazy validation reports other identity-constraint errors than full loading', case, detail)
                    if d == 1 and thin and single:
                        reqs.append({'op': 'idmerge', 'key': key, 'ref': ref, 'chunks': bool(doc['cs'])})
                        pend.append(('idmerge', case, {'lazy': lz, 'eager': eager, 'cross': cross}))
    answers = drv.query(reqs) if drv is not None else []
    for p_, m in zip(pend, answers):
        _, case, info = p_
        ctx.traces += 1
        if 'err' in m:
            ctx.mismatch('driver error', case, None, m)
            continue

        def vals(errs, rx):
            out = []
            for x in errs:
                mm = rx.match(x[1])
                if mm:
                    out.append((int(mm.group(1)), int(mm.group(2) or 1)) if rx is NF_RE else int(mm.group(1)))
            return sorted(out)
        model_dups = sorted(m['lazy_dups'] + (m['cross'] if merge_variant() == 'patched' else []))
        if vals(info['lazy'], DUP_RE) != model_dups:
            ctx.mismatch('duplicated values reported by lazy validation (two-phase tables)', case, vals(info['lazy'], DUP_RE), model_dups)
        if vals(info['lazy'], NF_RE) != sorted((a, b) for a, b in m['lazy_dangling']):
            ctx.mismatch('dangling key references reported by lazy validation (merged tables)', case,
                         vals(info['lazy'], NF_RE), m['lazy_dangling'])
        if vals(info['eager'], DUP_RE) != sorted(m['eager_dups']) or \
                vals(info['eager'], NF_RE) != sorted((a, b) for a, b in m['eager_dangling']):
            ctx.mismatch('identity tables of the full run', case, info['eager'], m)
        if sorted(m['cross']) != info['cross']:
            ctx.mismatch('values counted once in each phase', case, info['cross'], m['cross'])


# ---------------------------------------------------------------------------------------------------
# vocabulary in NO namespace with DEFAULT-namespace declarations on the last / intermediate descendants of a
# depth-level element (foreign content admitted by xs:any ##other), followed by depth-level elements with errors of
# every kind: a namespace context left behind by a chunk must not reach the schema lookup / validation of the next one

DEFNS_XSD = """<xs:schema xmlns:xs="http://www.w3.org/2001/XMLSchema">
 <xs:element name="root"><xs:complexType><xs:sequence>
  <xs:element name="item" maxOccurs="unbounded"><xs:complexType><xs:sequence>
   <xs:element name="v" type="xs:int" minOccurs="0"/>
   <xs:element name="w" minOccurs="0"><xs:complexType><xs:sequence>
     <xs:element name="u" type="xs:int" minOccurs="0"/>
     <xs:any namespace="##other" processContents="%(pc)s" minOccurs="0" maxOccurs="unbounded"/>
   </xs:sequence><xs:attribute name="id" type="xs:ID"/></xs:complexType></xs:element>
   <xs:any namespace="##other" processContents="%(pc)s" minOccurs="0" maxOccurs="unbounded"/>
  </xs:sequence>
  <xs:attribute name="id" type="xs:ID"/><xs:attribute name="ref" type="xs:IDREF"/>
  <xs:attribute name="code" type="xs:string"%(req)s/></xs:complexType></xs:element>
  <xs:element name="tail" type="xs:int" minOccurs="0"/>
 </xs:sequence></xs:complexType>
 <xs:%(kind)s name="itemCode"><xs:selector xpath="item"/><xs:field xpath="@code"/></xs:%(kind)s>%(kref)s
 </xs:element>
</xs:schema>"""


def gen_defns_doc(rng) -> bytes:
    def ext(depth=0) -> str:
        ns = rng.choice(['urn:ext:a', 'urn:ext:b'])
        inner = ''
        r = rng.random()
        if r < 0.35:
            inner = '<note>n</note>'
        elif r < 0.55 and depth < 2:
            inner = '<note>n</note>' + ext(depth + 1)              # a nested default namespace on the last descendant
        elif r < 0.7:
            inner = '<back xmlns=""><v>1</v></back>'                # default namespace undeclared again inside
        elif r < 0.8:
            inner = '<p:x xmlns:p="urn:ext:p"/>'
        return f'<ext xmlns="{ns}">{inner}</ext>'
    n = rng.choice([2, 3, 3, 4, 5])
    ids = ['a', 'b', 'c', 'd', 'e', 'f']
    items = []
    for i in range(n):
        at = ''
        if rng.random() < 0.7:
            at += ' id="%s"' % (rng.choice(ids[:i + 1]) if rng.random() < 0.25 else ids[i])
        if rng.random() < 0.4:
            at += ' ref="%s"' % rng.choice(ids[:n] + ['missing'])
        if rng.random() < 0.9:
            at += ' code="c%d"' % (rng.randint(1, 3) if rng.random() < 0.3 else 10 + i)
        body = ''
        r = rng.random()
        if r < 0.7:
            body += '<v>%s</v>' % rng.choice(['1', '2', '3', 'not-an-int', '4'])
        elif r < 0.8:
            body += '<v>1</v><v>2</v>'                               # content model error
        if rng.random() < 0.4:
            w = '<u>%s</u>' % rng.choice(['7', 'x']) if rng.random() < 0.6 else ''
            if rng.random() < 0.6:
                w += ext()
            body += '<w%s>%s</w>' % (' id="%s"' % rng.choice(ids) if rng.random() < 0.2 else '', w)
        if rng.random() < (0.75 if i < n - 1 else 0.3):
            body += ext()
            if rng.random() < 0.2:
                body += ext()
        if rng.random() < 0.08:
            body += '<zz/>'                                          # unexpected child in no namespace
        items.append(f'<item{at}>{body}</item>')
    tail = '<tail>%s</tail>' % rng.choice(['1', 'bad']) if rng.random() < 0.3 else ''
    return ('<root>' + ''.join(items) + tail + '</root>').encode()


def default_ns_family(ctx: Ctx, drv: Optional[Driver]) -> None:
    for _ in range(ctx.pick(12, 80)):
        kind = ctx.rng.choice(['key', 'unique'])
        xsd = DEFNS_XSD % {
            'pc': ctx.rng.choice(['lax', 'lax', 'skip']), 'kind': kind,
            'req': ctx.rng.choice(['', ' use="required"']),
            'kref': ctx.rng.choice(['', '\n <xs:keyref name="R" refer="itemCode"><xs:selector xpath="item/w"/>'
                                        '<xs:field xpath="@id"/></xs:keyref>'])}
        for _ in range(ctx.pick(5, 8)):
            xml = gen_defns_doc(ctx.rng)
            ctx.count('defns:docs')
            if b'</ext></item><item' in xml or b'</ext></w></item><item' in xml:
                ctx.count('defns:default-namespace-on-last-descendant-then-sibling')
            try:
                run_one(ctx, drv, xsd, xml, {'family': 'default-namespace-on-descendants'})
            except Exception as ex:  # noqa
                import traceback
                ctx.count('defns:harness-raises:' + type(ex).__name__)
                if len(ctx.notes) < 5:
                    ctx.notes.append('default_ns_family raised: ' + traceback.format_exc()[-400:])


def family(ctx: Ctx, drv: Optional[Driver]) -> None:
    n_schemas = ctx.pick(150, 1500)
    n_docs = ctx.pick(5, 8)
    built = 0
    attempts = 0
    while built < n_schemas and attempts < n_schemas * 4:
        attempts += 1
        spec = L.gen_schema(ctx.rng, maxdepth=ctx.rng.choice([2, 3, 3, 4]))
        try:
            schema = L.build_schema(spec)
        except Exception as ex:  # noqa
            ctx.count('schema-rejected')
            continue
        built += 1
        for f in sorted(spec.features):
            ctx.count('schema-feature:' + f.split(':')[0])
        reqs: list = []
        pend: list = []
        for _ in range(n_docs):
            xml, marked, defects, style = L.gen_doc(ctx.rng, spec, perr=ctx.rng.choice([0.0, 0.03, 0.08]))
            base = {'xsd': spec.xsd, 'xml': xml.decode()}
            for dk in {x.split(':')[0] for x in defects}:
                ctx.count('seeded:' + dk)
            ctx.count('doc-size:%d' % min(9, len(xml) // 200))
            check_ns_iter(ctx, spec, marked, reqs, pend, {'xsd': spec.xsd, 'xml': marked.decode()})
            try:
                check_validation(ctx, spec, schema, xml, defects, reqs, pend, base)
                check_decode(ctx, spec, schema, xml, base)
                check_lazy_path(ctx, spec, schema, xml, base)
            except Exception as ex:  # noqa  (eager run itself failed: not a C06 matter)
                import traceback
                ctx.count('eager-raises:' + type(ex).__name__)
                ctx.notes.append('eager run raised: ' + traceback.format_exc()[-300:]) if len(ctx.notes) < 3 else None
        compare(ctx, reqs, pend, drv)


def run(ctx: Ctx, driver_ok: bool) -> None:
    ctx.known = list(ctx.known) + [e for e in load_findings() if e.get('property') == 'C06']
    drv = Driver('drv_c06') if driver_ok else None
    ctx.count('iter-loop-variant:' + iter_variant())
    ctx.notes.append('XMLResource.iter lazy loop detected: %s (pinned = reversed post-order below the lazy depth, finding '
                     'C06-F11, theorem iter_lazy_order_pinned; patched = document order, theorem iter_lazy_order)' % iter_variant())
    corpus(ctx, drv)
    identity_zones(ctx, drv)
    default_ns_family(ctx, drv)
    family(ctx, drv)
    ctx.extra['explanation'] = ('seeded random family; property claimed at lazy depth 1 (depths 2-4 explored: histogram '
                                'explored-depth*); model of iter / iter_depth / iterfind / _clear / lazy driver compared at lazy '
                                'depths 1-4 (histogram depth-vs-document, depthK:model==real); iter loop variant: ' + iter_variant())


def corpus(ctx: Ctx, drv: Optional[Driver]) -> None:
    d = VERIF / 'corpus' / 'C06'
    if not d.exists():
        return
    for f in sorted(d.glob('*.json')):
        obj = json.loads(f.read_text())
        run_one(ctx, drv, obj['xsd'], obj['xml'].encode(), {'corpus': f.name})


def run_one(ctx: Ctx, drv: Optional[Driver], xsd: str, xml: bytes, base: dict) -> None:
    import xmlschema
    schema = xmlschema.XMLSchema(xsd)
    spec = L.Spec()
    spec.xsd = xsd
    spec.root = L.El('r')
    spec.root.idents = [1] if re.search(r'<xs:(key|unique|keyref) ', xsd) else []
    reqs: list = []
    pend: list = []
    base = dict(base, xsd=xsd, xml=xml.decode())
    # marked copy for iteration checks
    k = [0]

    def mark(m):
        s = f'{m.group(0)} n="{k[0]}"'
        k[0] += 1
        return s
    marked = re.sub(r'<[A-Za-z_][\w:.-]*', mark, xml.decode()).encode()
    check_ns_iter(ctx, spec, marked, reqs, pend, dict(base, xml=marked.decode()))
    check_validation(ctx, spec, schema, xml, [], reqs, pend, base)
    check_decode(ctx, spec, schema, xml, base)
    check_lazy_path(ctx, spec, schema, xml, base)
    compare(ctx, reqs, pend, drv)


def search(ctx: Ctx) -> None:
    if ctx.quick():
        saved = ctx.tier
        ctx.tier = 'thorough'
        try:
            identity_zones(ctx, None)
            default_ns_family(ctx, None)
            family(ctx, None)
        finally:
            ctx.tier = saved


def replay(ctx: Ctx, obj: dict) -> int:
    print(json.dumps(obj, indent=1)[:6000])
    case = obj.get('input')
    if not case or 'xsd' not in case:
        return 0
    ctx.known = list(ctx.known) + [e for e in load_findings() if e.get('property') == 'C06']
    xml = re.sub(r' n="\d+"', '', case['xml']).encode()
    if case.get('api') == 'iter_errors(identity zones)':
        import io
        import xmlschema
        from xmlschema import XMLResource
        schema = xmlschema.XMLSchema(case['xsd'])
        eager = sorted(canon_err(e) for e in schema.iter_errors(XMLResource(xml)))
        lz = sorted(canon_err(e) for e in schema.iter_errors(
            XMLResource(io.BytesIO(xml), lazy=case['depth'], thin_lazy=case['thin'])))
        print('full loading :', eager)
        print('lazy depth %d :' % case['depth'], lz)
        print('identity merge variant of the library:', merge_variant())
        same = lz == eager
        print('JUDGEMENT:', 'same errors' if same else 'lazy validation reports other identity-constraint errors than full loading '
              '(a difference consisting only of cross-phase duplicates is finding C06-F13)')
        return 0 if same else 1
    drv = Driver('drv_c06') if (Path(Driver('drv_c06').path)).exists() else None
    run_one(ctx, drv, case['xsd'], xml, {})
    for m in ctx.mismatches[:3]:
        print('MODEL != IMPLEMENTATION:', m['correspondence'], 'impl=', m['impl'], 'model=', m['model'])
    for f in ctx.failures[:5]:
        print('FAILS ON THE REAL CODE:', f['what'], json.dumps(f['detail'], default=str)[:1500])
    print('known findings matched:', ctx.known_hits)
    return 1 if ctx.failures else 0
