"""
C04 — all validation entry points and modes agree on one verdict.

Model: lean/XsVerif/Model/Modes.lean (the wrappers as functions of the *script* of a run);
theorems: lean/XsVerif/Props/C04.lean.

Correspondence.  For every generated (schema version, document):
  1. the real `raise_or_collect` is wrapped (from this process, nothing in /repo is touched) and the
     lax runs of `schema.iter_errors` and `schema.iter_decode` are recorded as scripts
     (collect / direct / flush / result steps, errors numbered by (class, path, reason));
  2. the native Lean driver computes from the two scripts what EVERY entry point must return in
     every mode (is_valid, iter_errors, validate, decode and iter_decode x strict/lax/skip, the
     exit status of the command; component level from the recorded component run);
  3. every entry point (schema method and package-level function) is really called on every
     source kind (text, bytes, path, file:// URL, open text/binary file, StringIO/BytesIO,
     XMLResource, lxml element/tree, ElementTree element/tree) and compared with the prediction.
  The command line is run in sub-processes for error totals 0, 1, 255, 256, 257, 512, sums over
  several files, unreadable and malformed files.
  4. schema family V (harness/lib_c04v.py): value constraints (default / fixed) of attributes and simple contents
     that the instance OMITS, of the types whose decoding has a document-level effect (IDREF, IDREFS, ID in XSD 1.1,
     QName) — on the root, on children, nested, through xsi:type, in simple-content extensions — x use_defaults
     on / off.  For these documents the attribute groups of the built schema and the parsed document are sent to
     the Lean model Model/AttrDefaults.lean, whose events (proved to be: the decoded IDREFs, explicit or supplied
     by a value constraint, that no decoded ID defines, …) are compared with the events of `iter_errors` AND with
     the events of `iter_decode`.
  5. schema family W (harness/lib_c04w.py): attribute AND element wildcards with processContents strict / lax / skip
     (and ##other strict) x names that are declared (target / imported namespace; valid and invalid value, simple
     and complex), not declared in a known namespace, of an unknown namespace, of no namespace, not admitted, and
     elements with xsi:type — every (carrier, item) once as the only defect of a document, then random documents;
     the same table at unit level: every wildcard component x name x value x mode through raw_decode / the
     component API against Modes.anyAttrEvents / anyElemEvents (strict raises exactly the first lax event).
  6. family I (XSD 1.1): inheritable attributes present on 0-3 nested elements x position of the error (the descent
     continues on a copy of the context: finding C04-F5, whose repair is emulated in-process for the rest of the
     evaluation);  comment / PI nodes inserted into 9 % of all documents and run on the source kinds that keep them
     (lxml, ElementTree with insert_comments) and that drop them (findings C04-F6 / C04-F7).
  8. what the ROOT element is (harness/lib_c04w.py root_cases), for every schema family: a declared global element
     (each one), an undeclared name with xsi:type naming a complex / simple / builtin / abstract / unknown global
     type with valid and invalid content, an undeclared name without xsi:type, a local-only element name (with and
     without xsi:type), a root in an unknown namespace and in no namespace (with and without xsi:type): the
     validation generator and the decoding generator each have their own look-up of the root declaration.
  9. character data around comment / PI nodes: the inserted node is followed / preceded by text or whitespace in 70 % of
     the comment variants, plus per family one document x 3 positions x {comment, PI} followed by text; unit table of
     the character-data check of element-only content (text x child sequences of elements / comments / PIs x tails)
     from text, lxml and a comment-keeping ElementTree against CharData.hasCdata / hasCdataDropped
     (cdata_check_source_independent).  Finding C04-F7 is matched only when the differing errors are XPath-based.
  7. nested namespace declarations.  Family Q (harness/lib_c04q.py): key / unique / keyref over xs:QName attributes,
     QName element content and lists of QNames, in documents where the prefix of the value is re-bound on the last
     child, a middle child, the last descendant, the selected element itself, a sibling (every field x every
     place, then random); every family: 10 % of the documents again with 1-3 declarations of prefixes that the
     subtree does not use added to inner elements.  All run on every source kind that carries declarations
     (ElementTree sources only when the document has no prefix-dependent value).  In the two recorded runs the
     prefix map in force when `collect_key_fields` is entered is compared, element by element, with the in-scope
     declarations of that element (lxml): the tie of ns_scope_at_element_end for validation AND decoding.

Property evaluation on the real code (independent of Lean): all verdicts of a case are equal,
strict raises the first lax error, lax/skip never raise, data of valid documents are equal for all
modes / sources / API levels, the command exits 0 exactly for valid files.
"""
from __future__ import annotations

import io
import json
import os
import re
import shutil
import subprocess
import sys
import tempfile
from decimal import Decimal
from pathlib import Path
from typing import Any, Callable, Optional

from harness.core import Ctx, Driver, REPO, VERIF
from harness import lib_c04gen as G
from harness import lib_c04v as GV
from harness import lib_c04w as GW
from harness import lib_c04q as GQ

PROPS = 'XsVerif.Props.C04'
AUDIT = 'XsVerif.Audit.C04'
LEAN_TARGETS = ['XsVerif.Props.C04', 'drv_c04']
LEANCHECK = ['XsVerif.Model.Modes', 'XsVerif.Lemmas.Modes', 'XsVerif.Model.AttrDefaults', 'XsVerif.Lemmas.AttrDefaults',
             'XsVerif.Model.NsLeak', 'XsVerif.Model.CharData',
             'XsVerif.Props.C04']
RULE = ('a case is one (XSD version, schema family, generated document); documents are valid instances damaged by '
        '0-5 faults drawn from 24 fault classes (content model, datatypes/facets, attribute uses, xsi:type / '
        'nil / abstract / substitution, key/keyref/unique, ID/IDREF, unknown root name / namespace, XSD 1.1 assertion); '
        'family V: valid instances of a schema whose attributes / simple contents carry default or fixed values of '
        'IDREF / IDREFS / ID (1.1) / QName type, each written or OMITTED by the instance, damaged by 0-3 of 8 fault '
        'classes (target of an omitted constrained IDREF removed, explicit dangling IDREF, prefix of a defaulted QName '
        'unbound, duplicate ID, duplicated defaulted ID, wrong fixed value, missing required, unknown attribute); a '
        'share of all cases is repeated with use_defaults=False on every entry point; family W: 1-4 wildcard carriers '
        '(processContents strict/lax/skip, ##other) with 0-2 attributes and 0-3 child elements from 8 + 15 item classes '
        '(declared valid/invalid, not found, unavailable namespace, not admitted, xsi:type), all items acceptable for '
        'their carrier except 0-3; family I (1.1): inheritable attribute on 0-3 levels x 9 error positions; 9 % of all '
        'documents again with one comment / PI node inserted; family Q: 2-3 items with a QName-valued identity field '
        '(attribute, element, list; key / unique / keyref) x 8 places where the prefix of the value is re-bound x same / '
        'other namespace x same / other local name; 10 % of all documents again with 1-3 unused-prefix declarations '
        'added to inner elements; every case is '
        'run through all entry points x modes x source kinds; non-trivial = the document is invalid, or valid with '
        'more than 3 decoded items; distinct by canonical JSON of (version, family, XML text, path, use_defaults)')
TRUSTED = [
    'the script of a run is obtained by wrapping ValidationContext.raise_or_collect and by observing the items of '
    'the lax generators; whether an error is yielded by the generator itself (direct) is read from the caller frame',
    'source-kind independence and the equality of the error events of validation and decoding are established by '
    'execution (all source kinds / both generators are run for every case), not by proof',
    'errors are identified by (class, location path with prefixes removed, reason text with prefixes removed)',
    'family V: the request of the attribute model is built by introspection (attribute groups of the built schema, '
    'document parsed by lxml); real errors are mapped to the event alphabet of the model by their reason text',
    'wildcard unit table: the look-up outcome (namespace loadable, global declaration present, lax errors of the '
    'declaration on the value) is read from the global maps of the built schema; attribute wildcards are driven through '
    'raw_decode with a context built as ValidationMixin.iter_decode builds it (the component API rejects a pair source)',
    'finding C04-F5 is matched by running the same document with ValidationContext.__copy__ replaced in-process by a '
    'version that shares `errors` and `id_map`; findings C04-F6/F7 by running the same tree without its comment / PI nodes',
    'the prefix map at the end of an element is observed by wrapping XsdElement.collect_key_fields during the two '
    'recorded runs; the call pattern of set_xmlns_context (NsMapper.visit) is tied to the code by the C17 check',
]
ASSUMPTIONS = [
    'fully loaded (non-lazy) resources, no max_depth / hooks arguments (lazy resources are property C06); the path '
    'argument is exercised on the schema family without identity constraints only (under a path iter_errors evaluates '
    'the identity constraints of the ancestors and iter_decode does not; a path selecting undeclared elements is '
    'skipped by iter_errors and reported by iter_decode — both outside the statement of the property)',
    'ElementTree element/tree sources only for documents without prefix-dependent values (QName content, xsi:type)',
    'the component-level API is compared on documents without ID/IDREF faults (it does not enable identity checks)',
    'attribute model (family V): no attribute wildcards, values whitespace-normalised and lexically valid, ID-typed '
    'values in attributes only, all namespace declarations on the root element (checked per document; documents '
    'outside are counted as V:model-skip and still go through the entry-point comparison)',
    'documents with comment / PI nodes: the child position printed in "Unexpected child … at position N" is not '
    'compared (tree sources count the nodes), the component level is not run',
]

FINDINGS_FILES = [VERIF / 'notes' / 'findings' / 'C04.json', VERIF / 'notes' / 'findings' / 'C11.json']

MODES = ('strict', 'lax', 'skip')


# --------------------------------------------------------------------------------------------
# known findings

def local_findings() -> list[dict]:
    out = []
    for p in FINDINGS_FILES:
        if p.exists():
            out.extend(json.loads(p.read_text()).get('findings', []))
    return out


def known_match(case: dict, detail: Any) -> Optional[str]:
    """Exact rules of the findings that can show up in this check (see notes/findings/C04.json, C11.json).

    C04-F2  only reference-phase errors (IDREF … not found) exist and only the decoding entry points miss them.
    C04-F3  strict raises the union's generic "invalid value" decode error where lax collects the facet error of a
            member type, at the same location, for an element declared with a union type.
    C04-F5  the errors that a lax run loses are exactly recovered when ValidationContext.__copy__ shares the error
            list (emulated in-process), and then strict raises the first lax error.
    C04-F6  a tree source that keeps comment / PI nodes gives another outcome than the text source, the same tree
            without those nodes gives the outcome of the text source, and the tree reports "a simple content element
            can't have child elements" / "xsi:nil='true' but the element is not empty".
    C04-F7  as C04-F6 without one of these two errors (character data after a comment / PI is not read: mixed and
            xs:anyType content, XPath-based assertions and identity fields).
    C04-F8  as C04-F6, where the only differing errors are "character data is not allowed because content is empty"
            errors that the text source reports and the comment-keeping tree does not.
    C11-F4  OverflowError raised by a skip-mode decoding entry point for a value the lax run reports as
            'year overflow' style decode error.
    C11-F5  XMLSchemaKeyError "global component … not found" for an xsi:type attribute on a non-root element.
    C11-F7  XMLSchemaKeyError "the namespace '<ns>' is not loaded" from a decoding entry point where <ns> is the
            namespace of the document's root element.
    """
    if not isinstance(detail, dict):
        return None
    import html
    if isinstance(case.get('xml'), str) and '&' in case['xml']:
        case = dict(case, xml=html.unescape(case['xml']))
    kind = detail.get('kind')
    if kind == 'context-copy' and detail.get('exact'):
        return 'C04-F5'
    if kind == 'comment-nodes' and detail.get('attributable'):
        if detail.get('simple_content_or_nil'):
            return 'C04-F6'
        if detail.get('only_empty_content_errors_missing_in_tree'):
            return 'C04-F8'
        return 'C04-F7' if detail.get('differing_errors_are_xpath_based') else None
    if kind == 'verdict' and detail.get('only_reference_errors') and detail.get('dissenting_all_decode'):
        return 'C04-F2'
    if kind == 'first-error' and union_f3(detail.get('raised'), detail.get('first')):
        return 'C04-F3'
    if kind == 'exception':
        exc, entry, msg = detail.get('exc'), detail.get('entry', ''), detail.get('msg', '')
        if exc == 'OverflowError' and entry.endswith(':skip'):
            return 'C11-F4'
        m = re.search(r"the namespace '([^']*)' is not loaded", msg)
        if exc == 'XMLSchemaKeyError' and m and re.search(r'(decode|to_dict)', entry):
            rm = re.match(r'<(?:(\w+):)?\w+', case.get('xml', ''))
            if rm:
                pfx = rm.group(1)
                decl = re.search(r'xmlns%s="([^"]*)"' % (':' + pfx if pfx else ''), case['xml'])
                if (decl.group(1) if decl else '') == m.group(1):
                    return 'C11-F7'
            return None
        if exc == 'XMLSchemaKeyError' and 'global component' in msg and 'not found' in msg:
            m = re.search(r"global component '([^']*)'", msg)
            name = m.group(1) if m else ''
            local = name.split('}')[-1].split(':')[-1]
            if re.search(r'xsi:type="[^"]*%s"' % re.escape(local), case.get('xml', '')):
                return 'C11-F5'
    return None


def union_f3(raised: Optional[str], first: Optional[str]) -> bool:
    """Exact rule of C04-F3 on two error keys 'class|path|reason'."""
    if not raised or not first:
        return False
    rc, rp, rr = raised.split('|', 2)
    fc, fp, fr = first.split('|', 2)
    last = re.sub(r'\[\d+\]$', '', rp.rsplit('/', 1)[-1])
    return (rc == 'XMLSchemaDecodeError' and rr.startswith('invalid value ') and rp == fp
            and fc != 'XMLSchemaDecodeError' and (last in G.UNION_ELEMENTS or rp == ''))


def report(ctx: Ctx, what: str, case: dict, detail: Any) -> None:
    fid = known_match(case, detail)
    if fid and any(e['id'] == fid and e.get('status') == 'known' for e in ctx.known):
        ctx.known_hit(fid, case, detail)
    else:
        ctx.failure(what, case, detail)


# --------------------------------------------------------------------------------------------
# canonical forms

PREFIX_RE = re.compile(r'\b(?:p|o|t|k|zz|xsi|xs):(?=[A-Za-z_])')
CLARK_RE = re.compile(r'\{[^}]*\}')
ADDR_RE = re.compile(r' at 0x[0-9a-fA-F]+')


STRIP_POSITION = [False]      # documents with comment / PI nodes: child positions count those nodes in tree sources
POSITION_RE = re.compile(r' at position \d+')


def norm_text(s: Optional[str]) -> str:
    if s is None:
        return ''
    if STRIP_POSITION[0]:
        s = POSITION_RE.sub('', s)
    s = ADDR_RE.sub('', s)
    s = CLARK_RE.sub('', s)
    s = PREFIX_RE.sub('', s)
    return s.replace('.', '').strip()


def err_key(e: Any) -> str:
    try:
        path = e.path
    except Exception:
        path = None
    return '%s|%s|%s' % (type(e).__name__, norm_text(path), norm_text(e.reason))


def canon_data(d: Any) -> Any:
    """Decoded data with names expanded through the document-wide prefix map and xmlns entries dropped."""
    if isinstance(d, dict):
        out = {}
        dropped_xmlns = False
        for k, v in d.items():
            if isinstance(k, str):
                if k.startswith('@xmlns'):
                    dropped_xmlns = True
                    continue
                k = canon_name(k)
            out[str(k)] = canon_data(v)
        if dropped_xmlns and set(out) == {'$'}:
            # a simple-content element whose only attributes are namespace declarations (a source without
            # declarations, e.g. an ElementTree element, gives the bare value)
            return out['$']
        return {k: out[k] for k in sorted(out)}
    if isinstance(d, (list, tuple)):
        return [canon_data(x) for x in d]
    if isinstance(d, Decimal):
        return 'dec:' + str(d.normalize() if d == d else d)
    if isinstance(d, float):
        return 'float:' + repr(d)
    if isinstance(d, (str, int, bool)) or d is None:
        return d
    return '%s:%s' % (type(d).__name__, d)


EXTRA_NSMAP = {'k': 'urn:k', 'zz': 'urn:zz'}       # family W: the imported namespace


def canon_name(k: str) -> str:
    at = k.startswith('@')
    name = k[1:] if at else k
    if name.startswith('{'):
        pass
    elif ':' in name:
        p, loc = name.split(':', 1)
        if p in G.NSMAP:
            name = '{%s}%s' % (G.NSMAP[p], loc)
        elif p in EXTRA_NSMAP:
            name = '{%s}%s' % (EXTRA_NSMAP[p], loc)
    return ('@' if at else '') + name


def canon_data_ns(d: Any, default_ns: str) -> Any:
    """As canon_data; unprefixed element names are put into `default_ns` (documents written with xmlns=…)."""
    def walk(x: Any) -> Any:
        if isinstance(x, dict):
            out = {}
            for k, v in x.items():
                if isinstance(k, str) and k and k[0] not in '@${' and default_ns:
                    k = '{%s}%s' % (default_ns, k)
                out[k] = walk(v)
            return {k: out[k] for k in sorted(out)}
        if isinstance(x, list):
            return [walk(y) for y in x]
        return x
    return walk(canon_data(d))


# --------------------------------------------------------------------------------------------
# recording

class Recorder:
    """Wraps ValidationContext.raise_or_collect; log entries ('call', 'c'|'d', mode, error) / ('yield', item)."""

    def __init__(self) -> None:
        self.log: list = []
        self.active = False
        self.ns_obs: list = []
        self.orig_ckf = None

    def install(self) -> None:
        import xmlschema.validators.validation as V
        rec = self
        orig = V.ValidationContext.raise_or_collect
        if getattr(orig, '_verif_wrapped', False):
            self.orig = orig._verif_orig
            return
        self.orig = orig

        def raise_or_collect(ctx_self, validation, error):
            if rec.active:
                g = sys._getframe(2)
                direct = (g.f_code.co_name in ('iter_errors', 'iter_decode', 'raw_decoder', '_validate_references')
                          and g.f_code.co_filename.endswith('schemas.py'))
                rec.log.append(('call', 'd' if direct else 'c', validation, error, g.f_code.co_name))
            return orig(ctx_self, validation, error)

        raise_or_collect._verif_wrapped = True
        raise_or_collect._verif_orig = orig
        V.ValidationContext.raise_or_collect = raise_or_collect
        self.wrapper = raise_or_collect

        # observation of the prefix map in force when the identity fields of an element are collected
        import xmlschema.validators.elements as E
        self.E = E
        self.orig_ckf = orig_ckf = E.XsdElement.collect_key_fields

        def collect_key_fields(el_self, obj, xsd_type, validation, nilled, context):
            if rec.active:
                rec.ns_obs.append((obj, dict(context.namespaces), context.source))
            return orig_ckf(el_self, obj, xsd_type, validation, nilled, context)

        E.XsdElement.collect_key_fields = collect_key_fields

    def uninstall(self) -> None:
        import xmlschema.validators.validation as V
        V.ValidationContext.raise_or_collect = self.orig
        if self.orig_ckf is not None:
            self.E.XsdElement.collect_key_fields = self.orig_ckf

    def record(self, make_gen: Callable[[], Any], mode: str = 'lax') -> list:
        """Chronological log of a run in `mode`.  Calls made with another mode are the internal *trial* decodings
        (XsdUnion tries every member type with 'strict' and catches the error, simple_types.py:1184-1190): they are
        not error events of the run and are dropped."""
        self.log = []
        self.ns_obs = []
        self.active = True
        try:
            for item in make_gen():
                self.log.append(('yield', item))
        finally:
            self.active = False
        return [ev for ev in self.log if ev[0] != 'call' or ev[2] == mode]


def ns_scope_mismatches(xml: str, obs: list) -> list:
    """The prefix maps observed when identity fields were collected against the XML Namespaces scoping rules
    (in-scope declarations of the same element, computed by lxml): [(element index, tag, observed, in scope)]."""
    import lxml.etree as LE
    try:
        root = LE.fromstring(xml.encode('utf-8'))
    except LE.XMLSyntaxError:
        return []
    elems = [e for e in root.iter() if isinstance(e.tag, str)]
    prefixes = sorted({p for e in elems for p in e.nsmap if p})
    out = []
    index: dict = {}
    for obj, ns, source in obs:
        r = getattr(source, 'root', None)
        if r is None:
            continue
        if id(r) not in index:
            index[id(r)] = {id(e): i for i, e in enumerate(r.iter())}
        i = index[id(r)].get(id(obj))
        if i is None or i >= len(elems) or elems[i].tag != obj.tag:
            continue
        want = {p: elems[i].nsmap.get(p) for p in prefixes}
        got = {p: ns.get(p) for p in prefixes}
        if want != got:
            out.append((i, obj.tag, got, want))
    return out


class Ids:
    def __init__(self) -> None:
        self.err: dict[str, int] = {}
        self.data: dict[str, int] = {}
        self.ref_keys: set[str] = set()      # errors emitted by XMLSchemaBase._validate_references

    def e(self, key: str) -> int:
        return self.err.setdefault(key, len(self.err))

    def d(self, canon: Any) -> int:
        return self.data.setdefault(json.dumps(canon, sort_keys=True, default=str), len(self.data))


def build_script(log: list, ids: Ids, canon: Callable[[Any], Any]) -> tuple[list, list]:
    from xmlschema import XMLSchemaValidationError
    steps: list = []
    pending: list = []
    in_flush = False
    last_direct = None
    anomalies: list[str] = []
    for ev in log:
        if ev[0] == 'call':
            _, kind, _mode, err, caller = ev
            if kind == 'c':
                steps.append(['c', ids.e(err_key(err))])
                pending.append(err)
                in_flush = False
            else:
                # the reference check finds nothing in a skip run (its input is filled by non-skip decoding only)
                steps.append(['d', ids.e(err_key(err)), caller != '_validate_references'])
                if caller == '_validate_references':
                    ids.ref_keys.add(err_key(err))
                last_direct = err
        else:
            item = ev[1]
            if isinstance(item, XMLSchemaValidationError):
                if item is last_direct:
                    last_direct = None
                elif pending and item is pending[0]:
                    if not in_flush:
                        steps.append(['f'])
                        in_flush = True
                    pending.pop(0)
                    if not pending:
                        in_flush = False
                else:
                    anomalies.append('yielded error not explained by the script: ' + err_key(item))
            else:
                steps.append(['r', ids.d(canon(item))])
    if pending:
        anomalies.append('collected errors were never yielded')
    return steps, anomalies


# --------------------------------------------------------------------------------------------
# sources

SOURCE_KINDS = ['text', 'bytes', 'path', 'url', 'ftext', 'fbin', 'sio', 'bio', 'res', 'lxml', 'lxmltree', 'et', 'ettree']
ET_KINDS = ('et', 'ettree', 'etc')
COMMENT_KEEPING_KINDS = ('lxml', 'lxmltree', 'etc')      # tree sources in which comment / PI nodes exist
CM_KINDS = ['text', 'path', 'lxml', 'lxmltree', 'et', 'etc', 'res']


class Sources:
    def __init__(self, xml: str, tmpdir: Path, name: str):
        self.xml = xml
        self.path = tmpdir / (name + '.xml')
        self.path.write_text(xml, encoding='utf-8')
        self.opened: list = []

    def make(self, kind: str) -> Any:
        import xmlschema
        from xml.etree import ElementTree as ET
        import lxml.etree as LE
        if kind == 'text':
            return self.xml
        if kind == 'bytes':
            return self.xml.encode('utf-8')
        if kind == 'path':
            return str(self.path)
        if kind == 'url':
            return self.path.as_uri()
        if kind == 'ftext':
            f = open(self.path, encoding='utf-8')
            self.opened.append(f)
            return f
        if kind == 'fbin':
            f = open(self.path, 'rb')
            self.opened.append(f)
            return f
        if kind == 'sio':
            return io.StringIO(self.xml)
        if kind == 'bio':
            return io.BytesIO(self.xml.encode('utf-8'))
        if kind == 'res':
            return xmlschema.XMLResource(self.xml)
        if kind == 'lxml':
            return LE.fromstring(self.xml.encode('utf-8'))
        if kind == 'lxmltree':
            return LE.parse(str(self.path))
        if kind == 'et':
            return ET.fromstring(self.xml)
        if kind == 'ettree':
            return ET.parse(str(self.path))
        if kind == 'etc':
            return ET.fromstring(self.xml, parser=ET.XMLParser(target=ET.TreeBuilder(insert_comments=True, insert_pis=True)))
        raise ValueError(kind)

    def make_stripped(self, kind: str) -> Any:
        """The same tree source without its comment / PI nodes (character data joined)."""
        from xml.etree import ElementTree as ET
        import lxml.etree as LE
        if kind == 'lxml':
            root = LE.fromstring(self.xml.encode('utf-8'))
            LE.strip_tags(root, LE.Comment, LE.ProcessingInstruction)
            return root
        if kind == 'lxmltree':
            tree = LE.parse(str(self.path))
            LE.strip_tags(tree, LE.Comment, LE.ProcessingInstruction)
            return tree
        if kind == 'etc':
            return ET.fromstring(self.xml)
        raise ValueError(kind)

    def close(self) -> None:
        for f in self.opened:
            try:
                f.close()
            except Exception:
                pass
        self.opened = []


# --------------------------------------------------------------------------------------------
# entry points: each returns a canonical outcome (JSON-able)

def outcome(fn: Callable[[], Any]) -> Any:
    from xmlschema import XMLSchemaValidationError
    try:
        return fn()
    except XMLSchemaValidationError as e:
        return {'raise': err_key(e)}
    except RecursionError:
        raise
    except Exception as e:  # noqa
        return {'exc': type(e).__name__, 'msg': str(e)[:200]}


def entry_points(schema: Any, canon: Callable[[Any], Any], path: Optional[str] = None,
                 extra: Optional[dict] = None) -> dict[str, Callable[[Any], Any]]:
    import xmlschema
    from xmlschema import XMLSchemaValidationError
    cls = type(schema)
    kw: dict[str, Any] = {'path': path} if path else {}
    kw.update(extra or {})

    def gen_items(g: Any) -> Any:
        items: list = []
        try:
            for it in g:
                items.append(['e', err_key(it)] if isinstance(it, XMLSchemaValidationError) else ['d', canon(it)])
        except XMLSchemaValidationError as e:
            return {'items': items, 'raised': err_key(e)}
        return {'items': items, 'raised': None}

    def dec(res: Any, mode: str) -> Any:
        if mode == 'lax':
            if not (isinstance(res, tuple) and len(res) == 2 and isinstance(res[1], list)):
                return {'bad_shape': 'lax decoding did not return (data, error list)', 'type': type(res).__name__}
            return {'ok': {'data': canon(res[0]), 'errors': [err_key(e) for e in res[1]]}}
        return {'ok': {'data': canon(res)}}

    eps: dict[str, Callable[[Any], Any]] = {
        'is_valid': lambda s: {'ok': schema.is_valid(s, **kw)},
        'iter_errors': lambda s: {'ok': [err_key(e) for e in schema.iter_errors(s, **kw)]},
        'validate': lambda s: {'ok': schema.validate(s, **kw)},
        'pkg.is_valid': lambda s: {'ok': xmlschema.is_valid(s, schema, cls=cls, **kw)},
        'pkg.iter_errors': lambda s: {'ok': [err_key(e) for e in xmlschema.iter_errors(s, schema, cls=cls, **kw)]},
        'pkg.validate': lambda s: {'ok': xmlschema.validate(s, schema, cls=cls, **kw)},
    }
    for m in MODES:
        eps['decode:' + m] = (lambda s, m=m: dec(schema.decode(s, validation=m, **kw), m))
        eps['iter_decode:' + m] = (lambda s, m=m: gen_items(schema.iter_decode(s, validation=m, **kw)))
        eps['pkg.to_dict:' + m] = (lambda s, m=m: dec(xmlschema.to_dict(s, schema, cls=cls, validation=m, **kw), m))
        eps['pkg.iter_decode:' + m] = (lambda s, m=m: gen_items(xmlschema.iter_decode(s, schema, cls=cls, validation=m, **kw)))
    return eps


def verdict_of(entry: str, out: Any) -> Optional[bool]:
    """The verdict an outcome expresses (None: this entry point expresses none / an exception escaped)."""
    if not isinstance(out, dict) or 'exc' in out:
        return None
    base = entry.split('.', 1)[-1]
    name, _, mode = base.partition(':')
    if name == 'is_valid':
        return out.get('ok') if 'ok' in out else None
    if name == 'iter_errors':
        return out['ok'] == [] if 'ok' in out else None
    if name == 'validate':
        return 'ok' in out
    if name in ('decode', 'to_dict'):
        if mode == 'strict':
            return 'ok' in out
        if mode == 'lax':
            return out['ok']['errors'] == [] if 'ok' in out else None
        return None
    if name == 'iter_decode':
        if mode == 'skip':
            return None
        return out.get('raised') is None and not any(i[0] == 'e' for i in out.get('items', []))
    return None


# --------------------------------------------------------------------------------------------
# prediction from the driver's answer

def predict(ans: dict, ids: Ids) -> dict[str, Any]:
    ek = {v: k for k, v in ids.err.items()}
    dk = {v: json.loads(k) for k, v in ids.data.items()}

    def shape(s: dict) -> Any:
        if s['shape'] == 'none':
            return None
        if s['shape'] == 'one':
            return dk[s['d']]
        return [dk[x] for x in s['d']]

    def dec(o: dict, lax: bool) -> Any:
        if 'raise' in o:
            return {'raise': ek[o['raise']]}
        r = {'data': shape(o['ok']['data'])}
        if lax:
            r['errors'] = [ek[x] for x in o['ok']['errors']]
        return {'ok': r}

    def gen(g: dict) -> Any:
        return {'items': [['e', ek[i[1]]] if i[0] == 'e' else ['d', dk[i[1]]] for i in g['items']],
                'raised': None if g['raised'] is None else ek[g['raised']]}

    p: dict[str, Any] = {
        'is_valid': {'ok': ans['isValid']['ok']} if 'ok' in ans['isValid'] else {'raise': ek[ans['isValid']['raise']]},
        'iter_errors': {'ok': [ek[x] for x in ans['iterErrors']]},
        'validate': {'ok': None} if 'ok' in ans['validate'] else {'raise': ek[ans['validate']['raise']]},
    }
    for m in MODES:
        p['decode:' + m] = dec(ans['decode'][m], m == 'lax')
        p['iter_decode:' + m] = gen(ans['iterDecode'][m])
    for k in list(p):
        name = k.replace('decode:', 'to_dict:') if k.startswith('decode:') else k
        p['pkg.' + name] = p[k]
    return p


# --------------------------------------------------------------------------------------------

class Env:
    def __init__(self, ctx: Ctx):
        import xmlschema
        self.ctx = ctx
        self.tmp = Path(tempfile.mkdtemp(prefix='verif-c04-'))
        self.schemas: dict = {}
        self.xsd_paths: dict = {}
        (self.tmp / GW.WK_FILE).write_text(GW.XSD_WK)
        for fam in 'TNVWQ':
            for v11 in (False, True):
                text = GV.xsd_text(v11) if fam == 'V' else GW.xsd_text(v11) if fam == 'W' else \
                    GQ.xsd_text(v11) if fam == 'Q' else G.xsd_text(fam, v11)
                p = self.tmp / ('schema_%s_%s.xsd' % (fam, '11' if v11 else '10'))
                p.write_text(text)
                self.xsd_paths[fam, v11] = p
                # family W imports a second schema document: built from the file
                self.schemas[fam, v11] = (xmlschema.XMLSchema11 if v11 else xmlschema.XMLSchema10)(str(p) if fam == 'W' else text)
        pi = self.tmp / 'schema_I_11.xsd'
        pi.write_text(GW.XSD_I)
        self.xsd_paths['I', True] = pi
        self.schemas['I', True] = xmlschema.XMLSchema11(GW.XSD_I)
        self.rec = Recorder()
        self.rec.install()
        self.n = 0

    def close(self) -> None:
        self.rec.uninstall()
        shutil.rmtree(self.tmp, ignore_errors=True)


def canon_for(case: dict) -> Callable[[Any], Any]:
    if case['family'] == 'T' and case['style'] == 'default':
        return lambda d: canon_data_ns(d, G.TNS)
    return canon_data


def public_case(case: dict) -> dict:
    return {k: case[k] for k in ('v', 'family', 'style', 'xml', 'faults', 'prefix_dependent', 'path', 'ud', 'lite', 'cm', 'nsv') if k in case}


class SharedCopy:
    """Emulates the repair of finding C04-F5 in this process: a copied validation context shares the error list and
    the ID map of the original (nothing in /repo is touched)."""

    def __enter__(self) -> 'SharedCopy':
        import xmlschema.validators.validation as V
        self.V = V
        self.orig = orig = V.ValidationContext.__copy__

        def __copy__(ctx_self: Any) -> Any:
            c = orig(ctx_self)
            c.errors = ctx_self.errors
            c.id_map = ctx_self.id_map
            return c

        V.ValidationContext.__copy__ = __copy__
        return self

    def __exit__(self, *a: Any) -> None:
        self.V.ValidationContext.__copy__ = self.orig


def is_subsequence(a: list, b: list) -> bool:
    it = iter(b)
    return all(any(x == y for y in it) for x in a)


def run_case(env: Env, case: dict, kinds: list[str], reqs: Optional[list], pend: Optional[list]) -> None:
    """One case; the two configurations that need care around the plain run:
    * documents with comment / PI nodes: child positions in error texts are not compared;
    * schemas with inheritable attributes (XSD 1.1): finding C04-F5 is detected and matched exactly, and the
      evaluation then runs on the repaired behaviour (emulated in-process)."""
    ctx = env.ctx
    STRIP_POSITION[0] = bool(case.get('cm'))
    try:
        if case['family'] == 'I':
            schema = env.schemas['I', True]
            pc = public_case(case)
            xml = case['xml']
            try:
                real = [err_key(e) for e in schema.iter_errors(xml)]
                strict = outcome(lambda: {'ok': schema.validate(xml)})
                with SharedCopy():
                    emu = [err_key(e) for e in schema.iter_errors(xml)]
                    strict_emu = outcome(lambda: {'ok': schema.validate(xml)})
            except RecursionError:
                raise
            except Exception as e:  # noqa
                report(ctx, 'a lax run raised instead of collecting', pc,
                       {'kind': 'exception', 'exc': type(e).__name__, 'msg': str(e)[:200], 'entry': 'iter_errors'})
                return
            if real != emu:
                ctx.count('I:errors-lost-below-a-context-copy')
                exact = is_subsequence(real, emu) and strict == strict_emu and \
                    strict.get('raise') == (emu[0] if emu else None)
                n_before = len(ctx.failures)
                report(ctx, 'errors collected below an element that carries an inheritable attribute are lost in lax mode',
                       pc, {'kind': 'context-copy', 'lax': real, 'lax_with_shared_errors': emu, 'strict': strict,
                            'exact': exact})
                if len(ctx.failures) == n_before:
                    with SharedCopy():
                        _run_case(env, case, kinds, reqs, pend)
                    return
        _run_case(env, case, kinds, reqs, pend)
    finally:
        STRIP_POSITION[0] = False


# errors produced by the XPath-based machinery (identity constraints, XSD 1.1 assertions)
XPATH_ERROR_RE = re.compile(r'duplicated value|missing key|not found for|\[err:|assertion|XsdKeyref|XsdUnique|XsdKey|Xsd11')


def comment_attribution(env: Env, case: dict, pc: dict, src: 'Sources', eps: dict, outs: dict, kinds: list[str]) -> list[str]:
    """Documents with comment / PI nodes: a tree source that keeps those nodes must give the outcome of the text
    source.  Where it does not, the same tree WITHOUT the nodes is run: equal to the text source = the difference is
    attributable to the nodes (findings C04-F6 / C04-F7, matched exactly by this test); such a source is then taken
    out of the rest of the evaluation.  Returns the remaining kinds."""
    ctx = env.ctx
    base = outs['text']
    keep = []
    for kind in kinds:
        if kind not in COMMENT_KEEPING_KINDS or outs[kind] == base:
            keep.append(kind)
            continue
        stripped = {}
        for name, fn in eps.items():
            s = src.make_stripped(kind)
            stripped[name] = outcome(lambda: fn(s))
        attributable = stripped == base
        tree_errors = outs[kind].get('iter_errors', {}).get('ok') or [] if isinstance(outs[kind].get('iter_errors'), dict) else []
        simple = any("a simple content element can't have child elements" in r or
                     "nil='true' but the element is not empty" in r for r in tree_errors)
        differing = sorted(n for n in base if outs[kind].get(n) != base.get(n))
        # which errors differ: C04-F7 is about values read through XPath (assertions, identity fields) and about decoded
        # data; an ordinary validation error that only one of the two sources reports is another matter
        text_errors = base.get('iter_errors', {}).get('ok') or [] if isinstance(base.get('iter_errors'), dict) else []
        err_diff = sorted(set(tree_errors) ^ set(text_errors))
        xpath_only = all(XPATH_ERROR_RE.search(r) for r in err_diff)
        empty_only = bool(err_diff) and all('character data is not allowed because content is empty' in r and
                                            r in text_errors and r not in tree_errors for r in err_diff)
        n_before = len(ctx.failures)
        ctx.count('cm:outcome-differs:' + kind)
        report(ctx, 'comment / PI nodes of a tree source change the outcome (verdict or data depend on the source kind)', pc,
               {'kind': 'comment-nodes', 'source': kind, 'attributable': attributable, 'simple_content_or_nil': simple,
                'differing_errors': err_diff[:6], 'differing_errors_are_xpath_based': xpath_only,
                'only_empty_content_errors_missing_in_tree': empty_only,
                'differing_entry_points': differing[:8], 'text:iter_errors': base.get('iter_errors'),
                '%s:iter_errors' % kind: outs[kind].get('iter_errors'),
                'text:decode:lax': json.dumps(base.get('decode:lax'), default=str)[:300],
                '%s:decode:lax' % kind: json.dumps(outs[kind].get('decode:lax'), default=str)[:300]})
        if len(ctx.failures) != n_before:
            keep.append(kind)       # not a listed finding: the source stays in the evaluation
        else:
            del outs[kind]
    return keep


def _run_case(env: Env, case: dict, kinds: list[str], reqs: Optional[list], pend: Optional[list]) -> None:
    """Run one case on the real code: record scripts, call every entry point, evaluate the property."""
    ctx = env.ctx
    v11 = case['v'] == '1.1'
    schema = env.schemas[case['family'], v11]
    canon = canon_for(case)
    pc = public_case(case)
    env.n += 1
    src = Sources(case['xml'], env.tmp, 'doc%d' % env.n)
    path = case.get('path')
    ud = case.get('ud', True)
    xkw: dict[str, Any] = {} if ud else {'use_defaults': False}
    eps = entry_points(schema, canon, path, xkw)
    ids = Ids()
    pkw: dict[str, Any] = {'path': path} if path else {}
    pkw.update(xkw)

    # 1. record the two lax scripts (text source)
    scripts = None
    vc_events = None
    try:
        log_v = env.rec.record(lambda: schema.iter_errors(case['xml'], **pkw))
        ns_v = env.rec.ns_obs
        sv, an_v = build_script(log_v, ids, canon)
        log_d = env.rec.record(lambda: schema.iter_decode(case['xml'], validation='lax', **pkw))
        ns_d = env.rec.ns_obs
        sd, an_d = build_script(log_d, ids, canon)
        if (ns_v or ns_d) and 'xmlns' in case['xml'][case['xml'].find('>'):]:
            # nested namespace declarations: the map in force where identity fields are resolved must be the
            # element's own scope, in the validation run and in the decoding run (ns_scope_at_element_end)
            ctx.count('ns-scope:elements-observed', len(ns_v) + len(ns_d))
            for which, obs in (('iter_errors', ns_v), ('iter_decode', ns_d)):
                bad = ns_scope_mismatches(case['xml'], obs)
                ctx.traces += 1
                if bad:
                    ctx.mismatch('prefix map when the identity fields of an element are collected (%s)' % which, pc,
                                 [(i, t, g) for i, t, g, _w in bad[:3]], [(i, t, w) for i, t, _g, w in bad[:3]])
        scripts = (sv, sd, an_v + an_d)
        vc_events = tuple([x for x in (GV.event_of(ev[3].reason) for ev in lg if ev[0] == 'call') if x]
                          for lg in (log_v, log_d))
    except RecursionError:
        raise
    except Exception as e:  # a lax run raised: property failure unless it is a listed finding
        report(ctx, 'a lax run raised instead of collecting', pc,
               {'kind': 'exception', 'exc': type(e).__name__, 'msg': str(e)[:200], 'entry': 'iter_errors/iter_decode:lax'})

    # 2. every entry point on every source kind
    outs: dict[str, dict[str, Any]] = {}
    for kind in kinds:
        outs[kind] = {}
        for name, fn in eps.items():
            s = src.make(kind)
            outs[kind][name] = outcome(lambda: fn(s))
        src.close()
    if case.get('cm'):
        kinds = comment_attribution(env, case, pc, src, eps, outs, kinds)

    # 3. the property itself, directly on the outcomes ------------------------------------------
    verdicts: dict[tuple[str, str], bool] = {}
    for kind in kinds:
        for name, out in outs[kind].items():
            mode = name.rpartition(':')[2] if ':' in name else ('strict' if name.endswith('validate') else 'lax')
            if isinstance(out, dict) and 'bad_shape' in out:
                ctx.failure('lax decoding did not return (data, error list)', pc, {'entry': name, 'source': kind, 'out': out})
                continue
            if isinstance(out, dict) and 'exc' in out:
                # an exception that is not a validation error escaped
                report(ctx, 'an entry point raised something else than a validation error', pc,
                       {'kind': 'exception', 'exc': out['exc'], 'msg': out['msg'], 'entry': name, 'source': kind})
                continue
            if mode in ('lax', 'skip') and isinstance(out, dict) and ('raise' in out or out.get('raised')):
                report(ctx, '%s mode raised a validation error' % mode, pc,
                       {'kind': 'lax-raise', 'entry': name, 'source': kind, 'out': out})
                continue
            v = verdict_of(name, out)
            if v is not None:
                verdicts[kind, name] = v
    if verdicts and len(set(verdicts.values())) > 1:
        ref = outs['text'].get('iter_errors', {}).get('ok')
        yes = sorted('%s/%s' % k for k, v in verdicts.items() if v)
        no = sorted('%s/%s' % k for k, v in verdicts.items() if not v)
        minority = yes if len(yes) <= len(no) else no
        only_refs = bool(ref) and all(k in ids.ref_keys for k in ref)
        dissent_decode = all(re.search(r'/(pkg\.)?(decode|to_dict|iter_decode):', x) for x in yes) and \
            all(not re.search(r'/(pkg\.)?(decode|to_dict|iter_decode):', x) for x in no)
        report(ctx, 'entry points disagree on the verdict', pc,
               {'kind': 'verdict', 'valid_says': yes[:12], 'invalid_says': no[:12], 'minority': minority[:12],
                'iter_errors': ref, 'only_reference_errors': only_refs, 'dissenting_all_decode': dissent_decode})
    # strict raises precisely the first lax error
    for kind in kinds:
        o = outs[kind]
        pairs = [('validate', 'iter_errors'), ('pkg.validate', 'pkg.iter_errors'),
                 ('decode:strict', 'decode:lax'), ('pkg.to_dict:strict', 'pkg.to_dict:lax'),
                 ('iter_decode:strict', 'iter_decode:lax'), ('pkg.iter_decode:strict', 'pkg.iter_decode:lax')]
        for a, b in pairs:
            oa, ob = o.get(a), o.get(b)
            if not isinstance(oa, dict) or not isinstance(ob, dict) or 'exc' in oa or 'exc' in ob:
                continue
            raised = oa.get('raise') or oa.get('raised')
            if b.endswith('iter_errors'):
                lax = ob.get('ok', [])
            elif 'iter_decode' in b:
                lax = [i[1] for i in ob.get('items', []) if i[0] == 'e']
            else:
                lax = ob.get('ok', {}).get('errors', [])
            first = lax[0] if lax else None
            if raised != first and (raised is not None and first is not None):
                report(ctx, 'strict mode does not raise the first error that lax mode collects', pc,
                       {'kind': 'first-error', 'source': kind, 'strict': a, 'raised': raised, 'lax': b, 'first': first})
    # data of a valid document: equal for all modes / sources / API levels
    all_valid = bool(verdicts) and all(verdicts.values())
    if all_valid:
        datas: dict[str, list] = {}
        for kind in kinds:
            for name, out in outs[kind].items():
                if not isinstance(out, dict):
                    continue
                if 'decode:' in name or 'to_dict:' in name:
                    if 'ok' in out:
                        d = out['ok']['data']
                    else:
                        continue
                elif 'iter_decode:' in name:
                    ds = [i[1] for i in out.get('items', []) if i[0] == 'd']
                    d = ds[0] if len(ds) == 1 else ds
                else:
                    continue
                datas.setdefault(json.dumps(d, sort_keys=True, default=str), []).append('%s/%s' % (kind, name))
        if len(datas) > 1:
            groups = sorted(datas.items(), key=lambda kv: len(kv[1]))
            ctx.failure('decoded data of a valid document depend on the mode / source kind / entry point', pc,
                        {'minority': groups[0][1][:8], 'minority_data': groups[0][0][:400],
                         'majority_data': groups[-1][0][:400]})

    # statistics
    invalid = bool(verdicts) and not all(verdicts.values())
    nerr = len(outs['text'].get('iter_errors', {}).get('ok', []) or []) if isinstance(outs['text'].get('iter_errors'), dict) else 0
    ctx.case({'v': case['v'], 'family': case['family'], 'xml': case['xml'], 'path': path, 'ud': ud},
             invalid or len(case['xml']) > 400,
             tag='%s/%s%s%s' % (case['v'], case['family'], '/path' if path else '', ('' if ud else '/use_defaults=False') + ('/comments' if case.get('cm') else '') +
                 ('/redeclared' if case.get('nsv') else '')))
    ctx.count('use_defaults:' + ('on' if ud else 'off'))
    for t in case.get('omitted', []):
        ctx.count('V:omitted:' + t)           # value constraint in effect: the instance omits the attribute / text
    for t in case.get('explicit', []):
        ctx.count('V:explicit:' + t)
    for t in case.get('idims', []):
        ctx.count('I:' + t)
    for t in case.get('qdims', []):
        ctx.count('Q:' + t)                    # identity field kind, where the prefix is re-bound, …
    for t in case.get('rdims', []):
        ctx.count('root:' + t)
    for t in case.get('nsv', []):
        ctx.count('redeclared:' + t)           # meaning-preserving nested namespace declaration
    if case.get('cm'):
        ctx.count('cm:' + case['cm'])
    for t in case.get('dims', []):
        ctx.count('W:' + t)                    # wildcard kind : processContents : what the name resolves to
    ctx.count('verdict:' + ('invalid' if invalid else 'valid'))
    ctx.count('errors:%s' % (nerr if nerr < 5 else '5+'))
    for f in case.get('faults', []):
        ctx.count('fault:' + f.split(' ')[0] + ' ' + ' '.join(f.split(' ')[1:3]))
    ctx.count('entry_point_calls', sum(len(o) for o in outs.values()))

    # 4. queue the model comparison
    if scripts is not None and reqs is not None:
        sv, sd, anomalies = scripts
        if anomalies:
            ctx.mismatch('script reconstruction', pc, anomalies, None)
        reqs.append({'op': 'api', 'sv': sv, 'sd': sd})
        pend.append(('api', pc, ids, outs, kinds))
        if case['family'] == 'V' and vc_events is not None:
            try:
                reqs.append(GV.model_request(schema, case['xml'], ud))
                pend.append(('attrs', pc, None, vc_events, None))
            except GV.Unsupported as e:
                ctx.count('V:model-skip:' + str(e))

    # 5. component level (ValidationMixin) on an lxml element (keeps the prefix map)
    # (documents with comment / PI nodes: the component level takes tree sources only — same findings C04-F6/F7)
    if not path and not case.get('cm') and not any(f.startswith('ROOT') or f.startswith('ID ') for f in case.get('faults', [])):
        component_case(env, case, schema, canon, reqs, pend, xkw)


def component_case(env: Env, case: dict, schema: Any, canon: Callable, reqs: Optional[list], pend: Optional[list],
                   xkw: Optional[dict] = None) -> None:
    import lxml.etree as LE
    from xml.etree import ElementTree as ET
    ctx = env.ctx
    pc = public_case(case)
    xkw = xkw or {}
    if case['family'] in 'VW':
        m = re.match(r'<p:(\w+)', case['xml'])
        tag = '{%s}%s' % (G.TNS, m.group(1) if m else 'reg')
    elif case['family'] == 'I':
        tag = 'top'
    elif case['family'] == 'Q':
        tag = 'root'
    else:
        tag = ('{%s}root' % G.TNS) if case['family'] == 'T' else 'doc'
    xsd_element = schema.maps.elements.get(tag)
    if xsd_element is None:
        return
    makers = {'lxml': lambda: LE.fromstring(case['xml'].encode('utf-8'))}
    if not case['prefix_dependent']:
        makers['et'] = lambda: ET.fromstring(case['xml'])
    ids = Ids()
    try:
        log = env.rec.record(lambda: xsd_element.iter_errors(makers['lxml'](), **xkw))
    except RecursionError:
        raise
    except Exception as e:
        report(ctx, 'component-level lax run raised', pc,
               {'kind': 'exception', 'exc': type(e).__name__, 'msg': str(e)[:200], 'entry': 'component.iter_errors'})
        return
    events = [ids.e(err_key(ev[3])) for ev in log if ev[0] == 'call']
    outs: dict[str, dict[str, Any]] = {}
    from xmlschema import XMLSchemaValidationError
    for kind, mk in makers.items():
        o: dict[str, Any] = {}
        o['is_valid'] = outcome(lambda: {'ok': xsd_element.is_valid(mk(), **xkw)})
        o['iter_errors'] = outcome(lambda: {'ok': [err_key(e) for e in xsd_element.iter_errors(mk(), **xkw)]})
        o['validate'] = outcome(lambda: {'ok': xsd_element.validate(mk(), **xkw)})
        for m in MODES:
            def call(m=m):
                r = xsd_element.decode(mk(), validation=m, **xkw)
                if m == 'lax':
                    return {'ok': {'data': canon(r[0]), 'errors': [err_key(e) for e in r[1]]}}
                return {'ok': {'data': canon(r)}}
            o['decode:' + m] = outcome(call)
        outs[kind] = o
        ctx.count('component_calls', len(o))
        # the property on the component level API
        vs = {n: verdict_of(n, x) for n, x in o.items()}
        vs = {n: v for n, v in vs.items() if v is not None}
        for n, x in o.items():
            if isinstance(x, dict) and 'exc' in x:
                report(ctx, 'component-level entry point raised something else than a validation error', pc,
                       {'kind': 'exception', 'exc': x['exc'], 'msg': x['msg'], 'entry': 'component.' + n, 'source': kind})
        if len(set(vs.values())) > 1:
            ctx.failure('component-level entry points disagree on the verdict', pc, {'source': kind, 'verdicts': vs})
    if reqs is not None:
        lax = outs['lxml'].get('decode:lax')
        value = None
        if isinstance(lax, dict) and 'ok' in lax:
            value = ids.d(lax['ok']['data'])
        reqs.append({'op': 'mix', 'events': events, 'value': value})
        pend.append(('mix', pc, ids, outs, list(makers)))


def mask_data(o: Any) -> Any:
    if isinstance(o, dict) and 'ok' in o and isinstance(o['ok'], dict):
        return {'ok': {k: ('*' if k == 'data' else v) for k, v in o['ok'].items()}}
    if isinstance(o, dict) and 'items' in o:
        return {'items': [i if i[0] == 'e' else ['d', '*'] for i in o['items']], 'raised': o['raised']}
    return o


def f3_applies(ctx: Ctx, out: Any, want: Any) -> bool:
    """The model predicts that strict raises the first lax event; the code deviates exactly as finding C04-F3 says."""
    if not (isinstance(out, dict) and isinstance(want, dict)):
        return False
    a = out.get('raise') or out.get('raised')
    b = want.get('raise') or want.get('raised')
    if a and b and a != b and union_f3(a, b) and \
            {k: v for k, v in out.items() if k not in ('raise', 'raised')} == \
            {k: v for k, v in want.items() if k not in ('raise', 'raised')} and \
            any(e['id'] == 'C04-F3' and e.get('status') == 'known' for e in ctx.known):
        ctx.known_hit('C04-F3')
        return True
    return False


UNION_VALUES = ['1', '101', '-1', 'true', 'A', 'E', 'x', '', '1.5', '42', 'D', '0', '100', ' 7 ', 'false', '2',
                '2020-01-01', '2020-13-01', 'way too long name', 'abcdefgh', '99999999999', 'a b']


def union_unit(env: 'Env', drv: Optional[Driver]) -> None:
    """XsdUnion.raw_decode against Modes.unionEvents: every union type x value x mode (unit level)."""
    from xmlschema import XMLSchemaValidationError, XMLSchemaDecodeError
    ctx = env.ctx
    reqs, pend = [], []
    for v11 in (False, True):
        schema = env.schemas['T', v11]
        for tname in G.UNION_TYPES:
            ut = schema.types[tname]
            for value in UNION_VALUES:
                case = {'v': '1.1' if v11 else '1.0', 'union': tname, 'value': value}
                ids = Ids()
                generic = ids.e('XMLSchemaDecodeError||' + norm_text('invalid value %r' % value))
                members = []
                for mt in ut.member_types:
                    try:
                        members.append(['ok', ids.d(canon_data(mt.decode(value)))])
                    except XMLSchemaDecodeError as e:
                        members.append(['lex', ids.e(err_key(e))])
                    except XMLSchemaValidationError:
                        lax = [ids.e(err_key(e)) for e in mt.decode(value, validation='lax')[1]]
                        members.append(['facet', lax[0], lax[1:]])
                real = {}
                try:
                    ut.decode(value)
                    real['strict'] = []
                except XMLSchemaValidationError as e:
                    real['strict'] = [ids.e(err_key(e))]
                real['lax'] = [ids.e(err_key(e)) for e in ut.decode(value, validation='lax')[1]]
                try:
                    ut.decode(value, validation='skip')
                    real['skip'] = []
                except XMLSchemaValidationError as e:
                    real['skip'] = [ids.e(err_key(e))]
                ek = {v: k for k, v in ids.err.items()}
                # the property on the real code: same verdict in both modes, skip never raises, same first error
                if (real['strict'] == []) != (real['lax'] == []):
                    ctx.failure('union value accepted in one mode and rejected in the other', case, real)
                if real['skip']:
                    ctx.failure('skip mode raised', case, real)
                if real['strict'] and real['lax'] and real['strict'][0] != real['lax'][0]:
                    report(ctx, 'strict mode does not raise the first error that lax mode collects', case,
                           {'kind': 'first-error', 'raised': ek[real['strict'][0]], 'first': ek[real['lax'][0]]})
                ctx.case(case, any(m[0] != 'ok' for m in members), tag='union-unit')
                ctx.count('union:' + ('accepted' if not real['lax'] else
                                      'facet' if any(m[0] == 'facet' for m in members) else 'lexical'))
                reqs.append({'op': 'union', 'members': members, 'generic': generic})
                pend.append((case, real))
    if drv is not None:
        for (case, real), ans in zip(pend, drv.query(reqs)):
            ctx.traces += 1
            if any(ans.get(m) != real[m] for m in MODES):
                ctx.mismatch('XsdUnion.raw_decode', case, real, ans)


WILD_ATTR_NAMES = ['{urn:t}ta', '{urn:k}ka', '{urn:t}zz', '{urn:k}zz', '{urn:o}oa', 'plain',
                   '{http://www.w3.org/XML/1998/namespace}lang']
WILD_ATTR_VALUES = ['1', 'x', '']


def wildcards_of(env: 'Env', v11: bool) -> list[tuple[str, Any]]:
    """Every wildcard component of the schema families (name for the case, component)."""
    from xmlschema.validators import XsdAnyElement
    out = []
    w = env.schemas['W', v11]
    for tname in ('wsT', 'wlT', 'wkT', 'woT'):
        t = w.types[tname]
        out.append(('W/%s/anyAttribute' % tname, t.attributes[None]))
        out.append(('W/%s/any' % tname, next(x for x in t.content.iter_components(XsdAnyElement))))
    t = env.schemas['T', v11].elements['root'].type
    out.append(('T/root/anyAttribute', t.attributes[None]))
    out.append(('T/root/any', next(x for x in t.content.iter_components(XsdAnyElement))))
    return out


def wildcard_unit(env: 'Env', drv: Optional[Driver], only: Optional[dict] = None) -> None:
    """XsdAnyAttribute.raw_decode / XsdAnyElement.raw_decode against Modes.anyAttrEvents / anyElemEvents:
    every wildcard of the schema families x name class x value x mode, through the component-level API."""
    import lxml.etree as LE
    from xmlschema import XMLSchemaValidationError
    from xmlschema.validators import XsdAnyAttribute
    from xmlschema.validators.validation import DecodeContext
    from xmlschema.names import XSI_TYPE
    ctx = env.ctx
    reqs, pend = [], []

    def ns_of(name: str) -> str:
        return name[1:].split('}')[0] if name.startswith('{') else ''

    def modes(wc: Any, make: Callable[[], Any], ids: Ids, is_attr: bool) -> dict:
        real: dict[str, Any] = {}
        for m in MODES:
            try:
                if is_attr:
                    # the component-level API does not accept a (name, value) pair as source (TypeError from
                    # get_resource_from_data): raw_decode is called with a context made the way iter_decode makes it
                    obj = make()
                    src = wc.maps.settings.get_resource_from_data(obj[1], None)
                    dctx = DecodeContext(source=src, converter=wc.maps.settings.get_converter(source=src))
                    wc.raw_decode(obj, m, dctx)
                    real[m] = [ids.e(err_key(e)) for e in dctx.errors]
                else:
                    r = wc.decode(make(), validation=m)
                    real[m] = [ids.e(err_key(e)) for e in r[1]] if m == 'lax' else []
            except XMLSchemaValidationError as e:
                real[m] = [ids.e(err_key(e))]
        return real

    for v11 in (False, True):
        v = '1.1' if v11 else '1.0'
        for wname, wc in wildcards_of(env, v11):
            maps = wc.maps
            is_attr = isinstance(wc, XsdAnyAttribute)
            if is_attr:
                objs = [({'name': n, 'value': val}, (lambda n=n, val=val: (n, val)), n) for n in WILD_ATTR_NAMES
                        for val in WILD_ATTR_VALUES]
            else:
                objs = []
                for xml, _cls, _bad, _x in GW.ELEM_ITEMS:
                    wrapped = '<p:box %s>%s</p:box>' % (GW.ROOT_NS_XSI, xml)
                    objs.append(({'xml': xml}, (lambda wrapped=wrapped: LE.fromstring(wrapped)[0]),
                                 LE.fromstring(wrapped)[0].tag))
            for desc, make, name in objs:
                case = dict(desc, v=v, wildcard=wname, processContents=wc.process_contents)
                if only is not None and {k: only.get(k) for k in case} != case:
                    continue
                ids = Ids()
                try:
                    real = modes(wc, make, ids, is_attr)
                    ek = {n: k for k, n in ids.err.items()}
                    # the property on the real code
                    if (real['strict'] == []) != (real['lax'] == []):
                        ctx.failure('wildcard: a name is rejected in one mode and accepted in the other', case,
                                    {m: [ek[x] for x in real[m]] for m in MODES})
                    elif real['strict'] != real['lax'][:1]:
                        # (a declared attribute of a union type shows finding C04-F3 here as everywhere)
                        report(ctx, 'wildcard: strict mode does not raise the first error that lax mode collects', case,
                               {'kind': 'first-error', 'raised': ek[real['strict'][0]], 'first': ek[real['lax'][0]],
                                **{m: [ek[x] for x in real[m]] for m in MODES}})
                    if real['skip']:
                        ctx.failure('wildcard: skip mode raised', case, {m: [ek[x] for x in real[m]] for m in MODES})
                    # model inputs by introspection
                    ns = ns_of(name)
                    obj = make()
                    if not maps.loader.load_namespace(ns):
                        lookup: Any = 'unavailable'
                    elif name not in (maps.attributes if is_attr else maps.elements):
                        lookup = 'notFound'
                    elif is_attr:
                        lookup = [ids.e(err_key(e)) for e in maps.attributes[name].decode(obj[1], validation='lax')[1]]
                    else:
                        lookup = [ids.e(err_key(e)) for e in maps.elements[name].decode(obj, validation='lax')[1]]
                    req = {'op': 'wild', 'kind': 'attr' if is_attr else 'elem', 'pc': wc.process_contents,
                           'matching': bool(wc.is_matching(name)), 'ps': False, 'lookup': lookup}
                    if is_attr:
                        req['eNA'] = ids.e('XMLSchemaValidationError||' + norm_text("attribute %r not allowed" % name))
                        req['eNF'] = ids.e('XMLSchemaValidationError||' + norm_text("attribute %r not found" % name))
                        req['eUn'] = ids.e('XMLSchemaValidationError||' + norm_text("unavailable namespace {!r}".format(ns)))
                    else:
                        pth = '/' + name.split('}')[-1]          # the element is the root of the decoded source
                        req['eNA'] = ids.e('XMLSchemaValidationError|%s|' % pth + norm_text("element {!r} is not allowed here".format(obj)))
                        req['eNF'] = ids.e('XMLSchemaValidationError|%s|' % pth + norm_text(f"element {name!r} not found"))
                        req['eUn'] = ids.e('XMLSchemaValidationError|%s|' % pth + norm_text("unavailable namespace {!r}".format(ns)))
                        req['xsiType'] = XSI_TYPE in obj.attrib
                        anon: list = []
                        if not isinstance(lookup, list) and not (wc.process_contents == 'skip'):
                            kw = {} if (wc.process_contents == 'strict' or not req['xsiType']) else {'nillable': 'true'}
                            created = wc.builders.create_element(name, maps.validator, parent=wc, form='unqualified', **kw)
                            anon = [ids.e(err_key(e)) for e in created.decode(obj, validation='lax')[1]]
                        req['anon'] = anon
                except RecursionError:
                    raise
                except Exception as e:  # noqa
                    report(ctx, 'wildcard component raised something else than a validation error', case,
                           {'kind': 'exception', 'exc': type(e).__name__, 'msg': str(e)[:200], 'entry': 'wildcard.decode'})
                    continue
                ctx.case(case, bool(real['lax']) or not req['matching'], tag='wildcard-unit')
                ctx.count('wild:%s:%s:%s%s' % ('attr' if is_attr else 'elem', wc.process_contents,
                                                'declared' if isinstance(lookup, list) else lookup,
                                                '' if req['matching'] else ':not-admitted'))
                reqs.append(req)
                pend.append((case, real, {n: k for k, n in ids.err.items()}))
    if drv is not None and reqs:
        for (case, real, ek), ans in zip(pend, drv.query(reqs)):
            ctx.traces += 1
            if 'err' not in ans and ans['lax'] == real['lax'] and ans['skip'] == real['skip'] and \
                    len(ans['strict']) == len(real['strict']) == 1 and \
                    f3_applies(ctx, {'raise': ek[real['strict'][0]]}, {'raise': ek[ans['strict'][0]]}):
                continue
            if 'err' in ans or any(ans.get(m) != real[m] for m in MODES):
                ctx.mismatch('wildcard raw_decode', case, {m: [ek.get(x, x) for x in real[m]] for m in MODES},
                             ans if 'err' in ans else {m: [ek.get(x, x) for x in ans[m]] for m in MODES})


def cdata_unit(env: 'Env', drv: Optional[Driver]) -> None:
    """The character-data check of element-only content (groups.py:972-981) against CharData.hasCdata /
    hasCdataDropped: text of the element x sequences of children (element | comment | PI) x tails (empty, whitespace,
    text) — every sequence up to length 2, a sample of length 3 — from text, from an lxml tree and from an ElementTree
    that keeps comment / PI nodes.  On the real code: the three sources give the same verdict."""
    import itertools
    import lxml.etree as LE
    from xml.etree import ElementTree as ET
    ctx = env.ctx
    reason = 'character data between child elements not allowed'
    opts = [(k, t) for k in ('e', 'c', 'p') for t in ('', '\n ', 'x')]
    seqs: list = [()]
    seqs += [(a,) for a in opts] + list(itertools.product(opts, repeat=2))
    triples = list(itertools.product(opts, repeat=3))
    ctx.rng.shuffle(triples)
    seqs += triples[:ctx.pick(120, 729)]
    render = {'e': '<item/>', 'c': '<!-- c -->', 'p': '<?pi x?>'}
    reqs, pend = [], []
    for i, seq in enumerate(seqs):
        for text in ('', ' ', 'stray'):
            v11 = bool((i + len(text)) % 2)
            schema = env.schemas['Q', v11]
            xml = '<root>%s%s</root>' % (text, ''.join(render[k] + t for k, t in seq))
            case = {'v': '1.1' if v11 else '1.0', 'family': 'Q', 'xml': xml, 'unit': 'character data check'}

            def has(src: Any) -> bool:
                return any(reason in (e.reason or '') for e in schema.iter_errors(src))
            try:
                real = {'text': has(xml), 'lxml': has(LE.fromstring(xml)),
                        'etc': has(ET.fromstring(xml, parser=ET.XMLParser(target=ET.TreeBuilder(insert_comments=True,
                                                                                                insert_pis=True))))}
            except RecursionError:
                raise
            except Exception as e:  # noqa
                report(ctx, 'character data check raised', case,
                       {'kind': 'exception', 'exc': type(e).__name__, 'msg': str(e)[:200], 'entry': 'iter_errors'})
                continue
            nodes_with_text = sum(1 for k, t in seq if k != 'e' and t.strip())
            ctx.case(case, bool(seq), tag='cdata-unit')
            ctx.count('cdata:%s' % ('comment-or-PI-followed-by-text' if nodes_with_text else
                                    'comment-or-PI-without-text' if any(k != 'e' for k, _ in seq) else 'elements-only'))
            if len(set(real.values())) > 1:
                ctx.failure('element-only content: whether character data is reported depends on the source kind', case,
                            {'reported_by': real})
            reqs.append({'op': 'cdata', 'text': text, 'kids': [['e' if k == 'e' else 'n', t] for k, t in seq]})
            pend.append((case, real))
    if drv is not None and reqs:
        for (case, real), ans in zip(pend, drv.query(reqs)):
            ctx.traces += 1
            if 'err' in ans or ans['tree'] != real['lxml'] or ans['tree'] != real['etc'] or ans['dropped'] != real['text']:
                ctx.mismatch('character-data check of element-only content', case, real, ans)


def compare(ctx: Ctx, reqs: list, pend: list, drv: Driver) -> None:
    answers = drv.query(reqs)
    for (what, pc, ids, outs, kinds), ans in zip(pend, answers):
        ctx.traces += 1
        if 'err' in ans:
            ctx.mismatch('driver error', pc, None, ans)
            continue
        if what == 'attrs':
            # Model/AttrDefaults.lean: the same prediction for the validation run and for the decoding run
            ev_v, ev_d = outs
            ctx.count('V:model-compared')
            ctx.count('V:constraints-in-effect:%s' % min(ans['constraints_used'], 4))
            if ans['events'] != ans['ignoring']:
                ctx.count('V:verdict-or-errors-depend-on-an-omitted-constraint')
            if ev_v != ans['events']:
                ctx.mismatch('value constraints / document state (iter_errors)', pc, ev_v, ans['events'])
            elif ev_d != ans['events']:
                ctx.mismatch('value constraints / document state (iter_decode)', pc, ev_d, ans['events'])
            continue
        if what == 'api':
            if not (ans['wf_v'] and ans['wf_d'] and ans['nodata_v']):
                ctx.mismatch('recorded script violates the generator discipline (wf)', pc,
                             {'wf_v': ans['wf_v'], 'wf_d': ans['wf_d']}, None)
            if ans['ev_v'] != ans['ev_d']:
                # hypothesis `events sv = events sd` of verdicts_agree
                ek = {v: k for k, v in ids.err.items()}
                extra_v = [ek[x] for x in ans['ev_v'] if x not in ans['ev_d']]
                extra_d = [ek[x] for x in ans['ev_d'] if x not in ans['ev_v']]
                only_refs = not extra_d and all(k in ids.ref_keys for k in extra_v) \
                    and [x for x in ans['ev_v'] if x in ans['ev_d']] == ans['ev_d']
                if only_refs and any(e['id'] == 'C04-F2' and e.get('status') == 'known' for e in ctx.known):
                    ctx.known_hit('C04-F2')
                else:
                    ctx.mismatch('validation and decoding emit different error events', pc,
                                 {'only_validation': extra_v[:5], 'only_decoding': extra_d[:5]}, None)
            pred = predict(ans, ids)
            for kind in kinds:
                for name, out in outs[kind].items():
                    if isinstance(out, dict) and 'exc' in out:
                        continue        # reported as failure / known finding by the property evaluation
                    want = pred[name]
                    if name.endswith(':skip') and ans['ev_d']:
                        # data of an INVALID document legitimately depend on the mode (skip keeps raw values where
                        # lax puts None); only the shape of the outcome is compared
                        out, want = mask_data(out), mask_data(want)
                    if out != want:
                        if f3_applies(ctx, out, want):
                            continue
                        ctx.mismatch('%s (%s)' % (name, kind), pc, out, want)
                        break
        else:
            ek = {v: k for k, v in ids.err.items()}
            dk = {v: json.loads(k) for k, v in ids.data.items()}

            def mo(o: dict, lax: bool) -> Any:
                if 'raise' in o:
                    return {'raise': ek[o['raise']]}
                r = {'data': None if o['ok']['data'] is None else dk[o['ok']['data']]}
                if lax:
                    r['errors'] = [ek[x] for x in o['ok']['errors']]
                return {'ok': r}
            pred = {'is_valid': {'ok': ans['isValid']}, 'iter_errors': {'ok': [ek[x] for x in ans['iterErrors']]},
                    'validate': {'ok': None} if 'ok' in ans['validate'] else {'raise': ek[ans['validate']['raise']]}}
            for m in MODES:
                pred['decode:' + m] = mo(ans['decode'][m], m == 'lax')
            for kind in kinds:
                for name, out in outs[kind].items():
                    if isinstance(out, dict) and 'exc' in out:
                        continue
                    if name != 'decode:skip' and out != pred[name]:
                        if f3_applies(ctx, out, pred[name]):
                            continue
                        ctx.mismatch('component.%s (%s)' % (name, kind), pc, out, pred[name])
                        break
                    if name == 'decode:skip' and not (isinstance(out, dict) and 'ok' in out):
                        ctx.mismatch('component.decode:skip (%s)' % kind, pc, out, pred[name])


# --------------------------------------------------------------------------------------------
# command line

CLI_SNIPPET = ("import sys; sys.argv[0] = 'xmlschema-validate'; "
               "from xmlschema.cli import validate; validate()")


def run_cli(env: Env, fam: str, v11: bool, files: list[str], extra: Optional[list[str]] = None) -> int:
    cmd = [sys.executable, '-c', CLI_SNIPPET, '--schema', str(env.xsd_paths[fam, v11])]
    if v11:
        cmd += ['--version', '1.1']
    cmd += (extra or []) + files
    envv = dict(os.environ)
    envv['PYTHONPATH'] = str(REPO)
    p = subprocess.run(cmd, stdout=subprocess.DEVNULL, stderr=subprocess.DEVNULL, env=envv, timeout=600, cwd=str(env.tmp))
    return p.returncode


def cli_checks(env: Env, drv: Optional[Driver], docs: list[dict]) -> None:
    """Exit status of xmlschema-validate against the model (cliExit) and against the property."""
    import xmlschema
    ctx = env.ctx
    tmp = env.tmp

    def w(name: str, text: str) -> str:
        p = tmp / name
        p.write_text(text, encoding='utf-8')
        return str(p)

    counts = ctx.pick([0, 1, 255, 256, 257, 512], [0, 1, 2, 127, 128, 254, 255, 256, 257, 511, 512, 513, 768, 1024])
    files = {n: w('many%d.xml' % n, G.many_errors_doc(n, valid_extra=1)) for n in set(counts) | {128, 100, 156}}
    malformed = w('malformed.xml', '<p:root xmlns:p="urn:t"><p:title>x</p:root>')
    missing = str(tmp / 'does-not-exist.xml')
    runs: list[tuple[str, bool, list[str]]] = [('T', False, [files[n]]) for n in counts]
    runs += [('T', False, [files[128], files[128]]), ('T', False, [files[100], files[156]]),
             ('T', False, [files[0], files[0]]), ('T', False, [files[0], files[1]]),
             ('T', False, [files[256], files[0]]), ('T', False, [malformed]), ('T', False, [missing]),
             ('T', False, [files[0], missing]), ('T', False, [files[255], malformed]),
             ('T', True, [files[0]]), ('T', True, [files[256]])]
    for i, d in enumerate(docs):
        runs.append((d['family'], d['v'] == '1.1', [w('gen%d.xml' % i, d['xml'])]))
    reqs, pend = [], []
    for fam, v11, fl in runs:
        schema = env.schemas[fam, v11]
        per_file: list[Any] = []
        for f in fl:
            try:
                per_file.append(len(list(xmlschema.iter_errors(f, schema=str(env.xsd_paths[fam, v11]), cls=type(schema)))))
            except xmlschema.XMLSchemaException:
                per_file.append('lib')
            except OSError:
                per_file.append('lib')      # URLError is an OSError
        status = run_cli(env, fam, v11, fl)
        case = {'cli': [Path(f).name for f in fl], 'v': '1.1' if v11 else '1.0', 'family': fam, 'per_file': per_file}
        if len(fl) == 1 and Path(fl[0]).name.startswith('gen'):
            case['xml'] = Path(fl[0]).read_text()
        ctx.case(case, any(x != 0 for x in per_file), tag='cli')
        ctx.count('cli_runs')
        all_valid = all(x == 0 for x in per_file)
        if (status == 0) != all_valid:
            det = {'kind': 'cli', 'exit_status': status, 'per_file_error_counts': per_file}
            if any(x == 'lib' for x in per_file) and 'xml' in case:
                # the in-process call raised a library error for this document: C11-F5 shows up here as well
                try:
                    list(xmlschema.iter_errors(case['xml'], schema=schema))
                except Exception as e:  # noqa
                    det = {'kind': 'exception', 'exc': type(e).__name__, 'msg': str(e)[:200], 'entry': 'cli'}
            report(ctx, 'xmlschema-validate exit status does not tell whether all files are valid', case, det)
        reqs.append({'op': 'cli', 'files': per_file})
        pend.append((case, status))
    if drv is not None:
        for (case, status), ans in zip(pend, drv.query(reqs)):
            ctx.traces += 1
            if ans.get('exit') != status:
                ctx.mismatch('cli exit status', case, status, ans)


# --------------------------------------------------------------------------------------------

def gen_cases(ctx: Ctx, n: int) -> list[dict]:
    cases = []
    # every fault class at least once per version (small-scope family named by the property)
    for v in ('1.0', '1.1'):
        for f in G.FAULTS:
            for _ in range(6):
                c = G.gen_case(ctx.rng, only=f)
                if c['faults']:
                    break
            c['v'] = v
            cases.append(c)
    while len(cases) < n:
        c = G.gen_case(ctx.rng)
        c['v'] = ctx.rng.choice(['1.0', '1.1'])
        cases.append(c)
    for c in cases:
        c.pop('tree', None)
    # path variant (several selected elements => several collect/flush/result cycles, list-shaped results)
    extra = []
    for c in cases:
        # family N only: under a path argument the identity constraints of the ancestors (family T declares key /
        # keyref / unique on the root) are evaluated by iter_errors but not by iter_decode — outside this property
        if c['family'] == 'N' and not any(f.startswith('ROOT') for f in c['faults']) and ctx.rng.random() < 0.8:
            extra.append(dict(c, path=ctx.rng.choice(['b', 'm', '/doc/m', 'cfg', 'yr', 'nothing'])))
    # family V: value constraints with a document-level effect (every fault class once per version, then random)
    vcases = []
    for v11 in (False, True):
        for f in sorted(set(GV.V_FAULTS), key=lambda f: f.__name__):
            for _ in range(8):
                c = GV.gen_case_V(ctx.rng, v11, only=f)
                if c['faults']:
                    break
            vcases.append(c)
    for _ in range(max(8, ctx.pick(n // 3, n // 2))):
        c = GV.gen_case_V(ctx.rng, ctx.rng.random() < 0.5)
        # the dimension of this family is orthogonal to the source kind: 60 % of the random cases use 4-5 source kinds
        if ctx.rng.random() < 0.6:
            c['lite'] = True
        vcases.append(c)
    # family W: wildcards x processContents x what the name resolves to.  Small scope: every (carrier, item) as the
    # only possibly-bad item of a document (versions alternate); then random documents with 0-3 bad items
    wcases = []
    for i, c in enumerate(GW.small_scope(ctx.rng, False)):
        if i % 2:
            c['v'] = '1.1'
        if ctx.quick() and ctx.rng.random() < 0.85:
            c['lite'] = True
        wcases.append(c)
    for _ in range(max(8, n // 5)):
        c = GW.gen_case_W(ctx.rng, ctx.rng.random() < 0.5)
        if ctx.rng.random() < 0.6:
            c['lite'] = True
        wcases.append(c)
    # configuration use_defaults=False on every entry point (defaults are not applied, fixed values are)
    nodef = []
    for c in cases + vcases:
        if ctx.rng.random() < (0.3 if c['family'] == 'V' else 0.06):
            nodef.append(dict(c, ud=False))
    # family I (XSD 1.1): inheritable attributes present on 0-3 nested elements x where the error is (small scope)
    icases = GW.small_scope_I()
    for c in icases:
        if ctx.quick() and ctx.rng.random() < 0.8:
            c['lite'] = True
    # comment / PI nodes: a share of all documents gets one node inserted (half of them inside a leaf element);
    # run on the source kinds that keep such nodes and on those that drop them
    cmcases = []
    for c in cases + vcases + wcases + icases:
        if ctx.rng.random() < ctx.pick(0.07, 0.09):
            xml, where = insert_comment(ctx.rng, c['xml'])
            d = dict(c, xml=xml, cm=where)
            d.pop('lite', None)
            cmcases.append(d)
    cmcases.extend(stray_cases(ctx.rng, cases + vcases + wcases + icases))
    # family Q: identity constraints over QName-valued fields x where the prefix of the value is re-bound (small scope:
    # every field x every place, same local names), then random documents
    qcases = GQ.small_scope_Q(ctx.rng)
    for _ in range(max(8, n // 5)):
        qcases.append(GQ.gen_case_Q(ctx.rng, ctx.rng.random() < 0.5))
    for c in qcases:
        if ctx.rng.random() < ctx.pick(0.85, 0.7):
            c['lite'] = True
    # nested namespace declarations in every family: 1-3 declarations of prefixes that the subtree does not use are added
    # to inner elements (the document means the same); sources that carry declarations must still agree
    nscases = []
    for c in cases + vcases + wcases + icases:
        if ctx.rng.random() < 0.1 and not c.get('path'):
            xml, added = GQ.redeclare(ctx.rng, c['xml'], ctx.rng.choice([1, 2, 3]))
            if added:
                nscases.append(dict(c, xml=xml, nsv=added, lite=True))
    # what the ROOT element is, for every family: declared global / undeclared with xsi:type (complex, simple, builtin,
    # abstract, unknown type; valid and invalid content) / undeclared / local-only name / other or no namespace
    rcases = []
    k = 0
    for fam in 'TNVWQI':
        for c in GW.root_cases(fam):
            k += 1
            c['v'] = '1.1' if (fam == 'I' or k % 2) else '1.0'
            if ctx.quick() and ctx.rng.random() < 0.85:
                c['lite'] = True
            rcases.append(c)
            if not ctx.quick() and fam != 'I':
                rcases.append(dict(c, v='1.0' if c['v'] == '1.1' else '1.1'))
    return cases + extra + vcases + nodef + wcases + icases + cmcases + qcases + nscases + rcases


COMMENT_NODES = ['<!-- c -->', '<?pi x?>', '<!---->', '<!-- a --><?p?>']


def insert_comment(rng: Any, xml: str) -> tuple[str, str]:
    """One comment / PI node after a random '>' (tags only: '>' is escaped in text and attribute values)."""
    ends = [i + 1 for i, ch in enumerate(xml) if ch == '>']
    leaf_starts = [i for i in ends if i < len(xml) and xml[i] != '<' and xml[i - 2] != '/']      # <x>|text
    leaf_ends = [m.start() for m in re.finditer(r'[^>]</', xml)]
    leaf_ends = [i + 1 for i in leaf_ends]                                                       # text|</x>
    r = rng.random()
    if r < 0.3 and leaf_starts:
        i, where = rng.choice(leaf_starts), 'before-leaf-text'
    elif r < 0.5 and leaf_ends:
        i, where = rng.choice(leaf_ends), 'after-leaf-text'
    else:
        i, where = rng.choice(ends), 'after-a-tag'
    node = rng.choice(COMMENT_NODES)
    # character data around the node: in a tree that keeps the node, text AFTER it is the node's tail, text BEFORE it
    # stays the tail of the preceding element / the text of the parent
    r = rng.random()
    if i >= len(xml.rstrip()):
        r = 1.0                        # after the root element: no character data allowed by XML itself
    if r < 0.4:
        node, text = node + rng.choice(['stray', ' stray text ', 'x']), 'text-after'
    elif r < 0.55:
        node, text = rng.choice(['stray', ' y ']) + node, 'text-before'
    elif r < 0.7:
        node, text = node + rng.choice([' ', '\n  ']), 'whitespace-after'
    else:
        text = 'no-text'
    return xml[:i] + node + xml[i:], where + ':' + ('pi' if '<?' in node else 'comment') + ':' + text


def stray_cases(rng: Any, base: list[dict]) -> list[dict]:
    """Small scope: per schema family one document x {after the root start tag, in the middle, before the root end tag}
    x {comment, PI} followed by non-whitespace character data (the tail of the node in trees that keep it)."""
    out = []
    seen = set()
    for c in base:
        if c['family'] in seen or c.get('path') or c['faults']:
            continue
        seen.add(c['family'])
        xml = c['xml']
        ends = [i + 1 for i, ch in enumerate(xml) if ch == '>']
        if len(ends) < 3:
            continue
        for pos, where in ((ends[0], 'after-root-start-tag'), (ends[len(ends) // 2], 'middle'), (ends[-2], 'before-root-end-tag')):
            for node in ('<!-- c -->', '<?pi x?>'):
                d = dict(c, xml=xml[:pos] + node + 'stray' + xml[pos:],
                         cm=where + ':' + ('pi' if '<?' in node else 'comment') + ':text-after')
                d.pop('lite', None)
                out.append(d)
    return out


def kinds_for(case: dict) -> list[str]:
    if case.get('cm'):
        return [k for k in CM_KINDS if not (case['prefix_dependent'] and k in ET_KINDS)]
    if case.get('path') or not case.get('ud', True) or case.get('lite'):
        return [k for k in ['text', 'path', 'lxml', 'et', 'res'] if not (case['prefix_dependent'] and k in ET_KINDS)]
    return [k for k in SOURCE_KINDS if not (case['prefix_dependent'] and k in ET_KINDS)]


def witness_cases() -> list[dict]:
    """The witnesses of the counter-example theorems / findings, replayed on the real code on every run."""
    px = 'xmlns:p="urn:t" xmlns:xsi="http://www.w3.org/2001/XMLSchema-instance"'
    return [
        {'v': '1.0', 'family': 'T', 'style': 'prefix', 'prefix_dependent': False, 'faults': ['ID dangling IDREF'],
         'xml': '<p:root %s version="1"><p:title>x</p:title><p:ref idref="nowhere"/></p:root>' % px},
        {'v': '1.1', 'family': 'T', 'style': 'prefix', 'prefix_dependent': True, 'faults': ['C07 xsi:type unknown'],
         'xml': '<p:root %s version="1"><p:title>x</p:title><p:head xsi:type="p:nonexistent"><p:n>a</p:n></p:head></p:root>' % px},
        {'v': '1.0', 'family': 'T', 'style': 'prefix', 'prefix_dependent': False, 'faults': ["C02 bad value u='E'"],
         'xml': '<p:root %s version="1"><p:title>x</p:title><p:u>E</p:u></p:root>' % px},
        {'v': '1.0', 'family': 'N', 'style': 'prefix', 'prefix_dependent': False, 'faults': ["C02 bad value yr"],
         'xml': '<doc><yr>99999999999999999999</yr></doc>'},
        # ignoring_constraints_counterexample: an ID and an omitted IDREF attribute with default="a1"
        {'v': '1.0', 'family': 'V', 'style': 'prefix', 'prefix_dependent': False,
         'faults': ['ID value constraint of an omitted IDREF dangling (default a1)'], 'omitted': ['attr:idref:default@child'],
         'xml': '<p:reg xmlns:p="urn:t"><p:r1 id="b1"/></p:reg>'},
        # wildcard_guard_counterexample: a name admitted by a strict attribute wildcard, known namespace, no declaration
        {'v': '1.0', 'family': 'W', 'style': 'prefix', 'prefix_dependent': False,
         'faults': ['W attr strict not found(target)'], 'dims': ['attr:strict:not found(target)'],
         'xml': '<p:box %s><p:ws p:zz="1"/></p:box>' % GW.ROOT_NS},
        # ns_leak_counterexample: unique QName field, the prefix of the value is re-bound on the last child
        {'v': '1.0', 'family': 'Q', 'style': 'prefix', 'prefix_dependent': True, 'faults': [],
         'qdims': ['field:code', 'rebind-at:last-child'],
         'xml': '<root xmlns:p="urn:a"><item code="p:x"><note>n</note><tail xmlns:p="urn:b">t</tail></item>'
                '<item code="p:x"/></root>'},
        # unshared_scope_counterexample / finding C04-F5: the only error is below an element with an inheritable attribute
        GW.doc_I(1, 'a'),
        # findings C04-F6 / C04-F7: a comment / PI node inside simple content, inside xs:anyType content
        {'v': '1.0', 'family': 'N', 'style': 'prefix', 'prefix_dependent': False, 'faults': [],
         'cm': 'after-leaf-text:comment', 'xml': '<doc><yr>2024<!-- c --></yr></doc>'},
        # finding C04-F8: comment + character data inside an element with empty content
        {'v': '1.0', 'family': 'V', 'style': 'prefix', 'prefix_dependent': False, 'faults': ['C01 character data'],
         'cm': 'before-leaf-text:comment:text-after',
         'xml': '<p:reg xmlns:p="urn:t"><p:def id="a"><!-- c -->stray</p:def></p:reg>'},
        # cdata_skipping_nodes_counterexample: comment followed by character data in element-only content
        {'v': '1.0', 'family': 'Q', 'style': 'prefix', 'prefix_dependent': True, 'faults': ['C01 character data'],
         'cm': 'after-a-tag:comment:text-after', 'xml': '<root xmlns:p="urn:a"><item code="p:x"/><!-- c -->stray</root>'},
        {'v': '1.0', 'family': 'T', 'style': 'prefix', 'prefix_dependent': False, 'faults': [],
         'cm': 'before-leaf-text:pi',
         'xml': '<p:root xmlns:p="urn:t" xmlns:o="urn:o" version="2"><p:title>x</p:title><o:any0><?pi x?>free</o:any0></p:root>'},
    ]


def run(ctx: Ctx, driver_ok: bool) -> None:
    ctx.known.extend(e for e in local_findings() if e.get('id') in ('C04-F2', 'C04-F3', 'C04-F5', 'C04-F6', 'C04-F7', 'C04-F8', 'C11-F4', 'C11-F5', 'C11-F7')
                     and not any(k['id'] == e['id'] for k in ctx.known))
    drv = Driver('drv_c04') if driver_ok else None
    env = Env(ctx)
    try:
        n = ctx.pick(260, 2600)
        cases = witness_cases() + gen_cases(ctx, n)
        union_unit(env, drv)
        value_constraint_family(ctx)
        reqs: list = []
        pend: list = []
        for case in cases:
            run_case(env, case, kinds_for(case), reqs if drv else None, pend if drv else None)
            if drv and len(reqs) >= 400:
                compare(ctx, reqs, pend, drv)
                reqs, pend = [], []
        if drv and reqs:
            compare(ctx, reqs, pend, drv)
        wildcard_unit(env, drv)
        cdata_unit(env, drv)
        sample = [c for c in cases[len(witness_cases()):] if c['family'] in 'TNVWQ' and c.get('ud', True) and not c.get('cm')]
        ctx.rng.shuffle(sample)
        cli_checks(env, drv, sample[:ctx.pick(6, 40)])
        ctx.extra['source_kinds'] = SOURCE_KINDS
        ctx.extra['entry_points_per_source'] = len(entry_points(env.schemas['T', False], canon_data))
        ctx.extra['fault_classes'] = G.FAULT_NAMES + ['V:' + x for x in GV.V_FAULT_NAMES]
        ctx.extra['wildcard_items'] = {'carriers': GW.CARRIERS, 'attributes': [x[1] for x in GW.ATTR_ITEMS],
                                       'elements': [x[1] for x in GW.ELEM_ITEMS]}
        ctx.extra['value_constraint_carriers'] = {k: ['%s:%s:%s=%s' % (a or 'text', kd, how, val) for a, kd, how, val in v]
                                                 for k, v in GV.CONSTRAINTS.items()}
    finally:
        env.close()


# --------------------------------------------------------------------------------------------
# value-constraint / whitespace family: agreement of the five core entry points on documents whose verdict
# hinges on how text is normalised before it is compared with fixed/default values and simple types

VC_XSD = '''<xs:schema xmlns:xs="http://www.w3.org/2001/XMLSchema" elementFormDefault="qualified">
 <xs:element name="doc"><xs:complexType><xs:choice minOccurs="0" maxOccurs="unbounded">
  <xs:element name="fs" type="xs:string" fixed="not applicable"/>
  <xs:element name="ft" type="xs:token" fixed="not applicable"/>
  <xs:element name="fi" type="xs:integer" fixed="7"/>
  <xs:element name="fm" fixed="not applicable"><xs:complexType mixed="true"><xs:sequence>
      <xs:element name="b" type="xs:string" minOccurs="0"/></xs:sequence></xs:complexType></xs:element>
  <xs:element name="fsc" fixed="7"><xs:complexType><xs:simpleContent><xs:extension base="xs:integer">
      <xs:attribute name="u" type="xs:string"/></xs:extension></xs:simpleContent></xs:complexType></xs:element>
  <xs:element name="ds" type="xs:string" default="dflt"/>
  <xs:element name="di" type="xs:integer" default="3"/>
  <xs:element name="dm" default="dflt"><xs:complexType mixed="true"><xs:sequence>
      <xs:element name="b" type="xs:string" minOccurs="0"/></xs:sequence></xs:complexType></xs:element>
  <xs:element name="ni" type="xs:integer" nillable="true"/>
  <xs:element name="li"><xs:simpleType><xs:list itemType="xs:integer"/></xs:simpleType></xs:element>
  <xs:element name="en"><xs:simpleType><xs:restriction base="xs:token"><xs:enumeration value="a b"/>
      <xs:enumeration value="c"/></xs:restriction></xs:simpleType></xs:element>
  <xs:element name="mx"><xs:complexType mixed="true"><xs:sequence>
      <xs:element name="b" type="xs:integer" minOccurs="0" maxOccurs="2"/></xs:sequence>
      <xs:attribute name="a" type="xs:integer" fixed="1"/></xs:complexType></xs:element>
  <xs:element name="eo"><xs:complexType><xs:sequence><xs:element name="b" type="xs:integer"/></xs:sequence></xs:complexType></xs:element>
 </xs:choice></xs:complexType></xs:element>
</xs:schema>'''

VC_TEXTS = {
    'fs': ['not applicable', ' not applicable', 'not applicable\n', '\n  not applicable\n ', 'not  applicable', 'other', '', '  '],
    'ft': ['not applicable', ' not applicable ', '\n not   applicable\n', 'other', '', ' '],
    'fi': ['7', ' 7 ', '07', '+7', '7.0', '8', '', ' '],
    'fm': ['not applicable', ' not applicable', '\n  not applicable\n', 'not applicable<b>x</b>', 'other', '', '  '],
    'fsc': ['7', ' 7\n', '07', '8', ''],
    'ds': ['', ' ', 'x', ' x '],
    'di': ['', ' ', '4', ' 4 ', 'x'],
    'dm': ['', ' ', 'x', '<b>y</b>'],
    'ni': ['5', ' 5 ', '', 'x'],
    'li': ['1 2 3', ' 1  2\n3 ', '', '1 x', ' '],
    'en': ['a b', ' a  b ', 'c', ' c\n', 'a', ''],
    'mx': ['', 'text', ' t <b>1</b> u ', '<b>1</b><b>x</b>', '<b>1</b><b>2</b><b>3</b>'],
    'eo': ['<b>1</b>', ' <b>1</b>\n', 'x<b>1</b>', '<b>1</b>y', '<b> 1 </b>'],
}


def core_agreement(ctx: Ctx, schema: Any, xml: str, case: dict) -> None:
    """is_valid ⇔ iter_errors empty ⇔ validate returns ⇔ strict decode returns ⇔ lax decode has no errors, and
    strict raises the first lax error -- evaluated directly on the real code for one document"""
    def first_of(fn):
        try:
            fn()
            return None
        except Exception as e:   # noqa
            return e
    try:
        errs = list(schema.iter_errors(xml))
        isv = schema.is_valid(xml)
        lax = schema.decode(xml, validation='lax')
    except Exception as e:   # noqa
        report(ctx, 'an entry point raised in lax/collecting mode', case,
               {'kind': 'exception', 'exc': type(e).__name__, 'msg': str(e)[:300], 'entry': 'core:lax'})
        return
    ev = first_of(lambda: schema.validate(xml))
    ed = first_of(lambda: schema.decode(xml, validation='strict'))
    lax_errs = lax[1] if isinstance(lax, tuple) else []
    verdicts = {'is_valid': bool(isv), 'iter_errors': not errs, 'validate': ev is None,
                'decode_strict': ed is None, 'decode_lax': not lax_errs}
    ctx.count('vc:verdict:' + ('valid' if all(verdicts.values()) else 'invalid' if not any(verdicts.values()) else 'SPLIT'))
    if len(set(verdicts.values())) > 1:
        only_ref = bool(errs) and all('IDREF' in str(e.reason) or 'not found' in str(e.reason) for e in errs)
        report(ctx, 'entry points disagree on the verdict of one document', case,
               {'kind': 'verdict', 'verdicts': verdicts, 'errors': [norm_text(str(e.reason)) for e in errs][:4],
                'lax_decode_errors': [norm_text(str(e.reason)) for e in lax_errs][:4],
                'only_reference_errors': only_ref,
                'dissenting_all_decode': verdicts['decode_strict'] and verdicts['decode_lax'] and not verdicts['is_valid']})
        return
    if errs and ev is not None:
        if norm_text(str(getattr(ev, 'reason', ev))) != norm_text(str(errs[0].reason)):
            report(ctx, 'validate() does not raise the first error that iter_errors() yields', case,
                   {'kind': 'first-error', 'raised': norm_text(str(getattr(ev, 'reason', ev))),
                    'first': norm_text(str(errs[0].reason))})
    if lax_errs and ed is not None:
        if norm_text(str(getattr(ed, 'reason', ed))) != norm_text(str(lax_errs[0].reason)):
            report(ctx, 'strict decode does not raise the first error that lax decode collects', case,
                   {'kind': 'first-error', 'raised': norm_text(str(getattr(ed, 'reason', ed))),
                    'first': norm_text(str(lax_errs[0].reason))})


def value_constraint_family(ctx: Ctx) -> None:
    import xmlschema
    XSI = 'http://www.w3.org/2001/XMLSchema-instance'
    for cls in (xmlschema.XMLSchema10, xmlschema.XMLSchema11):
        schema = cls(VC_XSD)
        docs = []
        for tag, texts in VC_TEXTS.items():
            for t in texts:
                docs.append((tag, f'<doc><{tag}>{t}</{tag}></doc>'))
                docs.append((tag, f'<doc>\n  <{tag}>{t}</{tag}>\n</doc>'))
            docs.append((tag, f'<doc><{tag}/></doc>'))
        docs.append(('ni', f'<doc xmlns:xsi="{XSI}"><ni xsi:nil="true"/><ni xsi:nil="true"> </ni><ni xsi:nil="false">3</ni></doc>'))
        docs.append(('mx', '<doc><mx a="1">t</mx><mx a=" 1 ">t</mx><mx a="2"/></doc>'))
        for _ in range(ctx.pick(60, 600)):
            k = ctx.rng.randint(2, 4)
            parts = []
            for _ in range(k):
                tag = ctx.rng.choice(list(VC_TEXTS))
                parts.append(f'<{tag}>{ctx.rng.choice(VC_TEXTS[tag])}</{tag}>')
            docs.append(('multi', '<doc>' + ctx.rng.choice(['', '\n ']).join(parts) + '</doc>'))
        for tag, xml in docs:
            case = {'family': 'value-constraints', 'v': cls.XSD_VERSION, 'element': tag, 'xml': xml}
            ctx.case(case, True, tag='vc/' + cls.XSD_VERSION)
            core_agreement(ctx, schema, xml, case)


def search(ctx: Ctx) -> None:
    """A proof or the tie broke and nothing failed so far: evaluate the property on a larger seeded family."""
    env = Env(ctx)
    import time
    t0 = time.time()
    box = ctx.pick(60, 600)            # seconds
    try:
        cases = gen_cases(ctx, ctx.pick(1500, 4000))
        ctx.rng.shuffle(cases)         # every family is sampled inside the time box
        for case in cases:
            run_case(env, case, kinds_for(case), None, None)
            if ctx.failures:
                break
            if time.time() - t0 > box:
                ctx.notes.append('widened search stopped after its time box of %d s' % box)
                break
        if not ctx.failures and time.time() - t0 <= box:
            cli_checks(env, None, [])
    finally:
        env.close()


def replay(ctx: Ctx, obj: dict) -> int:
    print(json.dumps(obj, indent=1, default=str)[:6000])
    case = obj.get('input')
    if not isinstance(case, dict):
        return 0
    ctx.known.extend(e for e in local_findings() if not any(k['id'] == e['id'] for k in ctx.known))
    env = Env(ctx)
    try:
        if 'cli' in case and 'xml' not in case:
            cli_checks(env, None, [])
        elif 'wildcard' in case:
            drv_path = Driver('drv_c04').path
            wildcard_unit(env, Driver('drv_c04') if drv_path.exists() else None, only=case)
        else:
            case.setdefault('style', 'prefix')
            case.setdefault('prefix_dependent', 'xsi:type' in case['xml'] or '>p:' in case['xml'])
            case.setdefault('faults', [])
            drv_path = Driver('drv_c04').path
            drv = Driver('drv_c04') if drv_path.exists() else None
            reqs: list = []
            pend: list = []
            run_case(env, case, kinds_for(case), reqs if drv else None, pend if drv else None)
            if drv and reqs:
                print('MODEL (driver answers):')
                for r, a in zip(reqs, drv.query(reqs)):
                    print('  request', json.dumps(r)[:500])
                    print('  answer ', json.dumps(a)[:1500])
                compare(ctx, reqs, pend, drv)
    finally:
        env.close()
    for m in ctx.mismatches[:5]:
        print('MODEL != IMPLEMENTATION:', m['correspondence'], json.dumps(m['impl'], default=str)[:300],
              json.dumps(m['model'], default=str)[:300])
    for f in ctx.failures[:5]:
        print('FAILS ON THE REAL CODE:', f['what'], json.dumps(f['detail'], default=str)[:800])
    print('JUDGEMENT:', 'property violated' if ctx.failures else 'property holds on this input')
    return 1 if ctx.failures else 0
