"""
C01 (deepening) — harness side of the exactness theorems of lean/XsVerif/Props/C01Exact.lean.

The theorems say, about the Lean port of ModelVisitor + the XsdGroup child loop, that on the fragment
`FlatSeq` (one sequence{1,1} of element leaves with disjoint names, arbitrary leaf occurrence ranges)
    verdict = language membership   and   fuelOut = false      for every word of any length.
What ties them to /repo is checked here on generated members of the fragment, for both schema classes:
  * the group the schema parser actually built is a member of the fragment (python mirror of `FlatSeq`
    evaluated on the introspected JSON, the same JSON the driver turns into the arena of the theorem);
  * port = implementation on verdict and on the (index, particle, occurs) error list (the correspondence);
  * theorem instance on the driver: port verdict = proved oracle and fuelOut = false (a disagreement means
    the compiled model is not the model the theorem is about);
  * the property itself on the real code: is_valid = language membership, with NO known-deviation
    allowance inside the fragment (C01-F0 does not apply there: any deviation is a failure).
The boundary counter-examples (group occurrence range ≠ 1..1) are replayed on the real code: each must
still deviate exactly as its `decide`-proved theorem says about the port (instances of C01-F0).

Entry points for harness/props/c01.py (the integrator wires them):
    PROPS, AUDIT, LEAN_TARGETS              module names to register
    run_exact(ctx, drv)                     correspondence + property on the fragment, corpus replay
    in_fragment(json, n) -> bool            python mirror of FlatSeq
    replay_exact(ctx, case)                 re-run one stored case
"""
from __future__ import annotations

import itertools
import json
from typing import Any, Optional

from harness.core import Ctx, Driver, VERIF
from harness import lib_cm as cm

PROPS = 'XsVerif.Props.C01Exact'
AUDIT = 'XsVerif.Audit.C01Exact'
LEAN_TARGETS = ['XsVerif.Props.C01Exact']
LEANCHECK = ['XsVerif.Lemmas.VisitorExactBase', 'XsVerif.Lemmas.VisitorExactSeq', 'XsVerif.Lemmas.VisitorExactSeqLoop',
             'XsVerif.Lemmas.VisitorExactLang', 'XsVerif.Props.C01Exact']
KNOWN_ID = 'C01-F0'
CORPUS = VERIF / 'corpus/C01/exact_counterexamples.json'

OCCS = [(0, 0), (0, 1), (1, 1), (0, None), (1, None), (2, 2), (1, 2), (0, 2), (2, 3), (2, None), (3, None), (1, 4)]
OCCS_SMALL = [(0, 0), (0, 1), (1, 1), (0, None), (1, None), (2, 2), (1, 2), (2, 3), (2, None)]


def in_fragment(j: dict, n: int) -> bool:
    """python mirror of `FlatSeq n p` (Props/C01Exact.lean) on the introspected group JSON"""
    if j.get('t') != 'g' or j.get('k') != 'sequence' or j.get('lo') != 1 or j.get('hi') != 1:
        return False
    items = j['items']
    if any(i.get('t') != 'e' for i in items):
        return False
    ids = [j['id']] + [i['id'] for i in items]
    if len(set(ids)) != len(ids) or any(i >= n for i in ids) or len(items) + 1 > n:
        return False
    seen: set = set()
    for i in items:
        names = {tuple(q) for q in i['names']}
        if names & seen:
            return False
        seen |= names
        if i['hi'] is not None and i['lo'] > i['hi']:
            return False
    return True


def fragment_models(ctx: Ctx) -> list[tuple]:
    """members of the fragment: the complete family with ≤2 leaves over {a,b} (sampled in the quick tier),
    seeded larger ones with up to 4 leaves (substitution head `h` included)"""
    rng = ctx.rng
    small = [('g', 'sequence', 1, 1, [])]
    for k in (1, 2):
        for names in itertools.permutations(['a', 'b'], k):
            for occs in itertools.product(OCCS_SMALL, repeat=k):
                small.append(('g', 'sequence', 1, 1, [('e', nm, lo, hi) for nm, (lo, hi) in zip(names, occs)]))
    out = small if not ctx.quick() else [small[0]] + rng.sample(small[1:], 50)
    for _ in range(ctx.pick(70, 1500)):
        k = rng.choice([1, 2, 3, 3, 4, 4])
        names = rng.sample(['a', 'b', 'c', 'h'], k)
        out.append(('g', 'sequence', 1, 1, [('e', nm) + rng.choice(OCCS) for nm in names]))
    return out


def long_words(ast: tuple, rng) -> list[list[str]]:
    """words of unbounded length classes: every leaf repeated lo / hi / hi+1 / lo+7 (unbounded) times"""
    out = []
    for _ in range(6):
        w: list[str] = []
        for leaf in ast[4]:
            lo, hi = leaf[2], leaf[3]
            sym = rng.choice([leaf[1]] + cm.SUBST.get(leaf[1], []))
            r = rng.choice([lo, hi if hi is not None else lo + 7, (hi + 1) if hi is not None else lo + 11, max(lo - 1, 0)])
            w += [sym] * r
        if len(w) <= 40:
            out.append(w)
    return out


def run_fragment(ctx: Ctx, drv: Optional[Driver]) -> None:
    from harness.props.c01 import validate_word
    models = fragment_models(ctx)
    for v11 in (False, True):
        for i in range(0, len(models), 40):
            if ctx.time_left() < 60:
                ctx.notes.append('c01_exact: time budget reached')
                return
            batch = models[i:i + 40]
            schema = cm.build_schema(batch, v11)
            reqs, pend = [], []
            for k, ast in enumerate(batch):
                xe = schema.elements[f'm{k}']
                group = xe.type.content
                if xe.type.errors or group.errors or any(c.errors for c in group.iter_components()):
                    ctx.count('exact:not-built')
                    continue
                intro = cm.Introspector(group)
                n = len(intro.objs)
                case0 = {'v': '1.1' if v11 else '1.0', 'model': cm.show(ast), 'ast': ast, 'exact': 'flat-sequence'}
                if intro.glue or cm.ast_of_json(intro.json) != ast:
                    ctx.mismatch('parsed group differs from the declared flat sequence', case0, cm.ast_of_json(intro.json), ast)
                    continue
                # XSD 1.1 keeps the abstract member q among the names of `h`: still disjoint from the other leaves
                if not in_fragment(intro.json, n):
                    ctx.mismatch('built group is not a member of the FlatSeq fragment', case0, intro.json, None)
                    continue
                alpha = cm.alphabet(ast)
                foreign = [s for s in ('c', 'o') if s not in alpha][:1]
                words = cm.word_set(ctx.rng, ast, alpha + foreign, 2 if len(alpha) > 2 else 3, 8, 30) if ast[4] else \
                    [[], ['a'], ['o']]
                seen = {''.join(w) for w in words}
                for w in long_words(ast, ctx.rng):
                    if ''.join(w) not in seen:
                        seen.add(''.join(w))
                        words.append(w)
                ids = {id(o): t for t, o in enumerate(intro.objs)}
                impl = []
                for w in words:
                    elem, errs, other = validate_word(xe, k, w, ids)
                    impl.append({'valid': xe.is_valid(elem), 'errs': errs, 'other': other})
                reqs.append({'n': n, 'model': intro.json, 'words': [cm.word_json(w) for w in words], 'oc': None})
                pend.append((ast, words, impl, len(ast[4])))
            answers = drv.query(reqs) if drv is not None and reqs else [None] * len(reqs)
            for (ast, words, impl, k), ans in zip(pend, answers):
                ctx.count(f'exact:models:leaves={k}')
                for t, w in enumerate(words):
                    case = {'v': '1.1' if v11 else '1.0', 'model': cm.show(ast), 'ast': ast, 'word': ''.join(w),
                            'exact': 'flat-sequence'}
                    im = impl[t]
                    ctx.case(case, bool(w) and k >= 1, tag=f"exact-seq/{case['v']}")
                    ctx.count('exact:len>8' if len(w) > 8 else 'exact:len<=8')
                    ref = cm.ref_accepts(ast, w)
                    if 'q' in w:
                        if im['valid']:
                            ctx.failure('child sequence using an abstract substitution-group member reported valid', case, im)
                        continue
                    if im['other']:
                        ctx.failure('unexpected non-children error for a simple-typed child', case, im['other'])
                    # the property on the real code; inside the fragment there is no known deviation
                    if im['valid'] != ref:
                        ctx.failure('flat sequence: verdict differs from language membership (fragment proved exact)',
                                    case, {'valid': im['valid'], 'in_language': ref, 'errors': im['errs']})
                    if ans is None or 'err' in ans:
                        continue
                    a = ans['r'][t]
                    ctx.traces += 1
                    if a['f']:
                        ctx.mismatch('fuel exhausted inside the fragment (theorem visitor_fuel_sufficient_flat_sequence)', case, im, a)
                        continue
                    if a['o'] != ref:
                        ctx.mismatch('proved oracle vs independent reference matcher', case, ref, a['o'])
                    if a['m'] != a['o']:
                        ctx.mismatch('theorem instance: port verdict ≠ oracle inside the fragment', case, a['o'], a['m'])
                    if a['m'] != im['valid'] or a['e'] != im['errs']:
                        ctx.mismatch('ModelVisitor port vs implementation (flat sequence)', case, im,
                                     {'valid': a['m'], 'errs': a['e']})
                    ctx.count('exact:verdict:%s' % im['valid'])


def to_ast(x: Any) -> tuple:
    if x[0] in ('e', 'a'):
        return tuple(x)
    return ('g', x[1], x[2], x[3], [to_ast(i) for i in x[4]])


def run_corpus(ctx: Ctx) -> None:
    """the boundary witnesses of Props/C01Exact.lean on the real code (both schema classes)"""
    for c in json.loads(CORPUS.read_text()):
        ast = to_ast(c['ast'])
        for v11 in (False, True):
            schema = cm.build_schema([ast], v11)
            xe = schema.elements['m0']
            valid = xe.is_valid(cm.instance(0, list(c['word'])))
            ref = cm.ref_accepts(ast, list(c['word']))
            same = valid == c['valid'] and ref == c['in_language']
            ctx.count('exact-corpus:%s:%s' % (c['name'], 'reproduced' if same else 'no-longer-deviates'))
            if same:
                ctx.known_hit(KNOWN_ID)


def run_encode_agreement(ctx: Ctx, drv: Optional[Driver]) -> None:
    """theorem `encodeSilent_eq_verdict` (all models): the encoder's child loop reports a children error
    for exactly the child sequences the validator's child loop rejects.  On the real code: data built
    from (model, word) is encoded in lax mode with the lossless JsonML converter; `no children error`
    must coincide with `the same children are valid for the model`; on the driver: es == m."""
    import xmlschema
    from xmlschema.validators.exceptions import XMLSchemaChildrenValidationError
    nsmap = {'t': cm.TNS, 'o': cm.ONS}
    rng = ctx.rng
    for v11 in (False, True):
        models = [cm.random_model(rng, ['a', 'b', 'c', 'h'], v11=v11, max_depth=2) for _ in range(ctx.pick(40, 600))]
        models += fragment_models(ctx)[:ctx.pick(30, 400)]
        for i in range(0, len(models), 40):
            if ctx.time_left() < 60:
                return
            batch = models[i:i + 40]
            schema = cm.build_schema(batch, v11)
            reqs, pend = [], []
            for k, ast in enumerate(batch):
                xe = schema.elements[f'm{k}']
                group = xe.type.content
                if xe.type.errors or group.errors or any(c.errors for c in group.iter_components()):
                    continue
                if cm.upa_ok(ast, v11=v11) is not True:
                    continue
                intro = cm.Introspector(group)
                if intro.glue:
                    continue
                alpha = [x for x in cm.alphabet(ast) if x != 'q'] or ['a']
                words = cm.word_set(rng, ast, alpha + (['c'] if 'c' not in alpha else []), 2, 6, 14)[:30]
                impl = []
                for w in words:
                    data = [f't:m{k}'] + [[('o:z' if x == 'o' else 't:' + cm.SYMS[x][1]), 'x'] for x in w]
                    try:
                        _, errs = schema.encode(data, path=f't:m{k}', converter=xmlschema.JsonMLConverter,
                                                validation='lax', namespaces=nsmap)
                    except Exception as e:   # noqa
                        impl.append({'raised': type(e).__name__})
                        continue
                    silent = not any(isinstance(e, XMLSchemaChildrenValidationError) for e in errs)
                    impl.append({'silent': silent, 'valid': xe.is_valid(cm.instance(k, w))})
                reqs.append({'n': len(intro.objs), 'model': intro.json, 'words': [cm.word_json(w) for w in words], 'oc': None})
                pend.append((ast, words, impl))
            answers = drv.query(reqs) if drv is not None and reqs else [None] * len(reqs)
            for (ast, words, impl), ans in zip(pend, answers):
                for t, w in enumerate(words):
                    im = impl[t]
                    case = {'v': '1.1' if v11 else '1.0', 'encode-agreement': True, 'model': cm.show(ast), 'ast': ast,
                            'word': ''.join(w)}
                    ctx.case(case, bool(w), tag='exact-encode/' + case['v'])
                    if 'raised' in im:
                        ctx.count('exact-encode:raised:' + im['raised'])
                        continue
                    ctx.count('exact-encode:silent=%s/valid=%s' % (im['silent'], im['valid']))
                    if im['valid'] and not im['silent']:
                        ctx.failure('strict encode is not complete: the validator accepts the children, the encoder '
                                    'reports a children error', case, im)
                    if im['silent'] and not im['valid'] and not (ast[1] == 'choice' and not ast[4] and ast[2] > 0):
                        ctx.failure('encode reported no children error but the children are not valid', case, im)
                    if ans is None or 'err' in ans:
                        continue
                    a = ans['r'][t]
                    ctx.traces += 1
                    if a['f'] or a['ef']:
                        continue
                    if a['es'] != a['m']:
                        ctx.mismatch('theorem instance: encodeSilent ≠ verdict on the driver', case, a['m'], a['es'])
                    if a['es'] != im['silent'] or a['m'] != im['valid']:
                        ctx.mismatch('child loops (decode/encode) port vs implementation', case, im,
                                     {'silent': a['es'], 'valid': a['m']})


def run_exact(ctx: Ctx, drv: Optional[Driver]) -> None:
    run_corpus(ctx)
    run_fragment(ctx, drv)
    run_encode_agreement(ctx, drv)


def replay_exact(ctx: Ctx, case: dict) -> int:
    from harness.props.c01 import validate_word
    ast = to_ast(case['ast'])
    v11 = case['v'] == '1.1'
    schema = cm.build_schema([ast], v11)
    xe = schema.elements['m0']
    intro = cm.Introspector(xe.type.content)
    ids = {id(o): i for i, o in enumerate(intro.objs)}
    w = list(case['word'])
    elem, errs, other = validate_word(xe, 0, w, ids)
    valid = xe.is_valid(elem)
    ref = cm.ref_accepts(ast, w)
    print('in fragment:', in_fragment(intro.json, len(intro.objs)), ' implementation: valid =', valid, errs, other,
          ' in language =', ref)
    return 1 if valid != ref else 0


if __name__ == '__main__':     # stand-alone: /venv/bin/python -m harness.props.c01_exact [quick|thorough] [seed]
    import sys
    tier = sys.argv[1] if len(sys.argv) > 1 else 'quick'
    seed = int(sys.argv[2]) if len(sys.argv) > 2 else 0
    ctx = Ctx('C01', tier, seed)
    d = Driver('drv_c01')
    run_exact(ctx, d if d.path.exists() else None)
    print(json.dumps({'cases': ctx.evaluations, 'traces': ctx.traces, 'mismatches': len(getattr(ctx, 'mismatches', [])),
                      'failures': len(ctx.failures), 'elapsed': round(ctx.elapsed(), 1)}, indent=1))
    hist = getattr(ctx, 'hist', None) or getattr(ctx, 'counts', None)
    if hist:
        print(json.dumps({k: v for k, v in sorted(hist.items()) if k.startswith('exact')}, indent=1))
    for m in getattr(ctx, 'mismatches', [])[:5]:
        print('MISMATCH', m)
    for f in ctx.failures[:5]:
        print('FAILURE', f)
