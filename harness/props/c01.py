"""
C01 — child sequences are valid exactly when they are in the content-model language.

S  (Lean)  Rx.Lang of Particle.toRx          XsVerif/Model/{Rx,Particle}.lean
O  (Lean)  inModel = derivative matcher, proved  accepts_iff   XsVerif/Lemmas/Rx.lean
M  (Lean)  port of ModelVisitor + child loop     XsVerif/Model/Visitor.lean
I          the real XsdGroup.raw_decode / ModelVisitor, called through iter_errors / is_valid

Per (model, word): I vs M (verdict and the list of (index, particle, occurs) children errors) is the
correspondence; I vs O is the property.  The pinned ModelVisitor is a heuristic that deviates from
the language on some deterministic models (known finding C01-F0, identified by call site): a
deviation is *known* iff the Lean port of the pinned algorithm reproduces exactly the same
verdict; any other deviation is a violation.
"""
from __future__ import annotations

import json
from typing import Any, Optional

from harness.core import Ctx, Driver
from harness import lib_cm as cm
from harness.props import c01_exact

PROPS = ['XsVerif.Props.C01', 'XsVerif.Props.C01Exact', 'XsVerif.Props.C01Default']
AUDIT = 'XsVerif.Audit.C01'
LEAN_TARGETS = ['XsVerif.Props.C01', 'XsVerif.Props.C01Exact', 'XsVerif.Props.C01Default', 'drv_c01']
LEANCHECK = ['XsVerif.Model.Rx', 'XsVerif.Lemmas.Rx', 'XsVerif.Model.Particle', 'XsVerif.Props.C01',
             'XsVerif.Model.DefaultOpen', 'XsVerif.Props.C01Default'] + c01_exact.LEANCHECK
RULE = ('case = (XSD version, content model, child word). Models: the complete family with ≤2 leaves over {a,b} '
        '(+ wildcard leaf) with occurrences from {1,?,*,+,{2,2},{1,2},{0,0}} nested to depth 2, a seeded stratified '
        'sample of the 3-leaf family, seeded random larger models (depth ≤3, substitution-group heads, wildcards, '
        'xs:all); words: every word up to a length bound over the model alphabet plus one foreign symbol. Only models '
        'accepted by the schema builder and deterministic by an independent position-automaton check count. '
        'non-trivial = the word is non-empty and the model has ≥2 particles or a non-default occurrence range; '
        'distinct by canonical JSON')
TRUSTED = ['independent UPA reference (harness/lib_cm.py, position automaton with unrolled occurrences) selects the '
           'deterministic models the property quantifies over; cross-checked against the proved oracle on every word '
           '(ref_accepts vs inModel)',
           'children of the validated parent are simple-typed leaves (xs:string): their own validation is C02']
ASSUMPTIONS = ['open-content wildcards use processContents=lax (the strict branch needs the global element map)',
               'UPA for open content: the wrapped model must be deterministic; competition between the open wildcard and the model is resolved in favour of the model (XSD 1.1)']

KNOWN_ID = 'C01-F0'


# ---------------------------------------------------------------------------------------------
# schema-level xs:defaultOpenContent: oc = (mode, namespace, processContents, 'default', appliesToEmpty in
# {'omit','false','true'}, 'plain'|'mixed' [, 'absent' = the complex type has no model group child])

def is_default(oc: Optional[tuple]) -> bool:
    return oc is not None and len(oc) > 3 and oc[3] == 'default'


def explicit_empty(ast: tuple, absent: bool) -> bool:
    """Python mirror of Lean `explicitEmpty` (Structures 1.1 §3.4.2.3.3 clause 2.1); compared with the
    Lean verdict ('ap') on every model."""
    if absent:
        return True
    if ast[3] == 0:
        return True
    return not ast[4] and (ast[1] != 'choice' or ast[2] == 0)


def default_applies(ast: tuple, oc: tuple) -> bool:
    return oc[5] == 'mixed' or not explicit_empty(ast, len(oc) > 6) or oc[4] == 'true'


def build_default_schema(models: list[tuple], oc: tuple):
    import xmlschema
    tag, rest = cm.HEAD.split('\n', 1)
    ate = '' if oc[4] == 'omit' else f' appliesToEmpty="{oc[4]}"'
    doc = (f'<xs:defaultOpenContent mode="{oc[0]}"{ate}><xs:any namespace="{oc[1]}" processContents="{oc[2]}"/>'
           '</xs:defaultOpenContent>')
    mixed = ' mixed="true"' if oc[5] == 'mixed' else ''
    defs: list = []
    body = []
    for k, m in enumerate(models):
        grp = '' if len(oc) > 6 else cm.to_xsd(m, defs, {})
        body.append(f'<xs:element name="m{k}"><xs:complexType{mixed}>{grp}</xs:complexType></xs:element>')
    return xmlschema.XMLSchema11(tag + '\n' + doc + rest + '\n'.join(defs + body) + '</xs:schema>', validation='lax')


def build_any(models: list[tuple], v11: bool, oc: Optional[tuple]):
    return build_default_schema(models, oc) if is_default(oc) else cm.build_schema(models, v11, oc=oc)


def oc_request(schema: Any, xe: Any, intro: Any, oc: Optional[tuple]):
    """the open-content part of a driver request: (oc json, dflt json)"""
    if oc is None:
        return None, None
    dflt = None
    if is_default(oc):
        wobj = schema.default_open_content.any_element
        dflt = {'ate': oc[4] == 'true', 'mixed': oc[5] == 'mixed', 'absent': len(oc) > 6}
    else:
        wobj = xe.type.open_content.any_element
    ocj = {'mode': oc[0], 'wild': intro.walk(wobj), 'pc': oc[2] if len(oc) > 2 else 'lax',
           'globals': [cm.split_qname(n) for n in schema.maps.elements]}
    return ocj, dflt


def default_models(rng, n_random: int) -> list[tuple]:
    """explicitly empty groups of every kind and range + small and random non-empty models, incl. NON-empty
    top groups with maxOccurs=0 (clause 2.1.4: empty explicit content; finding C01-F2, fixed by 020d7cd).  Not
    generated: the empty choice with minOccurs>=1 (empty language: applicability is unobservable)."""
    out = [('g', 'sequence', lo, hi, []) for lo, hi in ((1, 1), (0, 1), (0, 0), (2, 2), (0, None), (1, None))]
    out += [('g', 'all', 1, 1, []), ('g', 'all', 0, 1, [])]
    out += [('g', 'choice', 0, hi, []) for hi in (1, 0, None, 2)]
    out += [('g', 'sequence', 1, 1, [('e', 'a', 0, 1)]), ('g', 'sequence', 1, 1, [('e', 'a', 0, 0)]),
            ('g', 'sequence', 1, 1, [('g', 'sequence', 1, 1, [])]), ('g', 'choice', 0, 1, [('e', 'a', 1, 1)]),
            ('g', 'sequence', 0, 1, [('e', 'a', 1, 1), ('e', 'b', 0, None)]), ('g', 'all', 0, 1, [('e', 'a', 0, 1)]),
            ('g', 'choice', 1, 1, [('g', 'choice', 0, 1, [])])]
    out += [('g', 'sequence', 0, 0, [('e', 'a', 1, 1)]), ('g', 'choice', 0, 0, [('e', 'a', 1, 1), ('e', 'b', 0, 1)]),
            ('g', 'all', 0, 0, [('e', 'a', 0, 1)])]
    out += [cm.random_model(rng, ['a', 'b'], max_depth=2, v11=True, any_p=0.0) for _ in range(n_random)]
    return out


def validate_word(xsd_element: Any, k: int, word: list[str], ids: dict[int, int]):
    from xmlschema.validators.exceptions import XMLSchemaChildrenValidationError
    elem = cm.instance(k, word)
    out = []
    other = []
    try:
        errs = list(xsd_element.iter_errors(elem))
    except Exception as ex:     # noqa: a foreign exception instead of a verdict: reported as a failing input
        import xmlschema
        if isinstance(ex, xmlschema.XMLSchemaException):
            raise
        return elem, [], ['ESCAPED:' + type(ex).__name__ + ':' + str(ex)[:120]]
    for e in errs:
        if isinstance(e, XMLSchemaChildrenValidationError) and e.elem is elem:
            out.append([e.index, ids.get(id(e.particle), -1), e.occurs])
        else:
            other.append(type(e).__name__ + ':' + str(getattr(e, 'reason', ''))[:80])
    return elem, out, other


def prepare_batch(args):
    """Python side of one batch (runs in a worker process in the thorough tier): builds the schema,
    validates every word with the real code and returns what the Lean driver and the judge need."""
    import random
    models, v11, maxlen, fam, oc, quick, seed = args
    rng = random.Random(seed)
    schema = build_any(models, v11, oc)
    dflt = is_default(oc)
    reqs, pend, counts, glue = [], [], {}, []
    for k, ast in enumerate(models):
        xe = schema.elements[f'm{k}']
        group = xe.type.content
        built_ok = not xe.type.errors and not group.errors and all(not c.errors for c in group.iter_components())
        det = cm.upa_ok(ast, v11=v11)
        key = f'{fam}:built={built_ok},det={det}'
        counts[key] = counts.get(key, 0) + 1
        if not built_ok or det is not True:
            continue
        intro = cm.Introspector(group)
        if cm.ast_of_json(intro.json) != cm.strip_refs(ast):
            glue.append(('parsed group differs from the declared model', {'model': cm.show(ast)},
                         cm.ast_of_json(intro.json), cm.strip_refs(ast)))
            continue
        for g in intro.glue:
            glue.append(('substitution group computed by the schema differs from the declared closure',
                         {'model': cm.show(ast)}, g['substitutes_built'], g['substitutes_declared']))
        alpha = cm.alphabet(ast)
        if 'h' in alpha and 'q' not in alpha:
            alpha = alpha + ['q']       # the abstract member: must never be accepted
        foreign = [s for s in (('o', 'c') if oc else ('c', 'o')) if s not in alpha][:2 if dflt else 1]
        ocj, dj = oc_request(schema, xe, intro, oc)
        if quick or fam in ('random', 'group-refs', 'open-content'):
            words = cm.word_set(rng, ast, alpha + foreign, 3 if len(alpha) < 3 else 2, maxlen + 2, 40)
        else:
            words = list(cm.words_upto(alpha + foreign, maxlen))
            if len(words) > 400:
                words = words[:150] + rng.sample(words[150:], 250)
        ids = {id(o): i for i, o in enumerate(intro.objs)}
        impl = []
        for w in words:
            elem, errs, other = validate_word(xe, k, w, ids)
            valid = False if any(x.startswith('ESCAPED:') for x in other) else xe.is_valid(elem)
            impl.append({'valid': valid, 'errs': errs, 'other': other})
            if dflt:
                impl[-1]['oc_applied'] = xe.type.open_content is not None
        reqs.append({'n': len(intro.objs), 'model': intro.json, 'words': [cm.word_json(w) for w in words], 'oc': ocj,
                     'dflt': dj})
        pend.append((ast, words, impl))
    return reqs, pend, counts, glue, (v11, fam, oc)


def run_batch(ctx: Ctx, drv: Optional[Driver], models: list[tuple], v11: bool, maxlen: int, fam: str,
              oc: Optional[tuple] = None) -> None:
    judge_batch(ctx, drv, prepare_batch((models, v11, maxlen, fam, oc, ctx.quick(), ctx.rng.random())))


def judge_batch(ctx: Ctx, drv: Optional[Driver], prepared) -> None:
    reqs, pend, counts, glue, (v11, fam, oc) = prepared
    for k, n in counts.items():
        ctx.count(k, n)
    for g in glue:
        ctx.mismatch(*g)
    answers = drv.query(reqs) if drv is not None and reqs else [None] * len(reqs)
    for (ast, words, impl), ans in zip(pend, answers):
        mshow = cm.show(ast)
        dflt = is_default(oc)
        applies = default_applies(ast, oc) if dflt else True
        if dflt and ans is not None and 'err' not in ans:
            ctx.count('default-open:applies=%s' % applies)
            if ans.get('ap') != applies:
                ctx.mismatch('defaultOpenContent applicability: Lean openContentApplies vs harness mirror',
                             {'model': mshow, 'open_content': list(oc)}, applies, ans.get('ap'))
            if impl and impl[0].get('oc_applied') != applies:
                ctx.mismatch('defaultOpenContent applicability: built type vs Lean openContentApplies',
                             {'model': mshow, 'open_content': list(oc)}, impl[0].get('oc_applied'), applies)
        for i, w in enumerate(words):
            case = {'v': '1.1' if v11 else '1.0', 'model': mshow, 'ast': ast, 'word': ''.join(w)}
            if oc:
                case['open_content'] = list(oc)
            im = impl[i]
            nontrivial = bool(w) and (len(cm.leaves(ast)) > 1 or (ast[2], ast[3]) != (1, 1))
            ctx.case(case, nontrivial, tag=f"{case['v']}/{fam}")
            ref = cm.ref_accepts_oc(ast, w, oc) if oc and applies else cm.ref_accepts(ast, w)
            if oc and applies and len(oc) > 2 and oc[2] == 'strict' and 'o' in w:
                # an undeclared child under a strict wildcard is an element-level error whatever the model says:
                # the sequence must be rejected; the content-model comparison does not apply
                ctx.count('strict-wildcard-undeclared-child')
                if im['valid']:
                    ctx.failure('undeclared child accepted under a strict open-content wildcard', case, im)
                continue
            if 'q' in w:
                # the abstract substitution-group member: XSD 1.0 processor refuses it at model level, the
                # 1.1 processor matches it and refuses it at element level ("can't use an abstract element");
                # either way the sequence must be rejected -- nothing else is compared for such words
                ctx.count('abstract-member-word')
                if im['valid']:
                    ctx.failure('child sequence using an abstract substitution-group member reported valid', case, im)
                continue
            if im['other']:
                ctx.failure('unexpected non-children error for a simple-typed child', case, im['other'])
            if im['valid'] != (not im['errs']):
                ctx.failure('is_valid disagrees with iter_errors', case, im)
            if ans is None:
                # Lean unavailable: deviations from the reference language cannot be classified against the
                # pinned port (known finding C01-F0), so they are only counted
                if im['valid'] != ref:
                    ctx.count('unclassified-deviation(no-driver)')
                continue
            if 'err' in ans:
                ctx.mismatch('driver error', case, None, ans)
                break
            a = ans['r'][i]
            ctx.traces += 1
            if a['f']:
                ctx.count('fuel-exhausted')
                ctx.mismatch('model ran out of fuel', case, im, a)
                continue
            if a['o'] != ref:
                ctx.mismatch('proved oracle vs independent reference matcher', case, ref, a['o'])
            same = (a['m'] == im['valid'] and a['e'] == im['errs'])
            if not same:
                ctx.mismatch('ModelVisitor port vs implementation', case, im, {'valid': a['m'], 'errs': a['e']})
            ctx.count('verdict:%s/lang:%s' % (im['valid'], a['o']))
            if im['valid'] != a['o']:
                if a['m'] == im['valid']:
                    ctx.known_hit(KNOWN_ID)      # pinned algorithm reproduces exactly this deviation
                    ctx.count('known-deviation:' + ('accepts-nonword' if im['valid'] else 'rejects-word'))
                else:
                    ctx.failure('verdict differs from language membership', case,
                                {'valid': im['valid'], 'in_language': a['o'], 'errors': im['errs']})


def families(ctx: Ctx):
    """yields (family name, v11, list of models, max word length)"""
    rng = ctx.rng
    two = list(cm.exhaustive_models(2, ['a', 'b'], depth=2))
    two_any = [m for m in cm.exhaustive_models(2, ['a'], depth=2, with_any=True) if any(l[0] == 'a' for l in cm.leaves(m))]
    n3 = ctx.pick(400, 8000)
    for v11 in (False, True):
        yield 'exh2', v11, (rng.sample(two, 700) if ctx.quick() else two), 5
        yield 'exh2-any', v11, rng.sample(two_any, min(len(two_any), ctx.pick(150, 2000))), 4
        three = [cm.random_small(rng, 3, ['a', 'b'], occs=[(1, 1), (0, 1), (0, None), (2, 2), (1, 2)]) for _ in range(n3)]
        yield 'exh3-sample', v11, three, 5
        rnd = [cm.random_model(rng, ['a', 'b', 'c', 'h'], v11=v11) for _ in range(ctx.pick(300, 4000))]
        yield 'random', v11, rnd, ctx.pick(5, 6)
        refs = [cm.with_refs(rng, cm.random_model(rng, ['a', 'b', 'c'], v11=v11, allow_all=False)) for _ in range(ctx.pick(120, 2000))]
        yield 'group-refs', v11, [m for m in refs if 'ref' in repr(m)], 5
    for oc in (('interleave', '##other'), ('suffix', '##other'), ('interleave', '##any'), ('suffix', '##any'),
               ('interleave', '##other', 'skip'), ('suffix', '##any', 'skip'), ('interleave', '##any', 'strict'),
               ('interleave', '##other', 'strict'), ('suffix', '##other', 'strict')):
        rnd = [cm.random_model(rng, ['a', 'b'], max_depth=2, v11=True, any_p=0.0) for _ in range(ctx.pick(60, 1500))]
        yield ('open-content', oc), True, rnd, 4
    # schema-level defaultOpenContent x appliesToEmpty x mixed x empty / non-empty / absent model group
    for mode, ns, pc in (('interleave', '##any', 'skip'), ('suffix', '##any', 'lax'), ('interleave', '##other', 'lax'),
                         ('suffix', '##other', 'skip')):
        for ate in ('omit', 'false', 'true'):
            for mixed in ('plain', 'mixed'):
                base = (mode, ns, pc, 'default', ate, mixed)
                yield ('default-open', base), True, default_models(rng, ctx.pick(6, 60)), 3
                yield ('default-open', base + ('absent',)), True, [('g', 'sequence', 1, 1, [])], 3


def fam_deadline(ctx: Ctx, fam: str) -> float:
    """soft per-family deadline so that every family gets its share of the run"""
    return float('inf')


def to_ast(x):
    if isinstance(x, (list, tuple)) and x and x[0] in ('e', 'a'):
        return tuple(x)
    return ('g', x[1], x[2], x[3], [to_ast(i) for i in x[4]])


NSMAP = {'t': cm.TNS, 'o': cm.ONS}


def encoder_family(ctx: Ctx, drv: Optional[Driver], n_models: int, known_fid: str = 'C05-F10') -> None:
    """Correspondence of the encoder's child loop (XsdGroup.raw_encode) with its Lean port
    (`encodeErrors`) and the C05 clause "strict encode returns only XML the same schema accepts" on the
    real code: for (model, word) the data ['t:mK', ['t:a','x'], ...] is encoded in lax mode with the
    lossless JsonML converter; the children errors (index, particle, occurs) are compared with the port;
    when encoding reports no error at all the returned element must be valid."""
    import xmlschema
    from xmlschema.validators.exceptions import XMLSchemaChildrenValidationError
    rng = ctx.rng
    for v11 in (False, True):
        models = [cm.random_model(rng, ['a', 'b', 'c', 'h'], v11=v11, max_depth=2) for _ in range(n_models)]
        models += [cm.random_small(rng, 2, ['a', 'b']) for _ in range(n_models)]
        models += [('g', 'choice', 1, 1, []), ('g', 'choice', 0, 1, []), ('g', 'sequence', 1, 1, [])]
        for i in range(0, len(models), 40):
            batch = models[i:i + 40]
            schema = cm.build_schema(batch, v11)
            reqs, pend = [], []
            for k, ast in enumerate(batch):
                xe = schema.elements[f'm{k}']
                group = xe.type.content
                if xe.type.errors or group.errors or any(c.errors for c in group.iter_components()):
                    continue
                if cm.upa_ok(ast, v11=v11) is not True:
                    continue
                intro = cm.Introspector(group)
                if intro.glue:
                    continue
                ids = {id(o): j for j, o in enumerate(intro.objs)}
                alpha = [s_ for s_ in cm.alphabet(ast) if s_ != 'q'] or ['a']
                words = cm.word_set(rng, ast, alpha + ['c'] if 'c' not in alpha else alpha, 2, 5, 12)[:30]
                impl = []
                for w in words:
                    data = [f't:m{k}'] + [[('o:z' if s_ == 'o' else 't:' + cm.SYMS[s_][1]), 'x'] for s_ in w]
                    try:
                        elem, errs = schema.encode(data, path=f't:m{k}', converter=xmlschema.JsonMLConverter,
                                                   validation='lax', namespaces=NSMAP)
                    except Exception as e:   # noqa
                        impl.append({'raised': type(e).__name__})
                        continue
                    ch = [[e.index, ids.get(id(e.particle), -1), e.occurs] for e in errs
                          if isinstance(e, XMLSchemaChildrenValidationError)]
                    other = [type(e).__name__ for e in errs if not isinstance(e, XMLSchemaChildrenValidationError)]
                    ok = elem is not None and xe.is_valid(elem)
                    impl.append({'errs': ch, 'other': other, 'valid': ok})
                reqs.append({'n': len(intro.objs), 'model': intro.json, 'words': [cm.word_json(w) for w in words], 'oc': None})
                pend.append((ast, words, impl))
            answers = drv.query(reqs) if drv is not None and reqs else [None] * len(reqs)
            for (ast, words, impl), ans in zip(pend, answers):
                for j, w in enumerate(words):
                    im = impl[j]
                    case = {'v': '1.1' if v11 else '1.0', 'encode': True, 'model': cm.show(ast), 'ast': ast, 'word': ''.join(w)}
                    ctx.case(case, bool(w), tag='encode/' + case['v'])
                    if 'raised' in im:
                        ctx.count('encode:raised:' + im['raised'])
                        continue
                    silent = not im['errs'] and not im['other']
                    ctx.count('encode:' + ('silent' if silent else 'errors'))
                    if silent and not im['valid']:
                        empty_choice = ast[1] == 'choice' and not ast[4] and ast[2] > 0
                        if empty_choice:
                            ctx.known_hit(known_fid)
                        else:
                            ctx.failure('encode reported no error but the returned element is not valid for the schema',
                                        case, im)
                    if ans is None or 'err' in ans:
                        continue
                    a = ans['r'][j]
                    ctx.traces += 1
                    if a['ef']:
                        ctx.mismatch('encoder port ran out of fuel', case, im, a)
                    elif a['ee'] != im['errs'] or a['es'] != silent:
                        ctx.mismatch('raw_encode child loop port vs implementation', case,
                                     {'errs': im['errs'], 'silent': silent}, {'errs': a['ee'], 'silent': a['es']})


def corpus(ctx: Ctx) -> None:
    """The witnesses of the Lean counter-example theorems, replayed on the real code: each must still
    behave as the theorem says about the port (otherwise the finding changed — information, not alarm:
    the general comparison below decides)."""
    from harness.core import VERIF
    for c in json.loads((VERIF / 'corpus/C01/counterexamples.json').read_text()):
        ast = to_ast(c['ast'])
        for v11 in (False, True):
            schema = cm.build_schema([ast], v11)
            xe = schema.elements['m0']
            valid = xe.is_valid(cm.instance(0, list(c['word'])))
            ctx.count('corpus:%s:%s' % (c['name'], 'reproduced' if valid == c['valid'] else 'no-longer-fails'))
            if valid == c['valid'] and cm.ref_accepts(ast, list(c['word'])) == c['in_language']:
                ctx.known_hit(KNOWN_ID)


def run_parallel(ctx: Ctx, drv: Optional[Driver]) -> None:
    """thorough tier: the Python side of the batches runs in worker processes"""
    import multiprocessing as mp
    import os
    jobs = []
    for fam, v11, models, maxlen in families(ctx):
        oc = None
        if isinstance(fam, tuple):
            fam, oc = fam
        for i in range(0, len(models), 40):
            jobs.append((models[i:i + 40], v11, maxlen, fam, oc, False, ctx.rng.random()))
    nproc = max(2, min(12, (os.cpu_count() or 4) - 2))
    # bounded window of outstanding batches: the workers prepare faster than the parent judges, and an
    # unbounded imap queue once grew to 43 GB (the parent was OOM-killed)
    from collections import deque
    with mp.get_context('fork').Pool(nproc) as pool:
        pending: deque = deque()
        it = iter(jobs)
        done = 0

        def refill() -> None:
            while len(pending) < 2 * nproc:
                j = next(it, None)
                if j is None:
                    return
                pending.append(pool.apply_async(prepare_batch, (j,)))
        refill()
        while pending:
            prepared = pending.popleft().get()
            refill()
            judge_batch(ctx, drv, prepared)
            del prepared
            done += 1
            if ctx.time_left() < 120:
                ctx.notes.append(f'time budget reached after {done} of {len(jobs)} batches')
                pool.terminate()
                break
    ctx.extra['batches'] = len(jobs)


def run(ctx: Ctx, driver_ok: bool) -> None:
    drv = Driver('drv_c01') if driver_ok else None
    corpus(ctx)
    encoder_family(ctx, drv, ctx.pick(40, 400), known_fid='C05-F10')
    c01_exact.run_exact(ctx, drv)       # fragment on which the port is PROVED exact + encode/validate agreement
    if not ctx.quick():
        run_parallel(ctx, drv)
        return
    for fam, v11, models, maxlen in families(ctx):
        oc = None
        if isinstance(fam, tuple):
            fam, oc = fam
        for i in range(0, len(models), 40):
            if ctx.time_left() < 60:
                ctx.notes.append(f'time budget reached in family {fam}')
                return
            if ctx.elapsed() > fam_deadline(ctx, fam):
                ctx.notes.append(f'family {fam} (1.{int(v11)}) cut at its time share after {i} models')
                break
            run_batch(ctx, drv, models[i:i + 40], v11, maxlen, fam, oc)


def search(ctx: Ctx) -> None:
    """widen the exploration (thorough family) when a tie broke without a failing input"""
    saved = ctx.tier
    drv = Driver('drv_c01')
    drv = drv if drv.path.exists() else None
    ctx.tier = 'thorough'
    ctx.budget_s += 600
    try:
        for fam, v11, models, maxlen in families(ctx):
            oc = None
            if isinstance(fam, tuple):
                fam, oc = fam
            for i in range(0, len(models), 40):
                if ctx.failures or ctx.time_left() < 30:
                    return
                run_batch(ctx, drv, models[i:i + 40], v11, maxlen, fam, oc)
    finally:
        ctx.tier = saved


def replay(ctx: Ctx, obj: dict) -> int:
    print(json.dumps(obj, indent=1)[:3000])
    case = obj.get('input') or {}
    if 'ast' not in case:
        return 0

    def tup(x):
        return tuple(tup(i) if isinstance(i, list) and i and isinstance(i[0], str) and i[0] in ('e', 'a', 'g') else
                     ([tup(j) for j in i] if isinstance(i, list) else i) for i in x)
    ast = tup(case['ast'])
    v11 = case['v'] == '1.1'
    drv = Driver('drv_c01')
    ctx2 = Ctx(ctx.prop, 'quick', 0)
    oc = tuple(case['open_content']) if case.get('open_content') else None
    schema = build_any([ast], v11, oc)
    xe = schema.elements['m0']
    intro = cm.Introspector(xe.type.content)
    ocj, dj = oc_request(schema, xe, intro, oc)
    ids = {id(o): i for i, o in enumerate(intro.objs)}
    w = list(case['word'])
    elem, errs, other = validate_word(xe, 0, w, ids)
    ans = drv.query([{'n': len(intro.objs), 'model': intro.json, 'words': [cm.word_json(w)], 'oc': ocj, 'dflt': dj}])[0]
    print('implementation: valid =', xe.is_valid(elem), 'children errors =', errs, other)
    print('lean: oracle(in language) =', ans['r'][0]['o'], ' visitor port =', ans['r'][0]['m'], ans['r'][0]['e'])
    return 1 if xe.is_valid(elem) != ans['r'][0]['o'] and ans['r'][0]['m'] != xe.is_valid(elem) else 0
