"""
C05 — generator of schemas (as small ASTs rendered to XSD text) and of valid instances, capture of
the ElementData tuples exchanged between validators and converters, canonical forms.

Everything random comes from the `random.Random` passed in (ctx.rng).
"""
from __future__ import annotations

import math
from decimal import Decimal
from typing import Any, Optional
from xml.etree import ElementTree as ET

XS = 'http://www.w3.org/2001/XMLSchema'
TNS = 'urn:t'

SIMPLE_KINDS = ['int', 'decimal', 'string', 'boolean', 'double', 'date', 'token', 'NMTOKEN']
WORDS = ['a', 'b7', 'foo', 'Bar', 'x-y', 'q.r', 'zz']


# ------------------------------------------------------------------------------------ schema AST

def gen_simple(rng, allow_list=True) -> dict:
    k = rng.choice(SIMPLE_KINDS)
    if allow_list and rng.random() < 0.2:
        return {'k': 'list', 'item': rng.choice(['int', 'NMTOKEN', 'boolean', 'decimal'])}
    if rng.random() < 0.08:
        return {'k': 'union', 'members': ['int', 'boolean']}
    return {'k': k}


def gen_attrs(rng, st) -> list:
    out = []
    n = rng.choice([0, 0, 1, 1, 2, 3])
    for i in range(n):
        out.append({'name': rng.choice(['id', 'k', 'u', 'lang', 'n', 'v']) + (str(i) if i else ''),
                    'type': gen_simple(rng, allow_list=rng.random() < 0.3),
                    'use': rng.choice(['optional', 'optional', 'required']),
                    'qualified': st['tns'] is not None and rng.random() < 0.2})
    names = set()
    res = []
    for a in out:
        if a['name'] not in names:
            names.add(a['name'])
            res.append(a)
    if res and st['tns'] is not None and rng.random() < 0.12:
        # the same local name twice, once in the target namespace and once in no namespace (two different
        # attributes: only the prefix tells them apart in the decoded data)
        twin = dict(rng.choice(res))
        twin['qualified'] = not twin['qualified']
        twin['type'] = gen_simple(rng, allow_list=False)
        twin['use'] = 'optional'
        res.append(twin)
    return res


def gen_occurs(rng) -> tuple:
    return rng.choice([(1, 1), (1, 1), (0, 1), (0, 1), (1, 2), (0, 3), (1, None), (0, None), (2, 2)])


def gen_group(rng, st, depth, names: list) -> dict:
    model = rng.choice(['sequence', 'sequence', 'sequence', 'choice', 'all'])
    if depth <= 0 and model == 'all':
        model = 'sequence'
    n = rng.choice([0, 1, 2, 2, 3, 3, 4]) if st['top'] or rng.random() < 0.8 else 1
    if model == 'choice':
        n = max(n, 1)
    parts = []
    for _ in range(n):
        if model != 'all' and st['nest'] < 2 and rng.random() < 0.25:
            sub = gen_group(rng, dict(st, top=False, nest=st['nest'] + 1), depth, names)
            if sub['model'] == 'all':
                sub['model'] = 'sequence'
            sub['occurs'] = rng.choice([(1, 1), (0, 1), (1, 2), (0, None)])
            if rng.random() < 0.6:
                # a group that repeats many times: the same names come back once per occurrence of the GROUP (not
                # through the maxOccurs of an element), so the encoders of the collapsing conventions have to hand
                # a run of same-named values back to the model one group occurrence at a time (models.py:899-960)
                sub['occurs'] = rng.choice([(1, 5), (1, None), (2, None), (0, None), (1, 4), (3, 6)])
                sub['repeat'] = True
                els = [q for q in sub['parts'] if 'el' in q]
                if els and rng.random() < 0.8:
                    sub['model'] = 'sequence'
                    els[0]['occurs'] = (1, 1)           # a single-occurrence head and optional followers
                    for q in els[1:]:
                        q['occurs'] = rng.choice([(0, 1), (0, 1), (0, 2)])
                    if len(els) == 1 and rng.random() < 0.8:
                        st['ctr'][0] += 1
                        q = {'el': rng.choice(['a', 'b', 'c', 'd', 'e', 'item', 'p']) + str(st['ctr'][0]),
                             'type': gen_type(rng, st, 0), 'occurs': (0, 1)}
                        names.append(q)
                        sub['parts'].append(q)
            parts.append(sub)
            continue
        # element particle; sometimes reuse a name already used in this content model (same type,
        # as Element Declarations Consistent demands) => non contiguous same-named children
        reuse = [p for p in names if p['type']['t'] == 'ref' or
                 (p['type']['t'] == 'simple' and p['type']['st']['k'] not in ('list', 'union'))]
        if reuse and model != 'all' and rng.random() < 0.12:
            src = rng.choice(reuse)
            el = dict(src)
            el['occurs'] = rng.choice([(1, 1), (0, 1), (0, 2)])
        else:
            st['ctr'][0] += 1
            el = {'el': rng.choice(['a', 'b', 'c', 'd', 'e', 'item', 'p']) + str(st['ctr'][0]),
                  'type': gen_type(rng, st, depth - 1)}
            el['occurs'] = gen_occurs(rng)
            names.append(el)
        if model == 'all':
            el['occurs'] = rng.choice([(1, 1), (0, 1)])
        parts.append(el)
    if model == 'sequence' and parts and parts[-1].get('repeat') and rng.random() < 0.7:
        # something after the repeated group, so that the run is handed back before the content ends
        st['ctr'][0] += 1
        el = {'el': rng.choice(['a', 'b', 'c', 'd', 'e', 'item', 'p']) + str(st['ctr'][0]),
              'type': gen_type(rng, st, 0), 'occurs': rng.choice([(1, 1), (1, 1), (0, 1), (1, 2)])}
        names.append(el)
        parts.append(el)
    occ = (1, 1)
    if model == 'choice' and rng.random() < 0.4:
        occ = rng.choice([(1, 3), (0, None), (1, 2)])
    return {'model': model, 'occurs': occ, 'parts': parts}


def gen_type(rng, st, depth) -> dict:
    r = rng.random()
    if depth <= 0 or r < 0.35:
        if r < 0.12 or (depth <= 0 and rng.random() < 0.3):
            return {'t': 'simpleContent', 'base': gen_simple(rng), 'attrs': gen_attrs(rng, st) or
                    [{'name': 'u', 'type': {'k': 'string'}, 'use': 'optional', 'qualified': False}]}
        return {'t': 'simple', 'st': gen_simple(rng)}
    if r < 0.42:
        return {'t': 'empty', 'attrs': gen_attrs(rng, st), 'mixed': rng.random() < 0.3}
    if r < 0.50 and st['named']:
        return {'t': 'ref', 'name': rng.choice(st['named'])}
    return {'t': 'complex', 'mixed': rng.random() < 0.3, 'attrs': gen_attrs(rng, st),
            'group': gen_group(rng, dict(st, top=True, nest=0), depth, [])}


def gen_schema(rng) -> dict:
    tns = rng.choice([TNS, TNS, None])
    st = {'tns': tns, 'ctr': [0], 'named': [], 'top': True, 'nest': 0}
    named = {}
    # one recursive named type and one plain named type
    if rng.random() < 0.5:
        st['named'].append('Rec')
    if rng.random() < 0.5:
        named['Plain'] = gen_type(rng, st, 1)
        while named['Plain']['t'] in ('ref', 'simple'):
            named['Plain'] = gen_type(rng, st, 1)
    if 'Rec' in st['named']:
        st['ctr'][0] += 1
        inner = {'el': 'r' + str(st['ctr'][0]), 'type': {'t': 'ref', 'name': 'Rec'}, 'occurs': rng.choice([(0, 1), (0, 2)])}
        st['ctr'][0] += 1
        leaf = {'el': 'v' + str(st['ctr'][0]), 'type': {'t': 'simple', 'st': gen_simple(rng)}, 'occurs': (1, 1)}
        named['Rec'] = {'t': 'complex', 'mixed': rng.random() < 0.3, 'attrs': gen_attrs(rng, st),
                        'group': {'model': 'sequence', 'occurs': (1, 1), 'parts': [leaf, inner]}}
    if 'Plain' in named:
        st['named'].append('Plain')
    root_type = gen_type(rng, st, 3)
    while root_type['t'] in ('simple', 'ref') and rng.random() < 0.9:
        root_type = gen_type(rng, st, 3)
    return {'tns': tns, 'qualified': rng.random() < 0.7 if tns else False, 'named': named,
            'root': {'el': 'root', 'type': root_type, 'occurs': (1, 1)}}


# ------------------------------------------------------------------------------------ XSD text

def xsd_simple(s: dict) -> str:
    if s['k'] == 'list':
        return f'<xs:simpleType><xs:list itemType="xs:{s["item"]}"/></xs:simpleType>'
    if s['k'] == 'union':
        return '<xs:simpleType><xs:union memberTypes="%s"/></xs:simpleType>' % ' '.join('xs:' + m for m in s['members'])
    return ''


def xsd_attrs(attrs: list) -> str:
    out = []
    for a in attrs:
        form = ' form="qualified"' if a['qualified'] else ''
        inner = xsd_simple(a['type'])
        if inner:
            out.append(f'<xs:attribute name="{a["name"]}" use="{a["use"]}"{form}>{inner}</xs:attribute>')
        else:
            out.append(f'<xs:attribute name="{a["name"]}" type="xs:{a["type"]["k"]}" use="{a["use"]}"{form}/>')
    return ''.join(out)


def occ_attrs(o) -> str:
    lo, hi = o
    s = ''
    if lo != 1:
        s += f' minOccurs="{lo}"'
    if hi != 1:
        s += ' maxOccurs="%s"' % ('unbounded' if hi is None else hi)
    return s


def xsd_group(g: dict, top=True) -> str:
    inner = ''.join(xsd_group(p, False) if 'model' in p else xsd_element(p) for p in g['parts'])
    return f'<xs:{g["model"]}{occ_attrs(g["occurs"])}>{inner}</xs:{g["model"]}>'


def xsd_type_body(t: dict) -> str:
    if t['t'] == 'simpleContent':
        b = t['base']
        if b['k'] in ('list', 'union'):
            # simple content over an anonymous list/union needs a named simple type
            return None  # handled by caller through named simple types
        return (f'<xs:complexType><xs:simpleContent><xs:extension base="xs:{b["k"]}">{xsd_attrs(t["attrs"])}'
                f'</xs:extension></xs:simpleContent></xs:complexType>')
    if t['t'] == 'empty':
        mixed = ' mixed="true"' if t['mixed'] else ''
        return f'<xs:complexType{mixed}>{xsd_attrs(t["attrs"])}</xs:complexType>'
    if t['t'] == 'complex':
        mixed = ' mixed="true"' if t['mixed'] else ''
        return f'<xs:complexType{mixed}>{xsd_group(t["group"])}{xsd_attrs(t["attrs"])}</xs:complexType>'
    raise ValueError(t)


def xsd_element(e: dict, is_global=False) -> str:
    t = e['type']
    occ = '' if is_global else occ_attrs(e['occurs'])
    if t['t'] == 'ref':
        return f'<xs:element name="{e["el"]}" type="t:{t["name"]}"{occ}/>'
    if t['t'] == 'simple':
        inner = xsd_simple(t['st'])
        if inner:
            return f'<xs:element name="{e["el"]}"{occ}>{inner}</xs:element>'
        return f'<xs:element name="{e["el"]}" type="xs:{t["st"]["k"]}"{occ}/>'
    if t['t'] == 'simpleContent' and t['base']['k'] in ('list', 'union'):
        name = 'L_' + '_'.join([t['base']['k']] + ([t['base']['item']] if t['base']['k'] == 'list' else t['base']['members']))
        return (f'<xs:element name="{e["el"]}"{occ}><xs:complexType><xs:simpleContent><xs:extension base="t:{name}">'
                f'{xsd_attrs(t["attrs"])}</xs:extension></xs:simpleContent></xs:complexType></xs:element>')
    return f'<xs:element name="{e["el"]}"{occ}>{xsd_type_body(t)}</xs:element>'


def xsd_text(s: dict) -> str:
    tns = s['tns']
    head = f'<xs:schema xmlns:xs="{XS}"'
    if tns:
        head += f' targetNamespace="{tns}" xmlns:t="{tns}"'
        if s['qualified']:
            head += ' elementFormDefault="qualified"'
    head += '>'
    body = []
    # named simple types for simple content over list/union
    for it in ['int', 'NMTOKEN', 'boolean', 'decimal']:
        body.append(f'<xs:simpleType name="L_list_{it}"><xs:list itemType="xs:{it}"/></xs:simpleType>')
    body.append('<xs:simpleType name="L_union_int_boolean"><xs:union memberTypes="xs:int xs:boolean"/></xs:simpleType>')
    for name, t in s['named'].items():
        tb = xsd_type_body(t) if not (t['t'] == 'simpleContent' and t['base']['k'] in ('list', 'union')) else None
        if tb is None:
            b = t['base']
            ln = 'L_' + '_'.join([b['k']] + ([b['item']] if b['k'] == 'list' else b['members']))
            tb = (f'<xs:complexType><xs:simpleContent><xs:extension base="t:{ln}">{xsd_attrs(t["attrs"])}'
                  f'</xs:extension></xs:simpleContent></xs:complexType>')
        body.append(tb.replace('<xs:complexType', f'<xs:complexType name="{name}"', 1))
    body.append(xsd_element(s['root'], True))
    text = head + ''.join(body) + '</xs:schema>'
    if not tns:
        text = text.replace('"t:', '"')
    return text


# ------------------------------------------------------------------------------------ instances

def gen_value(rng, s: dict, attr=False) -> str:
    k = s['k']
    if k == 'list':
        n = rng.choice([0, 1, 2, 3]) if not attr else rng.choice([1, 2, 3])
        return ' '.join(gen_value(rng, {'k': s['item']}) for _ in range(n))
    if k == 'union':
        return gen_value(rng, {'k': rng.choice(s['members'])})
    if k == 'int':
        return rng.choice(['0', '1', '-7', '42', '+5', '007', '2147483647', str(rng.randrange(-1000, 1000))])
    if k == 'decimal':
        return rng.choice(['1.50', '0', '-0.0', '+3.14', '10', '.5', '1e0'[:1], str(rng.randrange(0, 10 ** 6) / 100)])
    if k == 'boolean':
        return rng.choice(['true', 'false', '1', '0'])
    if k == 'double':
        return rng.choice(['1.5', '1.0E3', '-0', 'INF', '-INF', '2', '1e-3', '3.0e2'])
    if k == 'date':
        return rng.choice(['2020-01-02', '1999-12-31Z', '2001-10-26+02:00'])
    if k == 'token':
        return rng.choice(['tok', 'two words', 'a b c'])
    if k == 'NMTOKEN':
        return rng.choice(WORDS)
    if k == 'string':
        return rng.choice(['', 'hello', 'two words', ' lead', 'trail ', 'x<y&z', '{notaqname', '12', 'true'])
    raise ValueError(k)


CDATA = ['text', 'more text', 'x', 'tail1', '42', 'a & b']


class InstGen:
    def __init__(self, rng, schema: dict, pfx: Optional[str], redeclare: bool):
        self.rng = rng
        self.s = schema
        self.pfx = pfx            # prefix of the target namespace (None: default namespace)
        self.redeclare = redeclare
        self.budget = 60
        self.stats: dict = {}

    def qname(self, local: str, top=False) -> str:
        if self.s['tns'] and (top or self.s['qualified']):
            return '{%s}%s' % (self.s['tns'], local)
        return local

    def resolve(self, t: dict) -> dict:
        return self.s['named'][t['name']] if t['t'] == 'ref' else t

    def element(self, e: dict, depth: int, top=False) -> ET.Element:
        rng = self.rng
        self.budget -= 1
        t = self.resolve(e['type'])
        el = ET.Element(self.qname(e['el'], top))
        for a in t.get('attrs', []):
            if a['use'] == 'required' or rng.random() < 0.6:
                name = '{%s}%s' % (self.s['tns'], a['name']) if a['qualified'] else a['name']
                el.set(name, gen_value(rng, a['type'], attr=True))
        if t['t'] == 'simple':
            el.text = gen_value(rng, t['st'])
        elif t['t'] == 'simpleContent':
            el.text = gen_value(rng, t['base'])
        elif t['t'] == 'empty':
            if t['mixed'] and rng.random() < 0.5:
                el.text = rng.choice(CDATA)
        else:
            kids: list = []
            self.group(t['group'], kids, depth)
            for k in kids:
                el.append(k)
            if t['mixed']:
                if rng.random() < 0.6:
                    el.text = rng.choice(CDATA)
                for k in kids:
                    if rng.random() < 0.4:
                        k.tail = rng.choice(CDATA)
        if not el.text:
            el.text = None
        return el

    def group(self, g: dict, out: list, depth: int, nested: bool = False) -> None:
        rng = self.rng
        lo, hi = g['occurs']
        n = self.count(lo, hi, depth, 4 if nested else 2)
        if g.get('repeat') and n < 3 and self.budget > 0 and depth <= 5 and rng.random() < 0.5:
            n = min(rng.randint(3, 5), hi if hi is not None else 5)
            n = max(n, lo)
        # many occurrences of a nested group: often all of them without the optional members, which gives a run
        # of >= 3 same-named siblings, one per occurrence of the group
        lean = nested and n >= 3 and rng.random() < 0.75
        if nested and n >= 3:
            self.stats['group-occurrences>=3'] = self.stats.get('group-occurrences>=3', 0) + 1
            if lean:
                self.stats['group-occurrences>=3, optional members left out'] = \
                    self.stats.get('group-occurrences>=3, optional members left out', 0) + 1
        for _ in range(n):
            parts = g['parts']
            if g['model'] == 'choice':
                if not parts:
                    continue
                parts = [rng.choice(parts)]
            elif g['model'] == 'all':
                parts = list(parts)
                rng.shuffle(parts)
            for p in parts:
                if 'model' in p:
                    self.group(p, out, depth, True)
                else:
                    plo, phi = p['occurs']
                    k = self.count(plo, phi, depth)
                    if lean and plo == 0:
                        k = 0
                    for _ in range(k):
                        out.append(self.element(p, depth + 1))

    def count(self, lo, hi, depth, span: int = 2) -> int:
        if self.budget <= 0 or depth > 5:
            return lo if depth <= 9 else min(lo, 1) if lo else 0
        top = lo + span if hi is None else min(hi, lo + span)
        return self.rng.randint(lo, top)


def gen_instance(rng, schema: dict) -> tuple[str, ET.Element]:
    """returns (xml text, element tree); namespace declarations are written by hand at the root
    (and sometimes repeated on inner elements) so that the prefix choice is under control."""
    tns = schema['tns']
    pfx = rng.choice(['t', 'p', None]) if tns else None
    if tns and not schema['qualified'] and pfx is None:
        pfx = 't'   # unqualified locals under a default namespace would be invalid
    g = InstGen(rng, schema, pfx, rng.random() < 0.15)
    root = g.element(schema['root'], 0, top=True)
    text = serialize(root, tns, pfx, g.redeclare, rng)
    LAST_STATS.clear()
    LAST_STATS.update(g.stats)
    return text, root


LAST_STATS: dict = {}       # shape statistics of the instance that `gen_instance` returned last


def esc(s: str, attr=False) -> str:
    s = s.replace('&', '&amp;').replace('<', '&lt;').replace('>', '&gt;')
    return s.replace('"', '&quot;') if attr else s


def serialize(el: ET.Element, tns, pfx, redeclare=False, rng=None, top=True) -> str:
    foreign = []

    def q(name):
        if name[0] == '{':
            ns, loc = name[1:].split('}')
            if ns != tns:
                foreign.append(ns)
                return f'o{len(foreign)}:{loc}'
            return f'{pfx}:{loc}' if pfx else loc
        return name

    def aq(name):
        if name[0] == '{':
            ns, loc = name[1:].split('}')
            if ns != tns:
                foreign.append(ns)
                return f'o{len(foreign)}:{loc}'
            return f'{pfx or "ta"}:{loc}'
        return name
    parts = ['<' + q(el.tag)]
    attr_parts = [f' {aq(k)}="{esc(v, True)}"' for k, v in el.attrib.items()]
    for i, ns in enumerate(foreign):
        parts.append(f' xmlns:o{i + 1}="{ns}"')
    if top and tns:
        parts.append(f' xmlns:{pfx}="{tns}"' if pfx else f' xmlns="{tns}"')
        if not pfx:
            parts.append(f' xmlns:ta="{tns}"')
    elif redeclare and tns and pfx and rng is not None and rng.random() < 0.3:
        parts.append(f' xmlns:{pfx}="{tns}"')
    parts.extend(attr_parts)
    if el.text is None and len(el) == 0:
        parts.append('/>')
    else:
        parts.append('>')
        if el.text:
            parts.append(esc(el.text))
        for c in el:
            parts.append(serialize(c, tns, pfx, redeclare, rng, False))
            if c.tail:
                parts.append(esc(c.tail))
        parts.append(f'</{q(el.tag)}>')
    return ''.join(parts)


# ------------------------------------------------------------------------------------ nested namespace declarations

FOREIGN_NS = ['urn:x', 'urn:y']
NS_PREFIXES = ['t', 'p', 'q', 'n1']
NS_ACTIONS = ['default-off', 'default-tns', 'default-foreign', 'new-prefix', 'rebind-prefix', 'unrelated']


def serialize_nested(rng, root: ET.Element, tns, pfx, rate: float = 0.45) -> tuple[str, dict]:
    """Validity-preserving re-serialisation of a generated instance: the same expanded names, attribute values
    and character data, but non-root elements carry random namespace (re)declarations at any depth
        default-off      xmlns=""                     (the default namespace is un-declared)
        default-tns      xmlns="<target namespace>"   (bound, or re-bound after an un-declaration)
        default-foreign  xmlns="urn:x"                (re-bound to a namespace that no name uses)
        new-prefix       xmlns:q="<target namespace>" (one more prefix for the target namespace)
        rebind-prefix    an in-scope prefix of the target namespace re-bound to a foreign one, or back
        unrelated        xmlns:q="urn:x"              (possibly shadowing / re-binding an unrelated prefix)
    and every element / qualified attribute name is written with a randomly chosen in-scope prefix that denotes
    its namespace; the declarations needed to keep a name expressible are added (xmlns="" for a no-namespace
    element under a bound default namespace, a prefix for the target namespace when none is left in scope).
    The root start tag is the one `serialize` writes.  Returns (text, shape statistics of the declarations)."""
    stats = {'decl-elements': 0, 'max-decl-depth': 0, 'actions': set(), 'rebind': 0, 'multi-pop': 0,
             'multi-pop-rebind-then-later': 0}
    order: list = []          # document order: (level, has declarations, re-binds something in scope)

    def split(name):
        if name[0] == '{':
            ns, loc = name[1:].split('}')
            return ns, loc
        return '', name

    def pick_prefix(scope, decl, ns, attr):
        cur = dict(scope, **decl)
        cands = [p for p, u in cur.items() if u == ns and (p or not attr)]
        if not cands:
            free = [p for p in NS_PREFIXES if p not in decl]
            p = rng.choice(free)
            decl[p] = ns
            stats['actions'].add('forced-prefix')
            return p
        return rng.choice(cands)

    def emit(e, scope, level, ndecl, force=False):
        top = level == 0
        decl: dict = {}
        if top:
            if tns:
                if pfx:
                    decl[pfx] = tns
                else:
                    decl[''] = tns
                    decl['ta'] = tns
        elif force or rng.random() < rate:
            acts = [a for a in NS_ACTIONS if tns or a in ('default-off', 'unrelated')]
            for _ in range(rng.choice([1, 1, 2])):
                act = rng.choice(acts)
                if act == 'default-off':
                    decl[''] = ''
                elif act == 'default-tns':
                    decl[''] = tns
                elif act == 'default-foreign':
                    decl[''] = rng.choice(FOREIGN_NS)
                elif act == 'new-prefix':
                    decl[rng.choice(NS_PREFIXES)] = tns
                elif act == 'rebind-prefix':
                    ps = [p for p in scope if p and p != 'xml']
                    if not ps:
                        continue
                    p = rng.choice(ps)
                    decl[p] = rng.choice(FOREIGN_NS) if scope[p] == tns else (tns or rng.choice(FOREIGN_NS))
                else:
                    decl[rng.choice(['q', 'n1', 'o'])] = rng.choice(FOREIGN_NS)
                stats['actions'].add(act)
        ns, loc = split(e.tag)
        if top:
            tag = f'{pfx}:{loc}' if ns and pfx else loc
        elif not ns:
            if dict(scope, **decl).get('', ''):
                decl[''] = ''
                stats['actions'].add('forced-default-off')
            tag = loc
        else:
            p = pick_prefix(scope, decl, ns, False)
            tag = f'{p}:{loc}' if p else loc
        attrs = []
        for k, v in e.attrib.items():
            ans, aloc = split(k)
            if ans:
                p = (pfx or 'ta') if top else pick_prefix(scope, decl, ans, True)
                attrs.append(f' {p}:{aloc}="{esc(v, True)}"')
            else:
                attrs.append(f' {aloc}="{esc(v, True)}"')
        # a declaration that changes what an in-scope prefix (or the default namespace) denotes
        rebinds = any(scope.get(p, '' if p == '' else None) not in (None, u) for p, u in decl.items())
        if decl and not top:
            stats['decl-elements'] += 1
            stats['max-decl-depth'] = max(stats['max-decl-depth'], ndecl + 1)
            if rebinds:
                stats['rebind'] += 1
        order.append((level, bool(decl) and not top, rebinds and not top))
        parts = ['<' + tag]
        parts.extend(f' xmlns:{p}="{u}"' if p else f' xmlns="{u}"' for p, u in decl.items())
        parts.extend(attrs)
        inner = dict(scope, **decl)
        if e.text is None and len(e) == 0:
            parts.append('/>')
        else:
            parts.append('>')
            if e.text:
                parts.append(esc(e.text))
            for i, c in enumerate(e):
                # stack discipline: below an element that re-binds something, often let the last child declare
                # too, so that the next element outside leaves both declaring elements in one step
                below = rebinds and not top and i == len(e) - 1 and rng.random() < 0.6
                parts.append(emit(c, inner, level + 1, ndecl + (1 if decl and not top else 0), below))
                if c.tail:
                    parts.append(esc(c.tail))
            parts.append(f'</{tag}>')
        return ''.join(parts)

    text = emit(root, {}, 0, 0)
    # the stack of declaration contexts as a pre-order walk sees it (namespaces.py set_xmlns_context): how often
    # does one step leave two or more declaring elements at once, and is the outermost of them a re-binding one
    stack: list = []
    for i, (level, has, reb) in enumerate(order):
        popped = []
        while stack and stack[-1][0] >= level:
            popped.append(stack.pop())
        if len(popped) >= 2:
            stats['multi-pop'] += 1
            if popped[-1][1]:
                stats['multi-pop-rebind-then-later'] += 1
        if has:
            stack.append((level, reb))
    stats['actions'] = sorted(stats['actions'])
    return text, stats


def ns_walk(xml: str) -> list:
    """elements of a document in document order: {'level', 'tag' (expanded), 'decl' [(prefix, uri)…] written on
    the element, 'scope' {prefix: uri} in force before its own declarations, 'parent' index or None}"""
    import io
    out: list = []
    pending: list = []
    scopes: list = [{}]
    open_: list = []
    for ev, x in ET.iterparse(io.BytesIO(xml.encode()), events=('start-ns', 'start', 'end')):
        if ev == 'start-ns':
            pending.append((x[0] or '', x[1]))
        elif ev == 'start':
            out.append({'level': len(open_), 'tag': x.tag, 'decl': pending, 'scope': scopes[-1],
                        'parent': open_[-1] if open_ else None})
            open_.append(len(out) - 1)
            scopes.append(dict(scopes[-1], **dict(pending)))
            pending = []
        else:
            open_.pop()
            scopes.pop()
    return out


def keys_stable(xml: str) -> bool:
    """The collapsing conventions name a child by its prefixed name *in the child's own namespace context*
    (groups.py:1008-1009), so two same-named siblings become two different dictionary keys ('p:a', 'q:a') when one
    of them re-declares a prefix of / for its own namespace — the relative order of the members of different
    keys is then lost exactly as for non-contiguous names.  True when no member of a group of >= 2 same-named
    (namespaced) siblings carries a declaration that binds its namespace or re-binds a prefix that denotes it."""
    nodes = ns_walk(xml)
    groups: dict = {}
    for i, n in enumerate(nodes):
        if n['parent'] is not None and n['tag'][0] == '{':
            groups.setdefault((n['parent'], n['tag']), []).append(n)
    for (_, tag), members in groups.items():
        if len(members) < 2:
            continue
        ns = tag[1:].split('}')[0]
        for n in members:
            if any(u == ns or n['scope'].get(p) == ns for p, u in n['decl']):
                return False
    return True


def contiguous(el: ET.Element) -> bool:
    """same-named children are adjacent, in every element of the tree"""
    for e in el.iter():
        seen = set()
        prev = None
        for c in e:
            if c.tag != prev:
                if c.tag in seen:
                    return False
                seen.add(c.tag)
                prev = c.tag
    return True


def has_mixed_text(el: ET.Element) -> bool:
    for e in el.iter():
        if len(e) and ((e.text and e.text.strip()) or any(c.tail and c.tail.strip() for c in e)):
            return True
    return False


# ------------------------------------------------------------------------------------ canonical data

def canon(v: Any) -> Any:
    """Python data -> the driver's JSON rendering of `J`"""
    from xmlschema.dataobjects import DataElement
    from collections.abc import MutableMapping, MutableSequence
    if v is None:
        return None
    if isinstance(v, DataElement):
        return {'e': {'tag': v.tag, 'value': canon(v.value), 'attrib': [[k, canon(x)] for k, x in v.attrib.items()],
                      'kids': [canon(c) for c in v], 'tail': canon(v.tail),
                      'xmlns': [list(p) for p in (v.xmlns or [])]}}
    if isinstance(v, MutableMapping):
        return {'d': [[k if isinstance(k, str) else repr(k), canon(x)] for k, x in v.items()]}
    if isinstance(v, (MutableSequence, tuple)):
        return {'l': [canon(x) for x in v]}
    if isinstance(v, str):
        return {'a': ['s', v]}
    if isinstance(v, bool):
        return {'a': ['b', 'true' if v else 'false']}
    if isinstance(v, int):
        return {'a': ['i', str(v)]}
    if isinstance(v, Decimal):
        return {'a': ['d', str(v)]}
    if isinstance(v, float):
        return {'a': ['f', repr(v)]}
    return {'a': [type(v).__name__, str(v)]}


def values_equal(a: Any, b: Any) -> bool:
    """typed equality of two canonical data (Decimal('1.50') == Decimal('1.5'), NaN == NaN)"""
    if isinstance(a, dict) and isinstance(b, dict) and 'a' in a and 'a' in b:
        (ka, sa), (kb, sb) = a['a'], b['a']
        if ka != kb:
            return False
        if ka == 'd':
            return Decimal(sa) == Decimal(sb)
        if ka == 'f':
            fa, fb = float(sa), float(sb)
            return (math.isnan(fa) and math.isnan(fb)) or fa == fb
        return sa == sb
    if isinstance(a, dict) and isinstance(b, dict):
        if a.keys() != b.keys():
            return False
        return all(values_equal(a[k], b[k]) for k in a)
    if isinstance(a, list) and isinstance(b, list):
        return len(a) == len(b) and all(values_equal(x, y) for x, y in zip(a, b))
    return a == b


def first_diff(a: Any, b: Any, path: str = '') -> Optional[str]:
    """path of the first difference between two canonical values (typed comparison)"""
    if values_equal(a, b):
        return None
    if isinstance(a, dict) and isinstance(b, dict) and a.keys() == b.keys() and 'a' not in a:
        for k in a:
            d = first_diff(a[k], b[k], path + '/' + k)
            if d:
                return d
    if isinstance(a, list) and isinstance(b, list) and len(a) == len(b):
        for i, (x, y) in enumerate(zip(a, b)):
            d = first_diff(x, y, path + '/' + (x[0] if isinstance(x, list) and x and isinstance(x[0], str) else str(i)))
            if d:
                return d
    return '%s: %s != %s' % (path, json_short(a), json_short(b))


def json_short(v: Any) -> str:
    import json
    return json.dumps(v, default=str)[:300]


def uncanon(c: Any) -> Any:
    """inverse of `canon` (used by replay)"""
    from xmlschema.dataobjects import DataElement
    if c is None:
        return None
    if 'a' in c:
        k, v = c['a']
        if k == 's':
            return v
        if k == 'i':
            return int(v)
        if k == 'b':
            return v == 'true'
        if k == 'd':
            return Decimal(v)
        if k == 'f':
            return float(v)
        return v
    if 'l' in c:
        return [uncanon(x) for x in c['l']]
    if 'd' in c:
        return {k: uncanon(v) for k, v in c['d']}
    if 'e' in c:
        e = c['e']
        de = DataElement(e['tag'], uncanon(e['value']), {k: uncanon(v) for k, v in e['attrib']},
                         xmlns=[tuple(p) for p in e['xmlns']] or None)
        for k in e['kids']:
            de._children.append(uncanon(k))     # not `.append`: a mutated child may be something else
        t = uncanon(e['tail'])
        if t is not None:
            de.tail = t
        return de
    return c
