"""
C15 helpers on top of harness/lib_cm.py (which is not edited):

  * two more leaf forms for the generator-level AST
        ('l', name, lo, hi, type)   local element declaration  <xs:element name=… type="xs:…"/>
        ('a', spec, lo, hi)         with more wildcard specs (see WC_SPECS)
    and a transitive substitution-group member `s2` (substitutionGroup = s, whose head is h),
  * rendering, families for Element Declarations Consistent,
  * introspection of a *built* group into the request the Lean driver `drv_c15` reads
    (particle tree + what `is_overlap` / `is_consistent` read from every element + type table),
  * recording of the real `distinguishable_paths` calls made by `check_model` during the build,
  * an independent determinism reference: Glushkov position automaton of the model with occurrence
    ranges unrolled (no derivatives), conflicts judged on particle marks.
"""
from __future__ import annotations

import contextlib
import itertools
from typing import Any, Iterator, Optional

from harness import lib_cm as cm

TNS, ONS = cm.TNS, cm.ONS
PNS = 'urn:p'
XSD = 'http://www.w3.org/2001/XMLSchema'
# own schema head (lib_cm.HEAD belongs to C01 and may change): h is the head of {s, q (abstract), d (member of
# q), s2 (member of s)}
# the global element declarations of the schema head: (name, type, substitutionGroup, abstract)
GLOBALS = [('a', 'string', None, False), ('b', 'string', None, False), ('c', 'string', None, False),
           ('h', 'string', None, False), ('s', 'string', 'h', False), ('q', 'string', 'h', True),
           ('d', 'string', 'q', False), ('s2', 'string', 's', False),
           # a substitution group whose members have OTHER types than the head (derived, as the XSD requires): head
           # hd, member md, member of the member md2
           ('hd', 'decimal', None, False), ('md', 'integer', 'hd', False), ('md2', 'int', 'md', False)]
MEMBERS = {'h': ['s', 'q'], 's': ['s2'], 'q': ['d'], 'hd': ['md'], 'md': ['md2']}
# block dimension: name -> (blockDefault of the schema or None, {global element: its block attribute}).  The
# configurations are those in which the implementation's registration of substitution members (per head, by the
# head's own {disallowed substitutions}) and the specification's substitution group coincide.
_ALL_HEADS = ('h', 's', 'q', 'hd', 'md')
BLOCK_CFGS = {
    'bd=substitution': ('substitution', {}),
    'bd=substitution,heads=""': ('substitution', {k: '' for k in _ALL_HEADS}),
    'bd=#all,heads=""': ('#all', {k: '' for k in _ALL_HEADS}),
    'h,hd=substitution': (None, {'h': 'substitution', 'hd': 'substitution'}),
    'heads=""': (None, {k: '' for k in _ALL_HEADS}),
    'bd=substitution,s,md=""': ('substitution', {'s': '', 'md': ''}),
}


def _make_head(bd: Optional[str], blocks: dict) -> str:
    out = (f'<xs:schema xmlns:xs="{XSD}" targetNamespace="{TNS}" xmlns:t="{TNS}" elementFormDefault="qualified"'
           + (f' blockDefault="{bd}"' if bd is not None else '') + '>\n')
    for name, typ, sg, abstract in GLOBALS:
        out += (f'<xs:element name="{name}" type="xs:{typ}"' + (f' substitutionGroup="t:{sg}"' if sg else '')
                + (' abstract="true"' if abstract else '') + (f' block="{blocks[name]}"' if name in blocks else '') + '/>')
    return out + '\n'


def _make_subst(bd: Optional[str], blocks: dict) -> dict:
    """generator-level substitution closure = the names an element *reference* matches by name (the abstract member
    q is not listed): a head whose effective block (its own attribute, else blockDefault) contains `substitution`
    (or is #all) has no substitution group"""
    def blocked(x: str) -> bool:
        eff = blocks[x] if x in blocks else (bd or '')
        return eff == '#all' or 'substitution' in eff.split()

    def members(x: str) -> list:
        if blocked(x):
            return []
        out = []
        for m in MEMBERS.get(x, []):
            if m != 'q':
                out.append(m)
            out.extend(members(m))
        return out
    return {x: [x] + members(x) for x in MEMBERS if x != 'q' and members(x)}


HEAD = _make_head(None, {})
# type of every global element declaration of HEAD
GLOBAL_TYPE = {'a': 'string', 'b': 'string', 'c': 'string', 'h': 'string', 's': 'string', 'q': 'string', 'd': 'string',
               's2': 'string', 'hd': 'decimal', 'md': 'integer', 'md2': 'int'}

# generator-level substitution closure = the names an element *reference* matches by name (the abstract member q
# is matched by name too: the abstract check comes after attribution)
SUBST = _make_subst(None, {})
assert SUBST == {'h': ['h', 's', 's2', 'd'], 's': ['s', 's2'], 'hd': ['hd', 'md', 'md2'], 'md': ['md', 'md2']}
BLOCK_CFG: Optional[str] = None


def set_block_cfg(name: Optional[str]) -> None:
    """selects the block configuration of the schema head for the models built and judged from now on"""
    global HEAD, SUBST, BLOCK_CFG
    bd, blocks = BLOCK_CFGS[name] if name else (None, {})
    HEAD, SUBST, BLOCK_CFG = _make_head(bd, blocks), _make_subst(bd, blocks), name


def block_models() -> list[tuple]:
    """every ordered pair of references into the two substitution groups in the shapes where a head competes with a
    member: choice(x, y), sequence(x?, y), sequence(x, y), sequence(x, b, y?)"""
    pool = ['h', 's', 's2', 'd', 'hd', 'md', 'md2']
    out = []
    for x in pool:
        for y in pool:
            out.append(('g', 'choice', 1, 1, [('e', x, 1, 1), ('e', y, 1, 1)]))
            out.append(('g', 'sequence', 1, 1, [('e', x, 0, 1), ('e', y, 1, 1)]))
            out.append(('g', 'sequence', 1, 1, [('e', x, 1, 1), ('e', y, 1, 1)]))
            out.append(('g', 'sequence', 1, 1, [('e', x, 1, 1), ('e', 'b', 1, 1), ('e', y, 0, 1)]))
    return out

# wildcard specs -> (xsd attributes, needs 1.1)
WC_SPECS = {
    '##other': ('namespace="##other"', False),
    '##any': ('namespace="##any"', False),
    'urn:o': ('namespace="urn:o"', False),
    'urn:t': ('namespace="urn:t"', False),
    '##local': ('namespace="##local"', False),
    'urn:t urn:o': ('namespace="##targetNamespace urn:o"', False),
    '!ns:urn:t': ('notNamespace="urn:t"', True),
    '!ns:urn:o': ('notNamespace="urn:o ##local"', True),
    '!q:a': ('namespace="##any" notQName="t:a"', True),
    '!q:a,s': ('namespace="##targetNamespace" notQName="t:a t:s"', True),
    # XSD 1.1 tokens: every global element name / every name an element particle of the same model matches
    '!q:##defined': ('namespace="##any" notQName="##defined"', True),
    '!q:##definedSibling': ('namespace="##targetNamespace" notQName="##definedSibling"', True),
    '!q:##defined,sib': ('namespace="##any" notQName="##defined ##definedSibling t:zz"', True),
}
TOKEN_SPECS = ['!q:##defined', '!q:##definedSibling', '!q:##defined,sib']

# the symbol universe of the reference: (namespace, local); one representative per region
FRESH = [(TNS, 'zz'), (ONS, 'z'), (PNS, 'z'), ('', 'z')]
ELEM_NAMES = ['a', 'b', 'c', 'h', 's', 's2', 'd', 'q', 'hd', 'md', 'md2']
UNIVERSE = [(TNS, n) for n in ELEM_NAMES] + FRESH


# names matched by the element particles of the model under consideration (for ##definedSibling); set by
# the functions that take a whole model (`set_sibs`)
_SIBS: set = set()


def sib_names(ast: tuple) -> set:
    out = set()
    for l in leaves(ast):
        if l[0] == 'l':
            out.add(l[1])
        elif l[0] == 'e':
            out.update(SUBST.get(l[1], [l[1]]))
    return out


def set_sibs(ast: tuple) -> None:
    global _SIBS
    _SIBS = sib_names(ast)


def wc_matches(spec: str, sym: tuple[str, str]) -> bool:
    ns, loc = sym
    if spec == '!q:##defined':
        return not (ns == TNS and loc in ELEM_NAMES)
    if spec == '!q:##definedSibling':
        return ns == TNS and loc not in _SIBS
    if spec == '!q:##defined,sib':
        return not (ns == TNS and loc in ELEM_NAMES) and not (ns == TNS and loc in _SIBS) and sym != (TNS, 'zz')
    if spec == '##any':
        return True
    if spec == '##other':
        return ns not in ('', TNS)
    if spec == '##local':
        return ns == ''
    if spec == '!ns:urn:t':
        return ns != TNS
    if spec == '!ns:urn:o':
        return ns not in (ONS, '')
    if spec == '!q:a':
        return sym != (TNS, 'a')
    if spec == '!q:a,s':
        return ns == TNS and sym not in ((TNS, 'a'), (TNS, 's'))
    return ns in spec.split()


def leaf_matches(leaf: tuple, sym: tuple[str, str]) -> bool:
    if leaf[0] == 'a':
        return wc_matches(leaf[1], sym)
    if sym[0] != TNS:
        return False
    if leaf[0] == 'l':
        return sym[1] == leaf[1]
    return sym[1] in SUBST.get(leaf[1], [leaf[1]])


def to_xsd(ast: tuple, defs: Optional[dict] = None) -> str:
    """A group marked ('g', kind, lo, hi, items, 'ref') is rendered as a reference to a named model group;
    `defs` maps the rendered content of a named group to its name, so that equal referenced groups share
    ONE definition (and the built particles of its content are then shared Python objects)."""
    t = ast[0]
    if t == 'e':
        return f'<xs:element ref="t:{ast[1]}"{cm.occ_attrs(ast[2], ast[3])}/>'
    if t == 'l':
        return f'<xs:element name="{ast[1]}" type="xs:{ast[4]}"{cm.occ_attrs(ast[2], ast[3])}/>'
    if t == 'a':
        return f'<xs:any {WC_SPECS[ast[1]][0]} processContents="lax"{cm.occ_attrs(ast[2], ast[3])}/>'
    inner = f'<xs:{ast[1]}>' + ''.join(to_xsd(i, defs) for i in ast[4]) + f'</xs:{ast[1]}>'
    if len(ast) > 5 and ast[5] == 'ref' and defs is not None:
        name = defs.setdefault(inner, f'G{len(defs)}')
        return f'<xs:group ref="t:{name}"{cm.occ_attrs(ast[2], ast[3])}/>'
    return (f'<xs:{ast[1]}{cm.occ_attrs(ast[2], ast[3])}>' + ''.join(to_xsd(i, defs) for i in ast[4]) + f'</xs:{ast[1]}>')


def with_refs(rng, ast: tuple, p: float = 0.5, top: bool = True) -> tuple:
    """marks some nested sequence/choice groups as references to named model groups"""
    if ast[0] != 'g':
        return ast
    items = [with_refs(rng, i, p, False) for i in ast[4]]
    if not top and ast[1] != 'all' and rng.random() < p:
        return ('g', ast[1], ast[2], ast[3], items, 'ref')
    return ('g', ast[1], ast[2], ast[3], items)


def has_refs(ast: tuple) -> bool:
    return ast[0] == 'g' and (len(ast) > 5 or any(has_refs(i) for i in ast[4]))


def show(ast: tuple) -> str:
    if ast[0] == 'l':
        return cm.show(('e', f'{ast[1]}:{ast[4]}', ast[2], ast[3]))
    if ast[0] == 'g':
        sep = {'sequence': ',', 'choice': '|', 'all': '&'}[ast[1]]
        inner = ('@' if len(ast) > 5 else '') + '(' + sep.join(show(i) for i in ast[4]) + ')'
        return inner + cm.show(('e', '', ast[2], ast[3]))
    return cm.show(ast)


def leaves(ast: tuple) -> list[tuple]:
    if ast[0] != 'g':
        return [ast]
    return [x for i in ast[4] for x in leaves(i)]


def needs11(ast: tuple) -> bool:
    return any(l[0] == 'a' and WC_SPECS[l[1]][1] for l in leaves(ast))


def build_schema(models: list[tuple], v11: bool, validation: str = 'lax'):
    import xmlschema
    cls = xmlschema.XMLSchema11 if v11 else xmlschema.XMLSchema10
    body = []
    groups: list[str] = []
    for k, m in enumerate(models):
        defs: dict[str, str] = {}
        oc = ''
        if m[0] == 'oc':        # ('oc', mode, wildcard spec, model): XSD 1.1 open content around the model
            oc = (f'<xs:openContent mode="{m[1]}"><xs:any {WC_SPECS[m[2]][0]} processContents="lax"/>'
                  '</xs:openContent>')
            m = m[3]
        xsd = oc + to_xsd(m, defs)
        for inner, name in defs.items():     # named groups are per model: G0_k, G1_k, …
            xsd = xsd.replace(f'ref="t:{name}"', f'ref="t:{name}_{k}"')
        for inner, name in defs.items():
            fixed = inner
            for name2 in defs.values():
                fixed = fixed.replace(f'ref="t:{name2}"', f'ref="t:{name2}_{k}"')
            groups.append(f'<xs:group name="{name}_{k}">{fixed}</xs:group>')
        body.append(f'<xs:element name="m{k}"><xs:complexType>{xsd}</xs:complexType></xs:element>')
    return cls(HEAD + '\n'.join(groups + body) + '</xs:schema>', validation=validation)


# ---------------------------------------------------------------------------------------------
# families

def random_model(rng, v11: bool, max_depth: int = 3, max_items: int = 3) -> tuple:
    """lib_cm.random_model, then some leaves replaced by the C15-specific forms"""
    m = cm.random_model(rng, ['a', 'b', 'c', 'h', 's'], max_depth=max_depth, max_items=max_items, v11=v11,
                        any_p=0.15)
    specs = [s for s, (_, need) in WC_SPECS.items() if v11 or not need]

    def rewrite(a: tuple, in_all: bool) -> tuple:
        if a[0] == 'g':
            return ('g', a[1], a[2], a[3], [rewrite(i, a[1] == 'all') for i in a[4]])
        r = rng.random()
        if a[0] == 'a':
            return ('a', rng.choice(specs), a[2], a[3]) if r < 0.6 else a
        if r < 0.08:
            return ('l', rng.choice([a[1], a[1], 'md', 'md2', 'hd']), a[2], a[3], rng.choice(['string', 'int', 'integer', 'decimal']))
        if r < 0.12 and not in_all:
            return ('e', rng.choice(['s2', 'd', 'hd', 'md']), a[2], a[3])
        return a
    return rewrite(m, False)


OCC_CORE = [(1, 1), (0, 1), (0, None), (1, 2)]


def exh2_core() -> list[tuple]:
    """the complete family: 1..2 leaves over {a,b}, sequence/choice, nesting ≤ 2, occurrences from OCC_CORE"""
    return list(cm.exhaustive_models(2, ['a', 'b'], occs=OCC_CORE, depth=2))


def small_random(rng, nleaves: int, names: list[str], occs: list, depth: int = 2, any_p: float = 0.0) -> tuple:
    """a random member of lib_cm.exhaustive_models' family with exactly `nleaves` leaves (drawn by random
    descent, so that the multi-million 3-leaf family needs not be enumerated)"""
    def leaf() -> tuple:
        lo, hi = rng.choice(occs)
        if rng.random() < any_p:
            return ('a', '##other', lo, hi)
        return ('e', rng.choice(names), lo, hi)

    def group(n: int, d: int) -> tuple:
        lo, hi = rng.choice(occs)
        return ('g', rng.choice(['sequence', 'choice']), lo, hi, items(n, d))

    def items(n: int, d: int) -> list:
        out = []
        while n > 0:
            first = rng.randint(1, n)
            out.append(item(first, d))
            n -= first
        return out

    def item(n: int, d: int) -> tuple:
        if n == 1 and (d <= 1 or rng.random() < 0.6):
            return leaf()
        if d <= 1:
            raise ValueError
        return group(n, d - 1)

    while True:
        try:
            return group(nleaves, depth)
        except ValueError:
            continue


def flat_choices() -> list[tuple]:
    """the fragment of theorem checkModel_refines_partial: a choice of 1..3 references to the plain global
    elements a, b, c with every occurrence range of lib_cm.OCC_SMALL; the root has every occurrence range
    other than {0,0} for ≤ 2 members and {1,1} for 3 members (12 033 models)"""
    opts = [('e', n, lo, hi) for n in ('a', 'b', 'c') for lo, hi in cm.OCC_SMALL]
    out = []
    for k in (1, 2, 3):
        for items in itertools.product(opts, repeat=k):
            for lo, hi in ([(1, 1)] if k == 3 else [o for o in cm.OCC_SMALL if o != (0, 0)]):
                out.append(('g', 'choice', lo, hi, list(items)))
    return out


def flat_seqs() -> list[tuple]:
    """the fragment of theorem checkModel_refines_flat_seq_partial: a sequence {1,1} or {0,1} of 1..3 references to
    plain global elements (a, b, c for ≤ 2 members; a, b for 3 members) with every occurrence range of
    lib_cm.OCC_SMALL"""
    out = []
    for k in (1, 2, 3):
        names = ('a', 'b', 'c') if k < 3 else ('a', 'b')
        opts = [('e', n, lo, hi) for n in names for lo, hi in cm.OCC_SMALL]
        for items in itertools.product(opts, repeat=k):
            for lo, hi in ((1, 1), (0, 1)):
                out.append(('g', 'sequence', lo, hi, list(items)))
    return out


def flat_seqs_rep() -> list[tuple]:
    """the fragment of theorem checkModel_flat_seq_refusal_sound beyond flat_seqs(): a sequence that repeats
    ({0,∞}, {1,∞}, {2,2}, {1,2}) of 1..3 references to plain global elements"""
    out = []
    for k in (1, 2, 3):
        names = ('a', 'b', 'c') if k < 3 else ('a', 'b')
        opts = [('e', n, lo, hi) for n in names for lo, hi in cm.OCC_SMALL]
        for items in itertools.product(opts, repeat=k):
            for lo, hi in ((0, None), (1, None), (2, 2), (1, 2)):
                out.append(('g', 'sequence', lo, hi, list(items)))
    return out


# ---------------------------------------------------------------------------------------------
# dp-shapes: repeating / non-repeating choices and sequences whose branches are small nested groups, the same name
# in two branches at different positions; selected so that every case of distinguishable_paths is exercised

class _N:
    """generator-level particle with the interface dp_key reads"""
    def __init__(self, ast: tuple):
        self.ast = ast
        self.min_occurs, self.max_occurs = ast[2], ast[3]
        self.model = ast[1] if ast[0] == 'g' else None
        self.name = ast[1] if ast[0] != 'g' else None
        self.items = [_N(i) for i in ast[4]] if ast[0] == 'g' else []

    def __iter__(self):
        return iter(self.items)

    def is_univocal(self) -> bool:
        return self.min_occurs == self.max_occurs

    def is_emptiable(self) -> bool:
        if self.min_occurs == 0 or self.model is None:
            return self.min_occurs == 0
        if not self.items:
            return True
        if self.model == 'choice':
            return any(i.is_emptiable() for i in self.items)
        return all(i.is_emptiable() for i in self.items)


def predict_dp_keys(ast: tuple) -> list[str]:
    """the dp_key of every distinguishable_paths call the (patched) check_model is expected to make on a model
    of plain element references (overlap = same name), up to the first error; used to SELECT models only"""
    root = _N(ast)
    if root.max_occurs == 0:
        return []
    keys: list[str] = []
    paths: dict = {}

    def visit(g: _N, path: list) -> bool:
        for it in g.items:
            if it.max_occurs == 0:
                continue
            if it.model is not None:
                if not visit(it, path + [it]):
                    return False
                continue
            prev = paths.get(it.name)
            if prev is not None:
                pe, pp = prev
                same = len(pp) == len(path) and all(x is y for x, y in zip(pp, path))
                go = True
                if same:
                    if path[-1].model in ('all', 'choice'):
                        return False
                    if pe.is_univocal() and path[-1].max_occurs == 1:
                        go = False
                if go:
                    k = dp_key(pp + [pe], path + [it])
                    if k is not None:
                        keys.append(k)
            paths[it.name] = (it, path)
        return True
    visit(root, [root])
    return keys


def dp_shape(rng) -> tuple:
    locc = [(1, 1), (1, 1), (0, 1), (2, 2), (1, 2), (0, None)]
    gocc = [(1, 1), (1, 1), (0, 1), (2, 2), (1, 2), (0, None)]
    others = ['b', 'c', 'd']

    def leaf() -> list:
        lo, hi = rng.choice(locc)
        return ['e', rng.choice(others), lo, hi]

    def group(d: int) -> list:
        lo, hi = rng.choice(gocc)
        items = []
        for _ in range(rng.choice([1, 2, 2, 3])):
            items.append(group(d - 1) if d > 1 and rng.random() < 0.35 else leaf())
        return ['g', rng.choice(['sequence', 'choice']), lo, hi, items]

    def leaves_of(x: list) -> list:
        return [x] if x[0] == 'e' else [l for i in x[4] for l in leaves_of(i)]
    branches = []
    for _ in range(rng.choice([2, 2, 3])):
        r = rng.random()
        branches.append(leaf() if r < 0.25 else group(1 if r < 0.65 else 2))
    i, j = rng.sample(range(len(branches)), 2)
    for b in (branches[i], branches[j]):
        rng.choice(leaves_of(b))[1] = 'a'
    lo, hi = rng.choice([(1, 1), (0, 1), (0, None), (0, None), (1, 2), (2, 2), (1, None)])
    root = ['g', rng.choice(['sequence', 'choice', 'choice']), lo, hi, branches]
    if rng.random() < 0.2:      # the common group one level down
        lo, hi = rng.choice(gocc)
        root = ['g', rng.choice(['sequence', 'choice']), lo, hi, [leaf(), root] if rng.random() < 0.5 else [root]]

    def tupl(x: list) -> tuple:
        return ('e', x[1], x[2], x[3]) if x[0] == 'e' else ('g', x[1], x[2], x[3], [tupl(i) for i in x[4]])
    return tupl(root)


def dp_shapes(rng, per_key: int, pool: int) -> tuple[list[tuple], dict]:
    """draws `pool` candidates and keeps a model while one of the distinguishable_paths cases it is predicted to
    reach has fewer than `per_key` models; returns the selection and the predicted count per case"""
    counts: dict[str, int] = {}
    out, seen = [], set()
    for _ in range(pool):
        m = dp_shape(rng)
        ks = set(predict_dp_keys(m))
        if not ks or all(counts.get(k, 0) >= per_key for k in ks):
            continue
        s = show(m)
        if s in seen:
            continue
        seen.add(s)
        out.append(m)
        for k in ks:
            counts[k] = counts.get(k, 0) + 1
    return out, counts


def token_model(rng) -> tuple:
    """XSD 1.1: a small model with at least one wildcard whose notQName has ##defined / ##definedSibling"""
    while True:
        m = small_random(rng, rng.choice([2, 3, 3]), ['a', 'b', 'h'], [(1, 1), (0, 1), (0, None), (1, 2)], any_p=0.5)

        def rewrite(a: tuple) -> tuple:
            if a[0] == 'g':
                return ('g', a[1], a[2], a[3], [rewrite(i) for i in a[4]])
            if a[0] == 'a':
                return ('a', rng.choice(TOKEN_SPECS + TOKEN_SPECS + ['##any', 'urn:t', '!q:a']), a[2], a[3])
            return a
        m = rewrite(m)
        if any(l[0] == 'a' and l[1] in TOKEN_SPECS for l in leaves(m)):
            return m


def open_content_model(rng) -> tuple:
    """XSD 1.1: ('oc', mode, wildcard spec, model) — the model under an explicit xs:openContent"""
    if rng.random() < 0.5:
        m = small_random(rng, rng.choice([1, 2, 3]), ['a', 'b'], [(1, 1), (0, 1), (0, None), (1, 2), (2, 2)], any_p=0.2)
    else:
        m = random_model(rng, True, max_depth=2)
    spec = rng.choice(['##any', '##other', 'urn:t', '##local', '!ns:urn:t', '!q:a', '!q:##defined', '!q:##definedSibling'])
    return ('oc', rng.choice(['interleave', 'suffix']), spec, m)


def shared_ref_model(rng, v11: bool) -> tuple:
    """the same named group referenced twice in one model (its particles are then shared objects)"""
    occs = [(1, 1), (1, 1), (0, 1), (0, None), (1, 2), (2, 2)]
    g = small_random(rng, rng.choice([1, 2, 2]), ['a', 'b', 'h', 's'], occs, depth=1, any_p=0.1)
    lo1, hi1 = rng.choice(occs)
    lo2, hi2 = rng.choice(occs)
    r1 = ('g', g[1], lo1, hi1, g[4], 'ref')
    r2 = ('g', g[1], lo2, hi2, g[4], 'ref')
    items = [r1]
    if rng.random() < 0.5:
        lo, hi = rng.choice(occs)
        items.append(('e', rng.choice(['a', 'b', 'c']), lo, hi))
    items.append(r2)
    lo, hi = rng.choice(occs)
    return ('g', rng.choice(['sequence', 'choice']), lo, hi, items)


def edc_models() -> list[tuple]:
    """small models whose point is Element Declarations Consistent (directly and through
    substitution groups), with and without a separating particle"""
    pool = [('e', 'a'), ('l', 'a', 'string'), ('l', 'a', 'int'), ('e', 'h'), ('l', 's', 'int'), ('l', 's', 'string'),
            ('l', 's2', 'int'), ('e', 's')]

    def mk(x, lo, hi):
        return (x[0], x[1], lo, hi) + tuple(x[2:])
    out = []
    for x, y in itertools.product(pool, repeat=2):
        for (lo, hi) in ((1, 1), (0, 1)):
            out.append(('g', 'sequence', 1, 1, [mk(x, 1, 1), ('e', 'b', 1, 1), mk(y, lo, hi)]))
            out.append(('g', 'choice', 1, 1, [mk(x, 1, 1), ('g', 'sequence', 1, 1, [('e', 'b', 1, 1), mk(y, lo, hi)])]))
            out.append(('g', 'sequence', 1, 1, [mk(x, 1, 1), mk(y, lo, hi)]))
    return out


def edc_subst_models() -> list[tuple]:
    """Element Declarations Consistent through a substitution group whose members have other types than the head
    (hd: decimal, md: integer member of hd, md2: int member of md): a LOCAL element named like the head / the member /
    the member of the member × its type = the head's / the member's / the member-of-member's / another one ×
    before / after × a reference to the head / the member / the member of the member × adjacent / separated by b /
    in the other branch of a choice × the later particle required / optional"""
    out = []
    for lname in ('hd', 'md', 'md2'):
        for ltype in ('decimal', 'integer', 'int', 'string'):
            for ref in ('hd', 'md', 'md2'):
                for local_first in (True, False):
                    for lo, hi in ((1, 1), (0, 1)):
                        loc, r = ('l', lname, 1, 1, ltype), ('e', ref, 1, 1)
                        x, y = (loc, r) if local_first else (r, loc)
                        y = y[:2] + (lo, hi) + y[4:]
                        out.append(('g', 'sequence', 1, 1, [x, y]))
                        out.append(('g', 'sequence', 1, 1, [x, ('e', 'b', 1, 1), y]))
                        out.append(('g', 'choice', 1, 1, [x, ('g', 'sequence', 1, 1, [('e', 'b', 1, 1), y])]))
    # two REFERENCES into the group (head / member / member of the member, both orders): consistent whatever the
    # types are (finding C15-F4 refuses (hd, b, md))
    for r1 in ('hd', 'md', 'md2'):
        for r2 in ('hd', 'md', 'md2'):
            for lo, hi in ((1, 1), (0, 1)):
                x, y = ('e', r1, 1, 1), ('e', r2, lo, hi)
                out.append(('g', 'sequence', 1, 1, [x, ('e', 'b', 1, 1), y]))
                out.append(('g', 'sequence', 1, 1, [x, y]))
                out.append(('g', 'choice', 1, 1, [x, ('g', 'sequence', 1, 1, [('e', 'b', 1, 1), y])]))
    return out


def wildcard_models(v11: bool, tokens: bool = True) -> list[tuple]:
    """every pair of leaves from {a, the substitution head h and its members, wildcard specs} in the two-item
    sequence / choice shapes"""
    specs = [s for s, (_, need) in WC_SPECS.items() if (v11 or not need) and (tokens or s not in TOKEN_SPECS)]
    pool = [('e', 'a'), ('e', 'h'), ('e', 's'), ('e', 's2'), ('e', 'd')] + [('a', s) for s in specs]
    out = []
    for x, y in itertools.product(pool, repeat=2):
        for kind in ('sequence', 'choice'):
            for (l1, h1), (l2, h2) in (((1, 1), (1, 1)), ((0, 1), (1, 1)), ((1, None), (1, 1)), ((1, 1), (0, None)),
                                       ((0, 1), (0, 1))):
                out.append(('g', kind, 1, 1, [x + (l1, h1), y + (l2, h2)]))
                out.append(('g', kind, 0, None, [x + (l1, h1), y + (l2, h2)]))
    return out


# ---------------------------------------------------------------------------------------------
# recording the real distinguishable_paths calls

class Recorder:
    def __init__(self) -> None:
        self.calls: dict[int, list[tuple[int, int, bool]]] = {}
        self.flags: dict[int, list[str]] = {}      # per root group: dp_key of every distinguishable_paths call


def dp_key(path1: list, path2: list) -> Optional[str]:
    """The case of `distinguishable_paths` a call falls into, as a short key: model kind of the deepest common
    group (S sequence / C choice or all), its maxOccurs (1 / *), before1 before2, after1 after2, univocal1
    univocal2, is_univocal of the two leaves, depth of the common group (0 / 1 = deeper).  Re-computed from the
    arguments with the particle interface only (model, max_occurs, iteration, is_emptiable, is_univocal), for the
    real objects (coverage measured on the recorded calls) and for the generator-level nodes `_N` (selection of the
    dp-shapes family).  It is NOT used for any verdict.  None = one of the early returns."""
    depth = 0
    for k, e in enumerate(path1):
        if not any(e is x for x in path2):
            if not k:
                return None
            depth = k - 1
            break
    g = path1[depth]
    if g.max_occurs == 0:
        return None
    seq = g.model == 'sequence'
    u1 = u2 = True
    if seq:
        items = list(g)
        idx1 = next(i for i, x in enumerate(items) if x is path1[depth + 1])
        idx2 = next(i for i, x in enumerate(items) if x is path2[depth + 1])
        b1 = any(not e.is_emptiable() for e in items[:idx1])
        a1 = b2 = any(not e.is_emptiable() for e in items[idx1 + 1:idx2])
        a2 = any(not e.is_emptiable() for e in items[idx2 + 1:])
    else:
        b1 = a1 = b2 = a2 = False

    def walk(path, u, b, a):
        for k in range(depth + 1, len(path) - 1):
            u = u and path[k].is_univocal()
            its = list(path[k])
            idx = next(i for i, x in enumerate(its) if x is path[k + 1])
            if path[k].model == 'sequence':
                b = b or any(not e.is_emptiable() for e in its[:idx])
                a = a or any(not e.is_emptiable() for e in its[idx + 1:])
            elif any(e.is_emptiable() for i, e in enumerate(its) if i != idx):
                u = False
        return u, b, a
    u1, b1, a1 = walk(path1, u1, b1, a1)
    u2, b2, a2 = walk(path2, u2, b2, a2)
    f = lambda x: '1' if x else '0'      # noqa: E731
    return '%s%s b%s%s a%s%s u%s%s l%s%s d%d' % ('S' if seq else 'C', '1' if g.max_occurs == 1 else '*', f(b1), f(b2),
                                              f(a1), f(a2), f(u1), f(u2), f(path1[-1].is_univocal()),
                                              f(path2[-1].is_univocal()), min(depth, 1))


@contextlib.contextmanager
def recording() -> Iterator[Recorder]:
    """while active, every call of `distinguishable_paths` made by `check_model` is recorded per root
    group as (id(pe), id(e), result); the function itself is called unchanged"""
    from xmlschema.validators import models
    rec = Recorder()
    orig = models.distinguishable_paths

    def wrapper(path1, path2):
        r = orig(path1, path2)
        rec.calls.setdefault(id(path1[0]), []).append((id(path1[-1]), id(path2[-1]), bool(r)))
        try:
            k = dp_key(path1, path2)
        except Exception:       # noqa: BLE001 - statistics only
            k = 'error'
        if k is not None:
            rec.flags.setdefault(id(path1[0]), []).append(k)
        return r
    models.distinguishable_paths = wrapper
    try:
        yield rec
    finally:
        models.distinguishable_paths = orig


def model_error_kind(errors: list) -> tuple[Optional[str], list[str]]:
    """(kind of the XMLSchemaModelError attached by check_model or None, other error class names)"""
    from xmlschema.validators.exceptions import XMLSchemaModelError
    kind = None
    other = []
    for e in errors:
        if isinstance(e, XMLSchemaModelError):
            msg = str(e.message)
            if msg.startswith('Element Declarations Consistent'):
                kind = 'edc'
            elif msg.startswith('Unique Particle Attribution'):
                kind = 'upa'
            elif 'overlap and are in the same' in msg:
                kind = 'group'
            else:
                kind = 'other-model-error'
        else:
            other.append(type(e).__name__)
    return kind, other


# ---------------------------------------------------------------------------------------------
# introspection -> driver request

class Introspector15:
    """Serialises a built XsdGroup (what the schema parser actually produced): the particle tree in the
    format of Driver/CMJson.lean (ids = Python object identity, dense), and for every element particle
    what `is_overlap` / `is_consistent` read.  An element's `names` are its name followed by the names
    it matches through `substitutes` (the implementation's closure; compared with the declared one by
    the caller)."""

    def __init__(self, group: Any, type_ids: dict[int, int]):
        from xmlschema.validators import XsdElement
        self.ids: dict[int, int] = {}
        self.objs: list[Any] = []
        self.root = group
        # M reads the tree as check_model iterates it (`iter(group)`: a reference to a named group has the
        # named group itself as its only member); S/O read the tree validation uses (`group.content`: a
        # reference has the members of the named group)
        self.json = self.walk(group, False)
        self.cjson = self.walk(group, True)
        # the same tree with *occurrence* ids (a particle object shared by two places of the model, which
        # happens with references to named groups, is two particles of the content model): this is the
        # tree the specification and the oracle read; `occ_obj[k]` = object id of occurrence k
        self.occ_obj: list[int] = []
        # for S/O a wildcard with ##defined / ##definedSibling is the same wildcard with those names listed in
        # notQName (the denotation of the tokens): global element names of the schema / names matched by the
        # element particles of this content model
        self.defined_names = sorted(cm.split_qname(n) for n in group.maps.elements if n.startswith('{' + TNS + '}'))
        self.sib_names = sorted([TNS, n] for n in json_sibs(self.cjson))
        self.has_nd = False
        self.sjson = self.renumber(self.cjson)
        oc = getattr(getattr(group, 'parent', None), 'open_content', None)
        self.open_content = None if oc is None else {'mode': oc.mode, 'w': wc_introspect_any(oc.any_element)}
        self.shared = len(set(self.occ_obj)) != len(self.occ_obj)
        self.type_ids = type_ids
        self.einfo = []
        self.types = []
        decl_of: dict[int, list] = {}
        for i, o in enumerate(self.objs):
            if isinstance(o, XsdElement):
                subs = [cm.split_qname(x.name) + [self.tid(x.type)] for x in o.iter_substitutes()]
                direct = sorted(cm.split_qname(x.name) for x in o.maps.substitution_groups.get(o.name, ()))
                sg = getattr(o, 'substitution_group', None)
                self.einfo.append({'id': i, 'name': cm.split_qname(o.name), 'ty': self.tid(o.type),
                                   'sg': cm.split_qname(sg) if sg else None, 'direct': direct, 'subs': subs,
                                   'headOk': o.parent is None or getattr(o, 'ref', None) is not None})
                decls = [cm.split_qname(o.name) + [self.tid(o.type)]]
                for n in sorted(o.substitutes or ()):
                    ge = o.maps.elements.get(n)
                    if ge is not None:
                        decls.append(cm.split_qname(n) + [self.tid(ge.type)])
                decl_of[i] = decls
        self.types = [[k, decl_of[i]] for k, i in enumerate(self.occ_obj) if i in decl_of]
        self.otypes = [[i, decl_of[i]] for i in sorted(decl_of)]      # the same table keyed by object id

    def renumber(self, j: dict) -> dict:
        k = len(self.occ_obj)
        self.occ_obj.append(j['id'])
        out = dict(j, id=k)
        if j['t'] == 'g':
            out['items'] = [self.renumber(i) for i in j['items']]
        elif j['t'] == 'a' and (j['w'].get('nd') or j['w'].get('nsib')):
            w = dict(j['w'])
            extra = (self.defined_names if w.get('nd') else []) + (self.sib_names if w.get('nsib') else [])
            w['notQ'] = sorted([list(x) for x in {tuple(q) for q in w['notQ'] + extra}])
            self.has_nd = self.has_nd or bool(w.get('nd'))
            out['w'] = w
        return out

    def oid(self, obj: Any) -> int:
        k = id(obj)
        if k not in self.ids:
            self.ids[k] = len(self.objs)
            self.objs.append(obj)
        return self.ids[k]

    def walk(self, p: Any, content: bool) -> dict:
        from xmlschema.validators import XsdGroup, XsdAnyElement
        from harness.props.c16 import introspect as wc_introspect
        pid = self.oid(p)
        hi = p.max_occurs
        if isinstance(p, XsdGroup):
            return {'t': 'g', 'id': pid, 'k': p.model, 'lo': p.min_occurs, 'hi': hi,
                    'items': [self.walk(i, content) for i in (p.content if content else list(p))]}
        if isinstance(p, XsdAnyElement):
            return {'t': 'a', 'id': pid, 'lo': p.min_occurs, 'hi': hi, 'w': wc_introspect(p), 'prec': []}
        names = [cm.split_qname(p.name)] + sorted(cm.split_qname(n) for n in (p.substitutes or ()))
        return {'t': 'e', 'id': pid, 'lo': p.min_occurs, 'hi': hi, 'names': names}

    def tid(self, t: Any) -> int:
        return self.type_ids.setdefault(id(t), len(self.type_ids))

    def precedences(self) -> list[list[int]]:
        """[wildcard id, element id] in the order add_precedence was called for this root"""
        out = []
        for i, o in enumerate(self.objs):
            for e in getattr(o, 'precedences', {}).get(self.root, []):
                out.append([i, self.ids.get(id(e), -1)])
        return out

    def sigma(self) -> list[list[str]]:
        names: list[list[str]] = []

        def walk(j):
            if j['t'] == 'g':
                for i in j['items']:
                    walk(i)
            elif j['t'] == 'e':
                for n in j['names']:
                    if n not in names:
                        names.append(n)
            else:
                for n in j['w']['notQ']:
                    if n not in names:
                        names.append(n)
        walk(self.json)
        if self.has_nd:
            for n in self.defined_names:
                if n not in names:
                    names.append(n)
        for f in FRESH:
            if list(f) not in names:
                names.append(list(f))
        return names

    def request(self, v11: bool, fuel: int) -> dict:
        defined = sorted(cm.split_qname(n) for n in self.root.maps.elements if n.startswith('{' + TNS + '}'))
        return {'v11': v11, 'n': len(self.objs), 'model': self.json, 'smodel': self.sjson, 'einfo': self.einfo,
                'defined': defined, 'sigma': self.sigma(), 'types': self.types, 'otypes': self.otypes, 'fuel': fuel}


def json_sibs(j: dict) -> set:
    if j['t'] == 'g':
        return set().union(*[json_sibs(i) for i in j['items']]) if j['items'] else set()
    if j['t'] == 'e':
        return {n[1] for n in j['names'] if n[0] == TNS and n[1] != 'q'}
    return set()


def wc_introspect_any(w: Any) -> Any:
    from harness.props.c16 import introspect as wc_introspect
    return wc_introspect(w)


def ast_of_json(j: dict, top: bool = True) -> tuple:
    """generator-level reading of an introspected group, up to the leaf details"""
    global _SIBS
    if top:
        _SIBS = json_sibs(j)
    if j['t'] == 'g':
        return ('g', j['k'], j['lo'], j['hi'], [ast_of_json(i, False) for i in j['items']])
    if j['t'] == 'e':
        # the abstract member q is in `substitutes` in one XSD version only; a child named q is refused either way
        return ('e', [n[1] for n in j['names'] if n[1] != 'q'], j['lo'], j['hi'])
    w = j['w']
    return ('a', [s for s in UNIVERSE if wc_json_matches(w, s)], j['lo'], j['hi'])


def skeleton(ast: tuple, top: bool = True) -> tuple:
    if top:
        set_sibs(ast)
    if ast[0] == 'g':
        return ('g', ast[1], ast[2], ast[3], [skeleton(i, False) for i in ast[4]])
    if ast[0] == 'a':
        return ('a', [s for s in UNIVERSE if wc_matches(ast[1], s)], ast[2], ast[3])
    if ast[0] == 'l':
        return ('e', [ast[1]], ast[2], ast[3])
    return ('e', [ast[1]] + sorted(n for n in SUBST.get(ast[1], []) if n != ast[1]), ast[2], ast[3])


def wc_json_matches(w: dict, sym: tuple[str, str]) -> bool:
    """set reading of an introspected wildcard (namespace constraint + notQName), independent of the
    implementation's matcher and of the Lean model"""
    ns, loc = sym
    if w['notNs']:
        ok = ns not in w['notNs']
    elif w['ns'] == 'any':
        ok = True
    elif w['ns'] == 'other':
        ok = ns not in ('', w['tns'])
    else:
        ok = ns in w['ns']
    if w.get('nd') and ns == TNS and loc in ELEM_NAMES:
        return False
    if w.get('nsib') and ns == TNS and loc in _SIBS:
        return False
    return ok and [ns, loc] not in w['notQ']


# ---------------------------------------------------------------------------------------------
# independent reference: Glushkov position automaton, occurrence ranges unrolled

class _G:
    def __init__(self, cap: int) -> None:
        self.follow: dict[int, set[int]] = {}
        self.leafof: dict[int, int] = {}
        self.cap = cap

    def sym(self, leaf: int):
        p = len(self.leafof)
        if p >= self.cap:
            raise OverflowError
        self.leafof[p] = leaf
        self.follow[p] = set()
        return (False, {p}, {p}, False)      # nullable, first, last, empty-language

    @staticmethod
    def eps():
        return (True, set(), set(), False)

    @staticmethod
    def empty():
        return (False, set(), set(), True)

    def cat(self, x, y):
        if x[3] or y[3]:
            return self.empty()
        for p in x[2]:
            self.follow[p] |= y[1]
        return (x[0] and y[0], x[1] | (y[1] if x[0] else set()), y[2] | (x[2] if y[0] else set()), False)

    def alt(self, x, y):
        if x[3]:
            return y
        if y[3]:
            return x
        return (x[0] or y[0], x[1] | y[1], x[2] | y[2], False)

    def star(self, x):
        if x[3]:
            return self.eps()
        for p in x[2]:
            self.follow[p] |= x[1]
        return (True, x[1], x[2], False)


def glushkov_upa(ast: tuple, v11: bool, cap: int = 600) -> Optional[bool]:
    """True = deterministic w.r.t. particle attribution, False = some prefix can be continued by one
    symbol attributed to two competing particles, None = not handled (xs:all with repeatable or group
    members, too many positions)."""
    lvs: list[tuple] = []
    g = _G(cap)
    set_sibs(ast)

    def annotate(a: tuple) -> tuple:
        if a[0] != 'g':
            lvs.append(a)
            return ('leaf', len(lvs) - 1, a)
        return ('g', a[1], a[2], a[3], [annotate(i) for i in a[4]])

    def occur(base, lo: int, hi: Optional[int]):
        r = g.eps()
        for _ in range(lo):
            r = g.cat(r, base())
        if hi is None:
            r = g.cat(r, g.star(base()))
        else:
            for _ in range(hi - lo):
                r = g.cat(r, g.alt(base(), g.eps()))
        return r

    def inst(x: tuple):
        """a fresh copy (fresh positions, same particle marks) of the annotated node"""
        if x[0] == 'leaf':
            k, a = x[1], x[2]
            if not any(leaf_matches(a, s) for s in UNIVERSE):
                return occur(g.empty, a[2], a[3])
            return occur(lambda: g.sym(k), a[2], a[3])
        kind, lo, hi, items = x[1], x[2], x[3], x[4]
        if kind == 'all':
            for i in items:
                if i[0] != 'leaf' or i[2][3] is None or i[2][3] > 1:
                    raise NotImplementedError

            def base():
                if not items:
                    return g.eps()
                r = g.empty()
                for perm in itertools.permutations(items):
                    c = g.eps()
                    for i in perm:
                        c = g.cat(c, inst(i))
                    r = g.alt(r, c)
                return r
        elif kind == 'sequence':
            def base():
                r = g.eps()
                for i in items:
                    r = g.cat(r, inst(i))
                return r
        else:
            def base():
                r = g.empty()
                for i in items:
                    r = g.alt(r, inst(i))
                return r
        return occur(base, lo, hi)

    def go(a: tuple):
        return inst(annotate(a))

    try:
        root = go(ast)
    except NotImplementedError:
        return None
    except OverflowError:
        return None
    if root[3]:
        return True

    # subset construction over attributed symbols (name, particle): two positions of the *same*
    # particle reached by the same attributed word are not a conflict, but they must be followed together
    matching = {k: [s for s in UNIVERSE if leaf_matches(l, s)] for k, l in enumerate(lvs)}

    def moves(cands: set[int]) -> Optional[dict]:
        """(symbol, particle) -> positions; None if two competing particles can take one symbol"""
        by_sym: dict[tuple, dict[int, set[int]]] = {}
        for p in cands:
            k = g.leafof[p]
            for s in matching[k]:
                by_sym.setdefault(s, {}).setdefault(k, set()).add(p)
        out = {}
        for s, parts in by_sym.items():
            ks = sorted(parts)
            for i, x in enumerate(ks):
                for y in ks[i + 1:]:
                    if v11 and (lvs[x][0] == 'a') != (lvs[y][0] == 'a'):
                        continue
                    return None
            for k, ps in parts.items():
                out[(s, k)] = frozenset(ps)
        return out

    first = moves(set(root[1]))
    if first is None:
        return False
    seen = set(first.values())
    todo = list(seen)
    while todo:
        q = todo.pop()
        cands: set[int] = set()
        for p in q:
            cands |= g.follow[p]
        mv = moves(cands)
        if mv is None:
            return False
        for nq in mv.values():
            if nq not in seen:
                seen.add(nq)
                if len(seen) > 20000:
                    return None
                todo.append(nq)
    return True


def live_leaves(ast: tuple) -> list[tuple]:
    if ast[3] == 0:
        return []
    if ast[0] != 'g':
        return [ast]
    return [x for i in ast[4] for x in live_leaves(i)]


def edc_ref(ast: tuple) -> bool:
    """same name (directly or through the substitution closure of a reference) ⇒ same type"""
    decls: dict[str, set[str]] = {}
    for l in live_leaves(ast):
        if l[0] == 'l':
            decls.setdefault(l[1], set()).add(l[4])
        elif l[0] == 'e':
            for n in SUBST.get(l[1], [l[1]]):
                decls.setdefault(n, set()).add(GLOBAL_TYPE[n])
    return all(len(v) == 1 for v in decls.values())
