"""
Schema families and seeded document generator shared by C04 (entry points / modes) and C11
(mutation fuzzing).  Documents are small trees; a valid instance is generated from the schema
family's own grammar and then damaged by *fault classes* (content model, datatypes, attributes,
xsi:type / nil / substitution, identity constraints, ID/IDREF).

Everything is derived from the `random.Random` instance passed in.
"""
from __future__ import annotations

import copy
from typing import Any, Callable, Optional

XSI = 'http://www.w3.org/2001/XMLSchema-instance'
TNS = 'urn:t'
ONS = 'urn:o'


class Node:
    __slots__ = ('ns', 'name', 'attrs', 'text', 'children', 'tail')

    def __init__(self, ns: str, name: str, attrs: Optional[dict] = None, text: Optional[str] = None,
                 children: Optional[list] = None):
        self.ns = ns
        self.name = name
        self.attrs: dict[tuple[str, str], str] = attrs or {}
        self.text = text
        self.children: list[Node] = children or []
        self.tail: Optional[str] = None

    def iter(self):
        yield self
        for c in self.children:
            yield from c.iter()

    def find_all(self, name: str) -> list['Node']:
        return [n for n in self.iter() if n.name == name]

    def parent_of(self, node: 'Node') -> Optional['Node']:
        for n in self.iter():
            if any(c is node for c in n.children):
                return n
        return None

    def to_json(self) -> Any:
        return {'n': ('{%s}' % self.ns if self.ns else '') + self.name,
                'a': {('{%s}' % k[0] if k[0] else '') + k[1]: v for k, v in self.attrs.items()},
                't': self.text, 'c': [c.to_json() for c in self.children]}


def esc(s: str, attr: bool = False) -> str:
    s = s.replace('&', '&amp;').replace('<', '&lt;').replace('>', '&gt;')
    if attr:
        s = s.replace('"', '&quot;').replace('\n', '&#10;').replace('\t', '&#9;')
    return s


def serialize(root: Node, style: str = 'prefix') -> str:
    """style 'prefix': xmlns:p=urn:t on the root, every name prefixed; 'default': xmlns=urn:t.
    All namespace declarations are on the root element (one document-wide prefix map)."""
    prefixes = {TNS: 'p', ONS: 'o', XSI: 'xsi'}
    used = set()
    for n in root.iter():
        if n.ns:
            used.add(n.ns)
        for (ans, _a) in n.attrs:
            if ans:
                used.add(ans)
    # QName / xsi:type values use the prefix p
    default_ns = TNS if style == 'default' else None

    def qn(ns: str, name: str, attr: bool = False) -> str:
        if not ns:
            return name
        if ns == default_ns and not attr:
            return name
        return prefixes[ns] + ':' + name

    def ser(n: Node, is_root: bool) -> str:
        parts = ['<', qn(n.ns, n.name)]
        if is_root:
            if default_ns and TNS in used | {TNS}:
                parts.append(' xmlns="%s"' % TNS)
            # the prefix p is always declared (used by QName values and xsi:type)
            parts.append(' xmlns:p="%s"' % TNS)
            if ONS in used:
                parts.append(' xmlns:o="%s"' % ONS)
            if XSI in used:
                parts.append(' xmlns:xsi="%s"' % XSI)
        for (ans, an), v in n.attrs.items():
            parts.append(' %s="%s"' % (qn(ans, an, True), esc(v, True)))
        if n.text is None and not n.children:
            parts.append('/>')
        else:
            parts.append('>')
            if n.text:
                parts.append(esc(n.text))
            for c in n.children:
                parts.append(ser(c, False))
                if c.tail:
                    parts.append(esc(c.tail))
            parts.append('</%s>' % qn(n.ns, n.name))
        return ''.join(parts)

    return ser(root, True)


NSMAP = {'p': TNS, 'o': ONS, 'xsi': XSI}
UNION_ELEMENTS = {'u'}          # element names of family T declared with a union type
UNION_TYPES = ['intOrCode', 'sbc', 'dateOrName']

# ------------------------------------------------------------------------------------------------
# schema family T (target namespace, qualified): sequence/choice, substitution groups, abstract
# element and type, xsi:type, nillable, list/union/facets, ID/IDREF, key/keyref/unique, wildcards

XSD_T = '''<xs:schema xmlns:xs="http://www.w3.org/2001/XMLSchema" targetNamespace="urn:t" xmlns:t="urn:t"
    elementFormDefault="qualified">
 <xs:simpleType name="code"><xs:restriction base="xs:string">
   <xs:enumeration value="A"/><xs:enumeration value="B"/><xs:enumeration value="C"/><xs:enumeration value="D"/>
 </xs:restriction></xs:simpleType>
 <xs:simpleType name="small"><xs:restriction base="xs:integer">
   <xs:minInclusive value="0"/><xs:maxInclusive value="100"/></xs:restriction></xs:simpleType>
 <xs:simpleType name="name8"><xs:restriction base="xs:string">
   <xs:minLength value="1"/><xs:maxLength value="8"/></xs:restriction></xs:simpleType>
 <xs:simpleType name="ints"><xs:list itemType="xs:int"/></xs:simpleType>
 <xs:simpleType name="intOrCode"><xs:union memberTypes="xs:int t:code"/></xs:simpleType>
 <xs:simpleType name="sbc"><xs:union memberTypes="t:small xs:boolean t:code"/></xs:simpleType>
 <xs:simpleType name="dateOrName"><xs:union memberTypes="xs:date t:name8"/></xs:simpleType>

 <xs:complexType name="base"><xs:sequence><xs:element name="n" type="t:name8"/></xs:sequence>
   <xs:attribute name="id" type="xs:ID"/></xs:complexType>
 <xs:complexType name="ext"><xs:complexContent><xs:extension base="t:base"><xs:sequence>
   <xs:element name="extra" type="xs:int" minOccurs="0"/></xs:sequence>
   <xs:attribute name="k" type="t:small"/></xs:extension></xs:complexContent></xs:complexType>
 <xs:complexType name="absT" abstract="true"><xs:complexContent><xs:extension base="t:base"/>
   </xs:complexContent></xs:complexType>
 <xs:complexType name="other"><xs:sequence><xs:element name="q" type="xs:string"/></xs:sequence></xs:complexType>

 <xs:element name="head" type="t:base"/>
 <xs:element name="sub" type="t:ext" substitutionGroup="t:head"/>
 <xs:element name="ahead" type="t:base" abstract="true"/>
 <xs:element name="asub" type="t:base" substitutionGroup="t:ahead"/>

 <xs:complexType name="itemType"><xs:sequence>
   <xs:element name="code" type="t:code" minOccurs="0"/>
   <xs:element name="price" type="xs:decimal"/>
   <xs:element name="when" type="xs:dateTime" minOccurs="0"/>
   <xs:element name="flag" type="xs:boolean" minOccurs="0"/>
   <xs:element name="q" type="xs:QName" minOccurs="0"/>
  </xs:sequence>
  <xs:attribute name="key" type="xs:int" use="required"/>
  <xs:attribute name="id" type="xs:ID"/>
  %(ASSERT)s
 </xs:complexType>

 <xs:element name="root">
  <xs:complexType>
   <xs:sequence>
     <xs:element name="title" type="t:name8"/>
     <xs:element name="count" type="t:small" minOccurs="0"/>
     <xs:choice minOccurs="0" maxOccurs="unbounded">
        <xs:element name="item" type="t:itemType"/>
        <xs:element ref="t:head"/>
        <xs:element ref="t:ahead"/>
     </xs:choice>
     <xs:element name="ref" minOccurs="0" maxOccurs="unbounded"><xs:complexType>
        <xs:attribute name="to" type="xs:int"/><xs:attribute name="idref" type="xs:IDREF"/>
     </xs:complexType></xs:element>
     <xs:element name="opt" type="xs:date" nillable="true" minOccurs="0"/>
     <xs:element name="vals" type="t:ints" minOccurs="0"/>
     <xs:element name="u" type="t:intOrCode" minOccurs="0" maxOccurs="3"/>
     <xs:any namespace="##other" processContents="lax" minOccurs="0" maxOccurs="2"/>
   </xs:sequence>
   <xs:attribute name="version" type="xs:decimal" use="required"/>
   <xs:attribute name="lang" type="xs:language" default="en"/>
   <xs:attribute name="fixed" type="xs:string" fixed="F"/>
   <xs:anyAttribute namespace="##other" processContents="lax"/>
  </xs:complexType>
  <xs:key name="itemKey"><xs:selector xpath="t:item"/><xs:field xpath="@key"/></xs:key>
  <xs:keyref name="itemRef" refer="t:itemKey"><xs:selector xpath="t:ref"/><xs:field xpath="@to"/></xs:keyref>
  <xs:unique name="uniqCode"><xs:selector xpath="t:item"/><xs:field xpath="t:code"/></xs:unique>
 </xs:element>
</xs:schema>'''

# schema family N (no namespace): mixed content, xs:all, simple content with attribute, fixed /
# default element values
XSD_N = '''<xs:schema xmlns:xs="http://www.w3.org/2001/XMLSchema">
 <xs:element name="doc"><xs:complexType mixed="true"><xs:sequence>
   <xs:element name="b" type="xs:string" minOccurs="0" maxOccurs="unbounded"/>
   <xs:element name="cfg" minOccurs="0"><xs:complexType><xs:all>
      <xs:element name="x" type="xs:int"/>
      <xs:element name="y" type="xs:unsignedByte" minOccurs="0"/>
      <xs:element name="z" type="xs:boolean" default="true" minOccurs="0"/>
   </xs:all></xs:complexType></xs:element>
   <xs:element name="m" minOccurs="0" maxOccurs="unbounded"><xs:complexType><xs:simpleContent>
      <xs:extension base="xs:decimal"><xs:attribute name="unit" use="required"><xs:simpleType>
        <xs:restriction base="xs:string"><xs:enumeration value="kg"/><xs:enumeration value="g"/>
        </xs:restriction></xs:simpleType></xs:attribute></xs:extension>
   </xs:simpleContent></xs:complexType></xs:element>
   <xs:element name="fx" type="xs:string" fixed="K" minOccurs="0"/>
   <xs:element name="yr" type="xs:gYear" minOccurs="0"/>
   <xs:element name="dur" type="xs:duration" minOccurs="0"/>
   <xs:element name="hex" type="xs:hexBinary" minOccurs="0"/>
   <xs:element name="dbl" type="xs:double" minOccurs="0"/>
 </xs:sequence><xs:attribute name="n" type="xs:nonNegativeInteger"/></xs:complexType></xs:element>
</xs:schema>'''

ASSERT_11 = '<xs:assert test="t:price ge 0"/>'


def xsd_text(family: str, v11: bool) -> str:
    if family == 'T':
        return XSD_T % {'ASSERT': ASSERT_11 if v11 else ''}
    return XSD_N


def T(name: str, text: Optional[str] = None, attrs: Optional[dict] = None, children: Optional[list] = None) -> Node:
    return Node(TNS, name, {('', k) if isinstance(k, str) else k: v for k, v in (attrs or {}).items()},
                text, children)


def N(name: str, text: Optional[str] = None, attrs: Optional[dict] = None, children: Optional[list] = None) -> Node:
    return Node('', name, {('', k) if isinstance(k, str) else k: v for k, v in (attrs or {}).items()},
                text, children)


WORDS = ['alpha', 'beta', 'gamma', 'x', 'Zed', 'q1', 'name', 'abcdefgh']


def gen_valid_T(rng) -> tuple[Node, dict]:
    """A valid instance of family T.  Returns the tree and facts used by the fault injectors."""
    info: dict[str, Any] = {'prefix_dependent': False}
    root = T('root', attrs={'version': rng.choice(['1.0', '2', '10.25', '-3.5'])})
    if rng.random() < 0.3:
        root.attrs[('', 'lang')] = rng.choice(['en', 'it', 'en-US'])
    if rng.random() < 0.2:
        root.attrs[('', 'fixed')] = 'F'
    if rng.random() < 0.2:
        root.attrs[(ONS, 'extra')] = 'anything'
    root.children.append(T('title', rng.choice(WORDS)))
    if rng.random() < 0.5:
        root.children.append(T('count', str(rng.randint(0, 100))))
    keys: list[int] = []
    ids: list[str] = []
    codes = ['A', 'B', 'C', 'D']
    rng.shuffle(codes)
    for i in range(rng.choice([0, 1, 1, 2, 3, 4])):
        kind = rng.choice(['item', 'item', 'head', 'sub', 'asub', 'head+type'])
        if kind == 'item':
            key = rng.choice([k for k in range(1, 60) if k not in keys])
            keys.append(key)
            it = T('item', attrs={'key': str(key)})
            if codes and rng.random() < 0.6:
                it.children.append(T('code', codes.pop()))
            it.children.append(T('price', rng.choice(['1', '0.50', '12.00', '100', '3.14159'])))
            if rng.random() < 0.3:
                it.children.append(T('when', rng.choice(['2020-01-02T03:04:05', '1999-12-31T23:59:59Z'])))
            if rng.random() < 0.3:
                it.children.append(T('flag', rng.choice(['true', 'false', '0', '1'])))
            if rng.random() < 0.15:
                it.children.append(T('q', 'p:' + rng.choice(WORDS)))
                info['prefix_dependent'] = True
            if rng.random() < 0.4:
                idv = 'i%d' % (len(ids) + 1)
                ids.append(idv)
                it.attrs[('', 'id')] = idv
            root.children.append(it)
        else:
            name = {'head': 'head', 'sub': 'sub', 'asub': 'asub', 'head+type': 'head'}[kind]
            el = T(name, children=[T('n', rng.choice(WORDS))])
            if kind == 'sub' or kind == 'head+type':
                if kind == 'head+type':
                    el.attrs[(XSI, 'type')] = 'p:ext'
                    info['prefix_dependent'] = True
                if rng.random() < 0.5:
                    el.children.append(T('extra', str(rng.randint(-5, 5))))
                if rng.random() < 0.5:
                    el.attrs[('', 'k')] = str(rng.randint(0, 100))
            if rng.random() < 0.3:
                idv = 'i%d' % (len(ids) + 1)
                ids.append(idv)
                el.attrs[('', 'id')] = idv
            root.children.append(el)
    for i in range(rng.choice([0, 0, 1, 2])):
        r = T('ref')
        if keys and rng.random() < 0.7:
            r.attrs[('', 'to')] = str(rng.choice(keys))
        if ids and rng.random() < 0.6:
            r.attrs[('', 'idref')] = rng.choice(ids)
        root.children.append(r)
    if rng.random() < 0.4:
        if rng.random() < 0.4:
            root.children.append(T('opt', None, attrs={(XSI, 'nil'): 'true'}))
        else:
            root.children.append(T('opt', rng.choice(['2024-02-29', '2001-10-26', '2001-10-26Z'])))
    if rng.random() < 0.3:
        root.children.append(T('vals', ' '.join(str(rng.randint(-9, 99)) for _ in range(rng.randint(0, 4)))))
    for i in range(rng.choice([0, 0, 1, 2, 3])):
        root.children.append(T('u', rng.choice(['1', '42', 'A', 'D', '-7'])))
    for i in range(rng.choice([0, 0, 0, 1, 2])):
        root.children.append(Node(ONS, 'any%d' % i, {}, rng.choice([None, 'free']),
                                  [Node(ONS, 'deep', {}, 'x')] if rng.random() < 0.5 else []))
    info.update(keys=keys, ids=ids)
    return root, info


def gen_valid_N(rng) -> tuple[Node, dict]:
    info: dict[str, Any] = {'prefix_dependent': False}
    root = N('doc')
    if rng.random() < 0.5:
        root.attrs[('', 'n')] = str(rng.randint(0, 10 ** rng.randint(1, 12)))
    if rng.random() < 0.4:
        root.text = rng.choice(['lead ', 'text & more ', ' '])
    for i in range(rng.choice([0, 1, 2, 3])):
        b = N('b', rng.choice(WORDS + ['', 'a b  c']))
        if rng.random() < 0.3:
            b.tail = ' mixed '
        root.children.append(b)
    if rng.random() < 0.6:
        parts = [N('x', str(rng.randint(-1000, 1000)))]
        if rng.random() < 0.5:
            parts.append(N('y', str(rng.randint(0, 255))))
        if rng.random() < 0.5:
            parts.append(N('z', rng.choice(['true', 'false', '']) or None))
        rng.shuffle(parts)
        root.children.append(N('cfg', children=parts))
    for i in range(rng.choice([0, 0, 1, 2])):
        root.children.append(N('m', rng.choice(['1.5', '10', '-0.25', '+7']), attrs={'unit': rng.choice(['kg', 'g'])}))
    if rng.random() < 0.3:
        root.children.append(N('fx', rng.choice(['K', None])))
    if rng.random() < 0.3:
        root.children.append(N('yr', rng.choice(['2024', '0001', '-0044', '12345', '1999Z'])))
    if rng.random() < 0.3:
        root.children.append(N('dur', rng.choice(['P1Y2M3DT4H5M6S', 'PT0S', '-P1D', 'P1M'])))
    if rng.random() < 0.3:
        root.children.append(N('hex', rng.choice(['0A1b', '', 'FFFF'])))
    if rng.random() < 0.3:
        root.children.append(N('dbl', rng.choice(['1e10', 'INF', '-0', 'NaN', '3.5'])))
    return root, info


# ------------------------------------------------------------------------------------------------
# fault classes.  Each returns a description string or None when it does not apply.

def _pick(rng, nodes):
    return rng.choice(nodes) if nodes else None


def f_drop_required(rng, root, info):
    cands = [n for n in root.iter() if n.name in ('title', 'price', 'n', 'x')]
    n = _pick(rng, cands)
    if n is None:
        return None
    root.parent_of(n).children.remove(n)
    return 'C01 drop required ' + n.name


def f_extra_child(rng, root, info):
    host = _pick(rng, [n for n in root.iter() if n.name in ('root', 'item', 'head', 'sub', 'doc', 'cfg')])
    if host is None:
        return None
    host.children.insert(rng.randint(0, len(host.children)), Node(host.ns, 'bogus', {}, 'b'))
    return 'C01 unexpected child in ' + host.name


def f_swap(rng, root, info):
    host = _pick(rng, [n for n in root.iter() if len(n.children) >= 2 and n.name in ('root', 'item', 'sub', 'doc')])
    if host is None:
        return None
    i = rng.randrange(len(host.children) - 1)
    a, b = host.children[i], host.children[i + 1]
    if a.name == b.name:
        return None
    host.children[i], host.children[i + 1] = b, a
    return 'C01 swap %s/%s' % (a.name, b.name)


def f_too_many(rng, root, info):
    if root.name == 'root':
        for _ in range(4):
            root.children.append(T('u', '1'))
        return 'C01 too many u'
    cfg = _pick(rng, root.find_all('cfg'))
    if cfg is None:
        return None
    cfg.children.append(N('x', '5'))
    return 'C01 duplicate x in all group'


BAD_VALUES = {
    'count': ['x', '101', '-1', '1.5', '', '1_0'], 'price': ['abc', '1,5', '', '1e3'], 'when': ['yesterday', '2020-13-01T00:00:00'],
    'flag': ['yes', 'TRUE', '2'], 'code': ['E', 'a', ''], 'title': ['', 'way too long title'], 'n': ['', 'nine chars'],
    'extra': ['1.0', 'x', '99999999999'], 'opt': ['2023-02-29', '02/03/2020'], 'vals': ['1 2 x', '1.5', '1 99999999999'],
    'u': ['E', '1.5', 'x y'], 'q': ['nope:name', '1bad', 'a:b:c'],
    'x': ['x', '1.0', '2147483648'], 'y': ['256', '-1', 'y'], 'z': ['maybe'], 'm': ['1e5', 'kg', ''], 'fx': ['J', 'k'],
    'yr': ['24', 'year', '99999999999999999999', '2024-13'], 'dur': ['1Y', 'P', 'PT'], 'hex': ['0A1', 'GG'],
    'dbl': ['1e', 'inf', '0x10'],
}


def f_bad_value(rng, root, info):
    n = _pick(rng, [n for n in root.iter() if n.name in BAD_VALUES and not n.children
                    and (XSI, 'nil') not in n.attrs])
    if n is None:
        return None
    n.text = rng.choice(BAD_VALUES[n.name])
    return 'C02 bad value %s=%r' % (n.name, n.text)


def f_bad_attr_value(rng, root, info):
    table = {'version': ['one', '1e2', ''], 'lang': ['not a lang', '12345678901'], 'key': ['k', '1.0', ''], 'k': ['101', 'x'],
             'to': ['x'], 'unit': ['lb', ''], 'n': ['-1', 'x', '1.0'], 'id': ['1abc', 'a b']}
    cands = [(n, k) for n in root.iter() for k in n.attrs if k[0] == '' and k[1] in table]
    c = _pick(rng, cands)
    if c is None:
        return None
    c[0].attrs[c[1]] = rng.choice(table[c[1][1]])
    return 'C03 bad attribute value %s' % c[1][1]


def f_missing_attr(rng, root, info):
    cands = [(n, k) for n in root.iter() for k in n.attrs if k in (('', 'version'), ('', 'key'), ('', 'unit'))]
    c = _pick(rng, cands)
    if c is None:
        return None
    del c[0].attrs[c[1]]
    return 'C03 missing required attribute ' + c[1][1]


def f_unknown_attr(rng, root, info):
    n = _pick(rng, [n for n in root.iter() if n.name in ('item', 'head', 'sub', 'ref', 'title', 'cfg', 'm', 'doc')])
    if n is None:
        return None
    n.attrs[('', 'zz')] = '1'
    return 'C03 unknown attribute on ' + n.name


def f_wrong_fixed(rng, root, info):
    if root.name != 'root':
        return None
    root.attrs[('', 'fixed')] = 'G'
    return 'C03 wrong fixed attribute'


def f_xsi_type_unknown(rng, root, info):
    n = _pick(rng, root.find_all('head') + root.find_all('item'))
    if n is None:
        return None
    n.attrs[(XSI, 'type')] = 'p:nonexistent'
    info['prefix_dependent'] = True
    return 'C07 xsi:type unknown'


def f_xsi_type_not_derived(rng, root, info):
    n = _pick(rng, root.find_all('head') + root.find_all('sub'))
    if n is None:
        return None
    n.attrs[(XSI, 'type')] = rng.choice(['p:other', 'p:itemType'])
    info['prefix_dependent'] = True
    return 'C07 xsi:type not derived'


def f_xsi_type_abstract(rng, root, info):
    n = _pick(rng, root.find_all('head'))
    if n is None:
        return None
    n.attrs[(XSI, 'type')] = 'p:absT'
    info['prefix_dependent'] = True
    return 'C07 xsi:type abstract'


def f_abstract_element(rng, root, info):
    if root.name != 'root':
        return None
    idx = 1 + (1 if len(root.children) > 1 and root.children[1].name == 'count' else 0)
    root.children.insert(min(idx, len(root.children)), T('ahead', children=[T('n', 'abs')]))
    return 'C07 abstract element used'


def f_nil_not_nillable(rng, root, info):
    n = _pick(rng, root.find_all('title') + root.find_all('count') + root.find_all('b'))
    if n is None:
        return None
    n.attrs[(XSI, 'nil')] = 'true'
    n.text = None
    return 'C07 nil on non-nillable ' + n.name


def f_nil_with_content(rng, root, info):
    n = _pick(rng, root.find_all('opt'))
    if n is None:
        return None
    n.attrs[(XSI, 'nil')] = rng.choice(['true', '1'])
    n.text = '2020-01-01'
    return 'C07 nil with content'


def f_bad_nil_value(rng, root, info):
    n = _pick(rng, root.find_all('opt'))
    if n is None:
        return None
    n.attrs[(XSI, 'nil')] = 'maybe'
    return 'C07 bad xsi:nil value'


def _ensure_items(rng, root, n):
    if root.name != 'root':
        return []
    items = root.find_all('item')
    used = {it.attrs.get(('', 'key')) for it in items}
    while len(items) < n:
        key = next(str(k) for k in range(60, 200) if str(k) not in used)
        used.add(key)
        it = T('item', attrs={'key': key}, children=[T('price', '1')])
        pos = 1 + (1 if len(root.children) > 1 and root.children[1].name == 'count' else 0)
        root.children.insert(min(pos, len(root.children)), it)
        items.append(it)
    return items


def f_dup_key(rng, root, info):
    items = _ensure_items(rng, root, 2)
    if len(items) < 2:
        return None
    a, b = rng.sample(items, 2)
    if ('', 'key') not in a.attrs:
        return None
    b.attrs[('', 'key')] = a.attrs[('', 'key')]
    return 'C08 duplicate key'


def f_dangling_keyref(rng, root, info):
    if root.name != 'root':
        return None
    r = _pick(rng, root.find_all('ref'))
    if r is None:
        r = T('ref')
        pos = max([i for i, c in enumerate(root.children) if c.name in ('title', 'count', 'item', 'head', 'sub', 'asub', 'ref')],
                  default=-1) + 1
        root.children.insert(pos, r)
    r.attrs[('', 'to')] = '777'
    return 'C08 dangling keyref'


def f_dup_unique(rng, root, info):
    items = _ensure_items(rng, root, 2)
    if len(items) < 2:
        return None
    a, b = rng.sample(items, 2)
    for it in (a, b):
        cs = [c for c in it.children if c.name == 'code']
        if cs:
            cs[0].text = 'A'
        else:
            it.children.insert(0, T('code', 'A'))
    return 'C08 duplicate unique value'


def f_dup_id(rng, root, info):
    hosts = [n for n in root.iter() if n.name in ('item', 'head', 'sub', 'asub')]
    if len(hosts) < 2:
        return None
    a, b = rng.sample(hosts, 2)
    a.attrs[('', 'id')] = 'dupid'
    b.attrs[('', 'id')] = 'dupid'
    return 'ID duplicate ID'


def f_dangling_idref(rng, root, info):
    if root.name != 'root':
        return None
    r = _pick(rng, root.find_all('ref'))
    if r is None:
        r = T('ref')
        pos = max([i for i, c in enumerate(root.children) if c.name in ('title', 'count', 'item', 'head', 'sub', 'asub', 'ref')],
                  default=-1) + 1
        root.children.insert(pos, r)
    r.attrs[('', 'idref')] = 'nowhere'
    return 'ID dangling IDREF'


def f_wrong_root(rng, root, info):
    root.name = 'unknownRoot'
    return 'ROOT not an element of the schema'


def f_unknown_root_ns(rng, root, info):
    root.ns = ONS if root.ns != ONS else ''
    return 'ROOT in a namespace unknown to the schema'


def f_assert(rng, root, info):
    n = _pick(rng, root.find_all('price'))
    if n is None:
        return None
    n.text = '-1'
    return 'C02 negative price (XSD 1.1 assertion; valid in 1.0)'


FAULTS: list[Callable] = [
    f_drop_required, f_extra_child, f_swap, f_too_many, f_bad_value, f_bad_value, f_bad_attr_value,
    f_missing_attr, f_unknown_attr, f_wrong_fixed, f_xsi_type_unknown, f_xsi_type_not_derived,
    f_xsi_type_abstract, f_abstract_element, f_nil_not_nillable, f_nil_with_content, f_bad_nil_value,
    f_dup_key, f_dangling_keyref, f_dup_unique, f_dup_id, f_dangling_idref, f_wrong_root, f_assert,
    f_unknown_root_ns,
]
FAULT_NAMES = sorted({f.__name__[2:] for f in FAULTS})


def gen_case(rng, family: Optional[str] = None, nfaults: Optional[int] = None,
             only: Optional[Callable] = None) -> dict:
    """One generated document: {'family','style','xml','faults':[…],'prefix_dependent',…}"""
    family = family or rng.choice(['T', 'T', 'T', 'N'])
    root, info = (gen_valid_T if family == 'T' else gen_valid_N)(rng)
    if nfaults is None:
        nfaults = rng.choice([0, 0, 1, 1, 1, 2, 2, 3, 5])
    faults = []
    if only is not None:
        d = only(rng, root, info)
        if d:
            faults.append(d)
    else:
        tries = 0
        while len(faults) < nfaults and tries < 12:
            tries += 1
            d = rng.choice(FAULTS)(rng, root, info)
            if d:
                faults.append(d)
    style = rng.choice(['prefix', 'prefix', 'default']) if family == 'T' else 'prefix'
    return {'family': family, 'style': style, 'xml': serialize(root, style), 'faults': faults,
            'prefix_dependent': bool(info['prefix_dependent']), 'tree': root}


def many_errors_doc(n: int, valid_extra: int = 0) -> str:
    """Family T document with exactly n independent datatype errors (n bad prices)."""
    items = []
    for i in range(n):
        items.append(T('item', attrs={'key': str(i + 1)}, children=[T('price', 'bad')]))
    for i in range(valid_extra):
        items.append(T('item', attrs={'key': str(n + i + 1)}, children=[T('price', '1')]))
    root = T('root', attrs={'version': '1'}, children=[T('title', 'many')] + items)
    return serialize(root, 'prefix')


def clone(root: Node) -> Node:
    return copy.deepcopy(root)
