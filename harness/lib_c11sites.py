"""
C11 — static table of the `raise` sites of xmlschema/validators/ reached from the validation / decoding / encoding
descent, regenerated from the AST of the tree under check on every run.

For every function of the package `xmlschema.validators` (module `exceptions` excluded: it only defines the classes)
the extractor records each `raise` statement with

  * key          `<module>:<qualified function>:<class>#<k>` — k-th raise of that class in that function (line numbers
                 are NOT part of the key: a key survives unrelated edits, a new `raise` gets a new key);
  * cls          the class named in `raise C(...)` / `raise C`; `<reraise:A|B>` for a bare `raise` inside
                 `except (A, B)`; `<var:name:A|B>` for `raise name` where name is bound by `except (A, B) as name`;
                 `<var:name>` for `raise name` of a parameter / local (e.g. raise_or_collect's `raise error`);
                 `<expr>` otherwise;
  * guard        the mode test that encloses it in the same function: strict (`validation == 'strict'` true branch),
                 notSkip, lax, skip, none;
  * handlers     classes listed by `except` clauses of the `try` statements of the same function whose BODY contains
                 the raise (what can stop it before it leaves the function);
  * reachable    whether the function is reachable, in the name-based call graph of the package, from the descent
                 roots (every `raw_decode` / `raw_encode`, the iter_errors / iter_decode / iter_encode / decode /
                 encode / validate / is_valid wrappers of schemas.py and validation.py).  The call graph
                 over-approximates: a call `x.f(...)` or `f(...)` has an edge to EVERY function named f, a call of a
                 local variable / subscript / attribute that is no function name has an edge to every `__call__`, an
                 attribute load `x.p` has an edge to every property named p, instantiating a class has an edge to its
                 `__init__`.

`callers_catch` — for a function F whose raise leaves it: does every call site of F's name inside reachable functions
sit in a `try` body whose handlers catch the class?  (Used for the classification `caught by every caller`.)
"""
from __future__ import annotations

import ast
from pathlib import Path
from typing import Any, Optional

ROOT_NAMES = {'raw_decode', 'raw_encode'}
ROOT_FUNCS = {('schemas', n) for n in ('iter_errors', 'iter_decode', 'iter_encode', 'decode', 'encode', 'validate', 'is_valid',
                                       'raw_decoder', '_validate_references', 'to_objects', 'to_etree')} | \
             {('validation', n) for n in ('iter_errors', 'iter_decode', 'iter_encode', 'decode', 'encode', 'validate', 'is_valid',
                                          'to_objects', 'to_etree')}
# protocol methods that the interpreter calls implicitly (subscripts, iteration, truth value, comparisons, printing)
IMPLICIT_DUNDERS = {'__getitem__', '__setitem__', '__delitem__', '__iter__', '__contains__', '__len__', '__call__', '__bool__',
                    '__eq__', '__ne__', '__hash__', '__repr__', '__str__', '__getattr__', '__reversed__', '__copy__', '__lt__',
                    '__le__', '__gt__', '__ge__', '__enter__', '__exit__', '__next__'}
EXCLUDED_MODULES = {'exceptions', '__init__'}


class Func:
    def __init__(self, module: str, qual: str, node: ast.AST, cls: Optional[str]):
        self.module, self.qual, self.node, self.cls = module, qual, node, cls
        self.name = qual.split('.')[-1]
        self.is_property = False
        self.calls: set[str] = set()          # simple names called
        self.attr_loads: set[str] = set()
        self.calls_unknown = False            # calls an object that is no plain function name
        self.raises: list[dict] = []
        self.call_sites: list[tuple[str, list[list[str]]]] = []   # (callee simple name, enclosing handler lists)
        self.mode_switches: list[dict] = []   # calls that pass a literal validation mode

    @property
    def fid(self) -> str:
        return '%s:%s' % (self.module, self.qual)


def _handler_names(h: ast.ExceptHandler) -> list[str]:
    t = h.type
    if t is None:
        return ['BaseException']
    if isinstance(t, ast.Tuple):
        return [getattr(e, 'id', getattr(e, 'attr', '?')) for e in t.elts]
    return [getattr(t, 'id', getattr(t, 'attr', '?'))]


def _mode_test(t: ast.AST) -> Optional[tuple[str, str]]:
    """(op, mode) for `validation == 'mode'` / `validation != 'mode'` (possibly the first conjunct of an `and`)."""
    if isinstance(t, ast.BoolOp) and isinstance(t.op, ast.And):
        for v in t.values:
            r = _mode_test(v)
            if r:
                return r
        return None
    if isinstance(t, ast.Compare) and isinstance(t.left, ast.Name) and t.left.id == 'validation' and len(t.ops) == 1 \
            and isinstance(t.comparators[0], ast.Constant) and isinstance(t.comparators[0].value, str):
        if isinstance(t.ops[0], ast.Eq):
            return ('==', t.comparators[0].value)
        if isinstance(t.ops[0], ast.NotEq):
            return ('!=', t.comparators[0].value)
    return None


def _guard_of(stack: list[tuple[str, str, bool]]) -> str:
    """stack: (op, mode, in_body) of the enclosing mode tests; returns strict | notSkip | lax | skip | none"""
    modes = {'strict', 'lax', 'skip'}
    for op, mode, in_body in stack:
        if (op == '==') == in_body:
            modes &= {mode}
        else:
            modes -= {mode}
    if modes == {'strict'}:
        return 'strict'
    if modes == {'strict', 'lax'}:
        return 'notSkip'
    if modes == {'lax'}:
        return 'lax'
    if modes == {'skip'}:
        return 'skip'
    if modes == {'lax', 'skip'}:
        return 'notStrict'
    if not modes:
        return 'never'
    return 'none'


class _Walker:
    def __init__(self, fn: Func):
        self.fn = fn
        self.counts: dict[str, int] = {}

    def walk(self, node: ast.AST, guards: list, tries: list[list[str]], exc_vars: dict[str, list[str]],
             in_handler: Optional[list[str]]) -> None:
        for ch in ast.iter_child_nodes(node):
            self.visit(ch, guards, tries, exc_vars, in_handler)

    def visit(self, ch: ast.AST, guards: list, tries: list, exc_vars: dict, in_handler: Optional[list[str]]) -> None:
        if isinstance(ch, (ast.FunctionDef, ast.AsyncFunctionDef, ast.ClassDef, ast.Lambda)):
            if isinstance(ch, ast.Lambda):
                self.walk(ch, guards, tries, exc_vars, in_handler)
            return                       # nested defs are functions of their own
        if isinstance(ch, ast.If):
            mt = _mode_test(ch.test)
            self.visit(ch.test, guards, tries, exc_vars, in_handler)
            for b in ch.body:
                self.visit(b, guards + ([(mt[0], mt[1], True)] if mt else []), tries, exc_vars, in_handler)
            # the else branch negates the test only when the test is exactly the mode comparison
            neg = mt if mt and isinstance(ch.test, ast.Compare) else None
            for b in ch.orelse:
                self.visit(b, guards + ([(neg[0], neg[1], False)] if neg else []), tries, exc_vars, in_handler)
            return
        if isinstance(ch, ast.Try):
            hs = [n for h in ch.handlers for n in _handler_names(h)]
            for b in ch.body:
                self.visit(b, guards, tries + [hs], exc_vars, in_handler)
            for h in ch.handlers:
                ev = dict(exc_vars)
                if h.name:
                    ev[h.name] = _handler_names(h)
                for b in h.body:
                    self.visit(b, guards, tries, ev, _handler_names(h))
            for b in ch.orelse + ch.finalbody:
                self.visit(b, guards, tries, exc_vars, in_handler)
            return
        if isinstance(ch, ast.Raise):
            self.add_raise(ch, guards, tries, exc_vars, in_handler)
        if isinstance(ch, ast.Call):
            f = ch.func
            lit = [a.value for a in ch.args if isinstance(a, ast.Constant) and a.value in ('strict', 'lax', 'skip')] + \
                  [k.value.value for k in ch.keywords if k.arg == 'validation' and isinstance(k.value, ast.Constant)
                   and k.value.value in ('strict', 'lax', 'skip')]
            if lit:
                self.fn.mode_switches.append({'callee': getattr(f, 'attr', getattr(f, 'id', '?')), 'mode': lit[0], 'line': ch.lineno,
                                              'handlers': sorted({n for hs in tries for n in hs})})
            if isinstance(f, ast.Attribute):
                self.fn.calls.add(f.attr)
                self.fn.call_sites.append((f.attr, list(tries)))
            elif isinstance(f, ast.Name):
                self.fn.calls.add(f.id)
                self.fn.call_sites.append((f.id, list(tries)))
            else:
                self.fn.calls_unknown = True
                self.fn.call_sites.append(('__call__', list(tries)))
        if isinstance(ch, ast.Attribute) and isinstance(ch.ctx, ast.Load):
            self.fn.attr_loads.add(ch.attr)
        if isinstance(ch, ast.Name) and isinstance(ch.ctx, ast.Load):
            self.fn.attr_loads.add(ch.id)
        if isinstance(ch, (ast.For, ast.comprehension)):
            pass
        self.walk(ch, guards, tries, exc_vars, in_handler)

    def add_raise(self, r: ast.Raise, guards: list, tries: list, exc_vars: dict, in_handler: Optional[list[str]]) -> None:
        e = r.exc
        if e is None:
            cls = '<reraise:%s>' % '|'.join(in_handler or ['?'])
        else:
            target = e.func if isinstance(e, ast.Call) else e
            if isinstance(target, ast.Name):
                if isinstance(e, ast.Call) or target.id[:1].isupper():
                    cls = target.id
                elif target.id in exc_vars:
                    cls = '<var:%s:%s>' % (target.id, '|'.join(exc_vars[target.id]))
                else:
                    cls = '<var:%s>' % target.id
            elif isinstance(target, ast.Attribute) and isinstance(e, ast.Call) and target.attr[:1].isupper():
                cls = target.attr
            else:
                cls = '<expr>'
        k = self.counts.get(cls, 0)
        self.counts[cls] = k + 1
        self.fn.raises.append({'cls': cls, 'k': k, 'line': r.lineno, 'guard': _guard_of(guards),
                               'handlers': sorted({n for hs in tries for n in hs})})


def extract(repo: Path) -> dict[str, Any]:
    """All functions of xmlschema/validators with their raise sites, the name-based call graph and reachability."""
    funcs: list[Func] = []
    classes: dict[str, list[str]] = {}          # class name -> base names (package classes)

    def add_funcs(module: str, body: list[ast.stmt], prefix: str, cls: Optional[str]) -> None:
        for n in body:
            if isinstance(n, (ast.FunctionDef, ast.AsyncFunctionDef)):
                fn = Func(module, prefix + n.name, n, cls)
                fn.is_property = any((isinstance(d, ast.Name) and d.id in ('property', 'cached_property')) or
                                     (isinstance(d, ast.Attribute) and d.attr in ('cached_property', 'setter', 'getter'))
                                     for d in n.decorator_list)
                funcs.append(fn)
                add_nested(module, n, prefix + n.name + '.', cls)
            elif isinstance(n, ast.ClassDef):
                classes.setdefault(n.name, []).extend(getattr(b, 'id', getattr(b, 'attr', '?')) for b in n.bases)
                add_funcs(module, n.body, prefix + n.name + '.', n.name)
            elif isinstance(n, (ast.If, ast.Try)):
                add_funcs(module, [x for x in ast.iter_child_nodes(n) if isinstance(x, ast.stmt)], prefix, cls)

    def add_nested(module: str, fnode: ast.AST, prefix: str, cls: Optional[str]) -> None:
        for n in ast.walk(fnode):
            if n is fnode:
                continue
            if isinstance(n, (ast.FunctionDef, ast.AsyncFunctionDef)):
                # direct nesting only (deeper levels are found by the recursive call)
                pass
        stack = list(ast.iter_child_nodes(fnode))
        while stack:
            n = stack.pop()
            if isinstance(n, (ast.FunctionDef, ast.AsyncFunctionDef)):
                fn = Func(module, prefix + n.name, n, cls)
                funcs.append(fn)
                add_nested(module, n, prefix + n.name + '.', cls)
            elif isinstance(n, ast.ClassDef):
                continue
            else:
                stack.extend(ast.iter_child_nodes(n))

    module_refs: set[str] = set()
    vdir = repo / 'xmlschema' / 'validators'
    for p in sorted(vdir.glob('*.py')):
        module = p.stem
        if module in EXCLUDED_MODULES:
            continue
        tree = ast.parse(p.read_text(encoding='utf-8-sig'))
        add_funcs(module, tree.body, '', None)
        # functions referenced by module-level / class-level code (tables of validators and converters)
        stack = list(tree.body)
        while stack:
            n = stack.pop()
            if isinstance(n, (ast.FunctionDef, ast.AsyncFunctionDef, ast.Import, ast.ImportFrom)):
                continue
            if isinstance(n, ast.Name) and isinstance(n.ctx, ast.Load):
                module_refs.add(n.id)
            elif isinstance(n, ast.Attribute) and isinstance(n.ctx, ast.Load):
                module_refs.add(n.attr)
            stack.extend(ast.iter_child_nodes(n))
    for fn in funcs:
        w = _Walker(fn)
        node = fn.node
        for b in node.body:        # type: ignore[attr-defined]
            w.visit(b, [], [], {}, None)
    by_name: dict[str, list[Func]] = {}
    for fn in funcs:
        by_name.setdefault(fn.name, []).append(fn)
    prop_names = {fn.name for fn in funcs if fn.is_property}
    inits: dict[str, list[Func]] = {}
    for fn in funcs:
        if fn.name == '__init__' and fn.cls:
            inits.setdefault(fn.cls, []).append(fn)

    def succ(fn: Func) -> list[Func]:
        out: list[Func] = []
        for n in fn.calls:
            out.extend(by_name.get(n, []))
            if n in inits:
                out.extend(inits[n])
            # nested function called by its bare name
        if fn.calls_unknown:
            out.extend(by_name.get('__call__', []))
        for n in fn.calls:
            if n not in by_name and n not in inits and n[:1].islower():
                # a local variable holding a callable (validator(value), hook(...)): every __call__ of the package
                out.extend(by_name.get('__call__', []))
                break
        for n in fn.attr_loads:
            # a property is evaluated by the load; a function taken as a value (validators stored in lists,
            # to_python / from_python converters, nested helper functions) may be called later by anybody
            if n in by_name and not (n.startswith('__') and n.endswith('__')):
                out.extend(by_name[n])
        return out

    roots = [fn for fn in funcs if fn.name in ROOT_NAMES or (fn.module, fn.name) in ROOT_FUNCS or fn.name in IMPLICIT_DUNDERS
             or (fn.name in module_refs and '.' not in fn.qual)]
    reach: dict[str, Func] = {}
    stack = list(roots)
    while stack:
        fn = stack.pop()
        if fn.fid in reach:
            continue
        reach[fn.fid] = fn
        stack.extend(succ(fn))
    return {'funcs': funcs, 'reach': reach, 'by_name': by_name, 'classes': classes}


def sites(repo: Path) -> list[dict]:
    ex = extract(repo)
    reach = ex['reach']
    out = []
    for fn in ex['funcs']:
        for r in fn.raises:
            out.append({'key': '%s:%s:%s#%d' % (fn.module, fn.qual, r['cls'], r['k']), 'module': fn.module, 'func': fn.qual,
                        'cls': r['cls'], 'guard': r['guard'], 'handlers': r['handlers'], 'line': r['line'],
                        'reachable': fn.fid in reach})
    return out


def mode_switches(repo: Path) -> list[dict]:
    """Calls inside reachable functions that start a sub-descent in a literal mode (not the caller's `validation`)."""
    ex = extract(repo)
    out = []
    for fn in ex['funcs']:
        if fn.fid in ex['reach']:
            for w in fn.mode_switches:
                out.append(dict(w, func=fn.fid))
    return out


def call_sites_of(repo: Path, name: str) -> list[dict]:
    """Every call of a function named `name` inside reachable functions, with the handler classes that enclose it."""
    ex = extract(repo)
    out = []
    for fn in ex['reach'].values():
        for callee, tries in fn.call_sites:
            if callee == name:
                out.append({'in': fn.fid, 'handlers': sorted({n for hs in tries for n in hs})})
    return out


if __name__ == '__main__':
    import sys
    repo = Path(sys.argv[1] if len(sys.argv) > 1 else '/repo')
    ss = sites(repo)
    print(len(ss), 'raise sites;', sum(s['reachable'] for s in ss), 'reachable')
    for s in ss:
        if s['reachable']:
            print('%-90s %-8s %s  L%d' % (s['key'], s['guard'], ','.join(s['handlers']), s['line']))
