"""
C18 — line-granularity machinery (used by harness/props/c18.py).

  * `line_tracer`: settrace function that makes EVERY executed line of the modelled functions a possible switch
    point of the controlled scheduler (library calls remain switch points as well);
  * `WidenLog`: replaces, from outside, the shared containers of the xsi:type widening (`XsdElement.xsi_types`,
    `XsdElement.selected_by`, `XsdIdentity.elements`) of one schema object by logging subclasses: every single
    operation on them (membership test, add, setitem, truth value, iterator creation, every `next`) is one
    event [thread, kind, a, b, value]; under the controlled scheduler exactly one thread runs at a time, so the
    log order is the real order;
  * `BuildLines`: labels the executed lines of `XsdGlobals.build` (AST positions, not line numbers);
  * `scan_caches`: the table of all memoised functions of /repo/xmlschema, regenerated from the source;
  * `CacheLog`: events of `functools.cached_property.__get__`, `schema_cached_property.__get__` and
    `SchemaCache.__call__` (look / compute / store / direct / evict), derived from line and call events.
"""
from __future__ import annotations

import ast
import functools
import inspect
import os
import sys
import threading
from typing import Any, Callable, Optional

from harness.core import REPO

PKG = REPO / 'xmlschema'


# =============================================================================================
#  which functions are traced line by line
# =============================================================================================
def modelled_codes() -> dict:
    """code object -> short name, of every function whose statements are model steps"""
    from xmlschema.validators.xsd_globals import XsdGlobals
    from xmlschema.validators.identities import XsdIdentity
    from xmlschema.validators.elements import XsdElement
    from xmlschema.validators.schemas import XMLSchemaBase
    from xmlschema.validators.simple_types import XsdSimpleType, XsdUnion, XsdAtomicRestriction
    from xmlschema.validators.validation import ValidationContext
    from xmlschema.caching import SchemaCache, schema_cached_property
    out = {
        XsdGlobals.build.__code__: 'build',
        XsdGlobals.clear.__code__: 'maps.clear',
        XsdGlobals.__setattr__.__code__: 'maps.__setattr__',
        XMLSchemaBase.clear.__code__: 'schema.clear',
        XsdIdentity.update_elements.__code__: 'update_elements',
        XsdElement.raw_decode.__code__: 'raw_decode',
        XsdElement.collect_key_fields.__code__: 'collect_key_fields',
        SchemaCache.__call__.__code__: 'SchemaCache.__call__',
        SchemaCache.clear.__code__: 'SchemaCache.clear',
        schema_cached_property.__get__.__code__: 'schema_cached_property.__get__',
        functools.cached_property.__get__.__code__: 'cached_property.__get__',
        XsdSimpleType.text_decode.__code__: 'text_decode',
        XsdSimpleType.text_is_valid.__code__: 'text_is_valid',
        ValidationContext.clear.__code__: 'context.clear',
        XsdUnion.raw_decode.__code__: 'union.raw_decode',
        XsdAtomicRestriction.raw_decode.__code__: 'restriction.raw_decode',
    }
    # the sites that evaluate XPath through elementpath
    from xmlschema.validators.facets import XsdAssertionFacet
    from xmlschema.validators.assertions import XsdAssert
    from xmlschema.validators.elements import XsdAlternative
    from xmlschema.validators.identities import FieldValueSelector
    out[XsdAssertionFacet.__call__.__code__] = 'assertion-facet.__call__'
    out[XsdAssert.__call__.__code__] = 'assert.__call__'
    out[XsdAlternative.test.__code__] = 'alternative.test'
    out[XsdElement.get_alternative_type.__code__] = 'get_alternative_type'
    out[FieldValueSelector.get_value.__code__] = 'field.get_value'
    return out


# =============================================================================================
#  logging containers of the widening
# =============================================================================================
class WidenLog:
    """registry + event log of one schema object"""

    def __init__(self, tid: Callable[[], int]):
        self.tid = tid
        self.log: list = []
        self.els: dict = {}        # id(selected_by set) -> El number
        self.idn: dict = {}        # id(identity) -> Idn number
        self.decls: dict = {}      # id(xsi_types set) -> declaration number
        self.pairs: dict = {}      # (decl, id(type), idn) -> Pair number
        self.pair_objs: list = []  # Pair number -> (declaration element, type, identity)
        self.el_of: dict = {}      # id(element) -> El number (every element sharing the set)
        self.sets: list = []
        self.dicts: list = []
        self.xsis: list = []
        self.on = True

    # ---- registry
    def pair(self, decl: int, owner: Any, key: Any) -> Optional[int]:
        if not (isinstance(key, tuple) and len(key) == 2):
            return None
        ty, ident = key
        i = self.idn.get(id(ident))
        if i is None:
            return None
        k = (decl, id(ty), i)
        if k not in self.pairs:
            self.pairs[k] = len(self.pair_objs)
            self.pair_objs.append((owner, ty, ident))
        return self.pairs[k]

    def ev(self, kind: str, a: int, b: int, v: int) -> None:
        if self.on:
            t = self.tid()
            if t >= 0:
                self.log.append([t, kind, a, b, v])

    def facts(self) -> list:
        out = []
        for x in self.xsis:
            for key in set.__iter__(x):
                p = self.pair(x.decl, x.owner, key)
                if p is not None:
                    out.append(['xsi', p, 0])
        for d in self.dicts:
            for e in dict.keys(d):
                n = self.el_of.get(id(e))
                if n is not None:
                    out.append(['elem', d.idn, n])
        for s in self.sets:
            for ident in set.__iter__(s):
                i = self.idn.get(id(ident))
                if i is not None:
                    out.append(['selBy', s.el, i])
        return sorted(out)


class LogSelSet(set):
    """`XsdElement.selected_by`"""
    wl: Any = None
    el: int = -1

    def add(self, x: Any) -> None:
        i = self.wl.idn.get(id(x), -1)
        set.add(self, x)
        if i >= 0:
            self.wl.ev('sadd', self.el, i, 0)

    def __len__(self) -> int:
        n = set.__len__(self)
        self.wl.ev('sbool', self.el, 0, 1 if n else 0)
        return n

    def __iter__(self):
        it = set.__iter__(self)
        self.wl.ev('siter', self.el, 0, set.__len__(self))
        return self._gen(it)

    def _gen(self, it):
        wl, el = self.wl, self.el
        while True:
            try:
                x = next(it)
            except StopIteration:
                wl.ev('sstop', el, 0, 0)
                return
            except RuntimeError:
                wl.ev('serr', el, 0, 0)
                raise
            wl.ev('snext', el, wl.idn.get(id(x), -1), 0)
            yield x


class LogXsiSet(set):
    """`XsdElement.xsi_types` (only the (type, identity) keys are modelled; the bare type keys gate nothing)"""
    wl: Any = None
    decl: int = -1
    owner: Any = None

    def add(self, x: Any) -> None:
        p = self.wl.pair(self.decl, self.owner, x)
        set.add(self, x)
        if p is not None:
            self.wl.ev('xadd', p, 0, 0)

    def __contains__(self, x: Any) -> bool:
        r = set.__contains__(self, x)
        p = self.wl.pair(self.decl, self.owner, x)
        if p is not None:
            self.wl.ev('xin', p, 0, 1 if r else 0)
        return r


class LogElemDict(dict):
    """`XsdIdentity.elements`"""
    wl: Any = None
    idn: int = -1

    def __contains__(self, e: Any) -> bool:
        r = dict.__contains__(self, e)
        n = self.wl.el_of.get(id(e))
        if n is not None:
            self.wl.ev('ein', self.idn, n, 1 if r else 0)
        return r

    def __setitem__(self, e: Any, v: Any) -> None:
        dict.__setitem__(self, e, v)
        n = self.wl.el_of.get(id(e))
        if n is not None:
            self.wl.ev('eset', self.idn, n, 0)


def instrument_widening(schema: Any, tid: Callable[[], int]) -> WidenLog:
    """Replaces the three kinds of shared containers of every element / identity of the schema (deterministic
    numbering: component iteration order of the built schema)."""
    from xmlschema.validators.elements import XsdElement
    from xmlschema.validators.identities import XsdIdentity
    wl = WidenLog(tid)
    elements = [c for c in schema.maps.iter_components(XsdElement) if c.schema.target_namespace != 'http://www.w3.org/2001/XMLSchema']
    idents = []
    seen = set()
    for c in schema.maps.iter_components(XsdIdentity):
        if id(c) not in seen:
            seen.add(id(c))
            idents.append(c)
    for e in elements:
        for ident in getattr(e, 'identities', ()) or ():
            if id(ident) not in seen:
                seen.add(id(ident))
                idents.append(ident)
    for ident in idents:
        wl.idn[id(ident)] = len(wl.idn)
    new_sel: dict = {}
    new_xsi: dict = {}
    for e in elements:
        s = e.selected_by
        if id(s) not in new_sel:
            ls = LogSelSet(s)
            ls.wl, ls.el = wl, len(wl.sets)
            wl.sets.append(ls)
            new_sel[id(s)] = ls
        x = e.xsi_types
        if id(x) not in new_xsi:
            lx = LogXsiSet(x)
            lx.wl, lx.decl, lx.owner = wl, len(wl.xsis), e
            wl.xsis.append(lx)
            new_xsi[id(x)] = lx
    for e in elements:
        ls = new_sel[id(e.selected_by)]
        lx = new_xsi[id(e.xsi_types)]
        wl.el_of[id(e)] = ls.el
        e.selected_by = ls
        e.xsi_types = lx
    for ident in idents:
        if isinstance(ident.elements, dict):
            d = LogElemDict(ident.elements)
            d.wl, d.idn = wl, wl.idn[id(ident)]
            wl.dicts.append(d)
            ident.elements = d
    wl.keep = (elements, idents)     # keep the objects alive: the registry is keyed by id()
    return wl


def sel_table(wl: WidenLog) -> tuple[list, list]:
    """`sel p` = what the real `update_elements(XPathElement(name, type))` of the identity visits, observed by a
    recording call made AFTER the run (pseudo-thread 99; the call is idempotent)."""
    from xmlschema.xpath import XPathElement
    sel, ido = [], []
    saved_tid, saved_log, saved_on = wl.tid, wl.log, wl.on
    wl.on = True
    for p, (owner, ty, ident) in enumerate(list(wl.pair_objs)):
        wl.log = []
        wl.tid = lambda: 99
        try:
            ident.update_elements(XPathElement(owner.name, ty))
        except TypeError:
            pass
        visits = [ev[3] for ev in wl.log if ev[1] == 'ein']
        sel.append([p, visits])
        ido.append([p, wl.idn[id(ident)]])
    wl.tid, wl.log, wl.on = saved_tid, saved_log, saved_on
    return sel, ido


def code_variant() -> dict:
    """which variant of the code is this tree?  addInside: `selected_by.add` inside `if e not in self.elements`
    (before ee393a6); live: `for identity in self.selected_by` over the live set (C18-F3 not applied)"""
    from xmlschema.validators.identities import XsdIdentity
    from xmlschema.validators.elements import XsdElement
    src = inspect.getsource(XsdIdentity.update_elements).splitlines()
    ind = lambda l: len(l) - len(l.lstrip())
    add_inside = any(ind(src[i]) >= ind(src[i - 1]) and 'self.elements[e]' in src[i - 1]
                     for i, l in enumerate(src) if 'selected_by.add(self)' in l)
    csrc = inspect.getsource(XsdElement.collect_key_fields)
    live = 'for identity in self.selected_by:' in csrc
    return {'addInside': add_inside, 'live': live}


# =============================================================================================
#  lines of XsdGlobals.build
# =============================================================================================
class BuildLines:
    """line number -> label of `XsdGlobals.build`, from the AST (first `if self._built` = rd0, its body = ret0,
    the `with` = with, inside it: first `if self._built` = rd1, its body = ret1, statements before the assignment
    `self._built = True` = body, the assignment = set, statements after = post)"""

    def __init__(self) -> None:
        from xmlschema.validators.xsd_globals import XsdGlobals
        self.code = XsdGlobals.build.__code__
        src, first = inspect.getsourcelines(XsdGlobals.build)
        import textwrap
        tree = ast.parse(textwrap.dedent(''.join(src)))
        fn = tree.body[0]
        off = first - 1
        self.label: dict = {}
        ok = False

        def lines(node: ast.AST) -> range:
            return range(node.lineno + off, node.end_lineno + off + 1)

        def is_built_test(n: ast.AST) -> bool:
            return isinstance(n, ast.If) and isinstance(n.test, ast.Attribute) and n.test.attr == '_built'
        stmts = [s for s in fn.body if not (isinstance(s, ast.Expr) and isinstance(s.value, ast.Constant))]
        if len(stmts) == 2 and is_built_test(stmts[0]) and isinstance(stmts[1], ast.With):
            self.label[stmts[0].lineno + off] = 'L:rd0'
            for s in stmts[0].body:
                for ln in lines(s):
                    self.label[ln] = 'L:ret0'
            w = stmts[1]
            self.label[w.lineno + off] = 'L:with'
            phase = 'L:body'
            body = list(w.body)
            if body and is_built_test(body[0]):
                self.label[body[0].lineno + off] = 'L:rd1'
                for s in body[0].body:
                    for ln in lines(s):
                        self.label[ln] = 'L:ret1'
                body = body[1:]
                ok = True
            for s in body:
                is_set = (isinstance(s, ast.Assign) and isinstance(s.targets[0], ast.Attribute)
                          and s.targets[0].attr == '_built' and isinstance(s.value, ast.Constant) and s.value.value is True)
                for ln in lines(s):
                    self.label[ln] = 'L:set' if is_set else phase
                if is_set:
                    phase = 'L:post'
            ok = ok and phase == 'L:post'
        self.ok = ok      # False: the shape of build() is not the modelled double-checked lock any more


# =============================================================================================
#  table of the memoised functions
# =============================================================================================
CACHE_DECORATORS = {'cached_property', 'lru_cache', 'cache', 'schema_cache', 'schema_lru_cache', 'schema_cached_property'}


def scan_caches() -> list:
    """every function of /repo/xmlschema decorated with a memoising decorator, and every hand-written lazy field
    (`if self.x is None: self.x = …`): [file, class, function, kind]"""
    out = []

    def decname(d: ast.AST) -> Optional[str]:
        if isinstance(d, ast.Call):
            d = d.func
        if isinstance(d, ast.Attribute):
            return d.attr
        if isinstance(d, ast.Name):
            return d.id
        return None

    def self_attr(n: ast.AST) -> Optional[str]:
        if isinstance(n, ast.Attribute) and isinstance(n.value, ast.Name) and n.value.id == 'self':
            return n.attr
        return None
    for dp, _dn, fn in os.walk(PKG):
        for f in fn:
            if not f.endswith('.py'):
                continue
            path = os.path.join(dp, f)
            rel = os.path.relpath(path, PKG)
            tree = ast.parse(open(path, encoding='utf-8-sig').read())
            scopes = [('', tree.body)] + [(c.name, c.body) for c in ast.walk(tree) if isinstance(c, ast.ClassDef)]
            for cname, body in scopes:
                for it in body:
                    if not isinstance(it, (ast.FunctionDef, ast.AsyncFunctionDef)):
                        continue
                    for d in it.decorator_list:
                        n = decname(d)
                        if n in CACHE_DECORATORS:
                            out.append([rel, cname, it.name, n])
                    for node in ast.walk(it):
                        if isinstance(node, ast.If) and isinstance(node.test, ast.Compare) and len(node.test.ops) == 1 \
                                and isinstance(node.test.ops[0], ast.Is) and self_attr(node.test.left) \
                                and isinstance(node.test.comparators[0], ast.Constant) and node.test.comparators[0].value is None:
                            attr = self_attr(node.test.left)
                            if any(isinstance(st, ast.Assign) and any(self_attr(tg) == attr for tg in st.targets)
                                   for st in node.body):
                                out.append([rel, cname, it.name, 'lazyfield:' + attr])
    uniq = []
    for o in sorted(out):
        if o not in uniq:
            uniq.append(o)
    return uniq


def eviction_sites() -> list:
    """every place of /repo/xmlschema that removes cache entries: `….__dict__.pop(…)`, `….__dict__.clear()`,
    `….cache_clear()`: [file, Class.function, line]"""
    out = []
    for dp, _dn, fn in os.walk(PKG):
        for f in fn:
            if not f.endswith('.py'):
                continue
            path = os.path.join(dp, f)
            rel = os.path.relpath(path, PKG)
            tree = ast.parse(open(path, encoding='utf-8-sig').read())
            for cls in ast.walk(tree):
                if not isinstance(cls, ast.ClassDef):
                    continue
                for fd in cls.body:
                    if not isinstance(fd, ast.FunctionDef):
                        continue
                    for node in ast.walk(fd):
                        if isinstance(node, ast.Call) and isinstance(node.func, ast.Attribute):
                            a = node.func
                            if a.attr == 'cache_clear' or (a.attr in ('pop', 'clear', 'popitem') and isinstance(a.value, ast.Attribute)
                                                           and a.value.attr == '__dict__'):
                                out.append([rel, f'{cls.name}.{fd.name}', node.lineno])
    uniq = []
    for o in sorted(out):
        if o[:2] not in [u[:2] for u in uniq]:
            uniq.append(o)
    return uniq


# =============================================================================================
#  events of the caches
# =============================================================================================
def canon(v: Any, depth: int = 0) -> str:
    """canonical form of a cached value: two computations of a deterministic function give the same form"""
    if v is None or isinstance(v, (bool, int, str, float)):
        return repr(v)
    if isinstance(v, (tuple, list)) and depth < 3:
        return '[' + ','.join(canon(x, depth + 1) for x in v[:50]) + ']'
    if isinstance(v, (set, frozenset)) and depth < 3:
        return '{' + ','.join(sorted(canon(x, depth + 1) for x in list(v)[:50])) + '}'
    if isinstance(v, dict) and depth < 3:
        return '{' + ','.join(sorted(canon(k, depth + 1) + ':' + canon(x, depth + 1) for k, x in list(v.items())[:50])) + '}'
    name = getattr(v, 'name', None)
    if hasattr(v, 'items') and hasattr(v, 'keys') and depth < 3:      # NamespaceView and other mappings
        try:
            return type(v).__name__ + '{' + ','.join(sorted(canon(k, depth + 1) for k in list(v.keys())[:50])) + '}'
        except Exception:   # noqa
            pass
    return type(v).__name__ + ('(' + str(name) + ')' if isinstance(name, str) else '')


class CacheLog:
    """derives look / compute / store / direct events of the three cache front ends from trace events"""

    def __init__(self, tid: Callable[[], int]):
        from xmlschema.caching import SchemaCache, schema_cached_property
        self.tid = tid
        self.log: list = []
        self.keys: dict = {}
        self.key_names: list = []
        self.kind: dict = {}            # key -> 'lru' | 'prop'
        self.vals: dict = {}            # canonical value -> number
        self.cp_code = functools.cached_property.__get__.__code__
        self.scp_code = schema_cached_property.__get__.__code__
        self.call_code = SchemaCache.__call__.__code__
        src, first = inspect.getsourcelines(functools.cached_property.__get__)
        self.cp_if = next(first + i for i, l in enumerate(src) if 'if val is _NOT_FOUND' in l)
        self.cp_ret = next(first + i for i, l in enumerate(src) if l.strip() == 'return val')
        self.cp_compute = next(first + i for i, l in enumerate(src) if 'val = self.func(instance)' in l)
        self.pending: dict = {}         # id(frame) -> state
        self.registered: set = set()    # functions registered in the schema cache (lru shape)
        self.watch_instances: Optional[set] = None
        self.depth: dict = {}

    def key(self, name: str, kind: str) -> int:
        if name not in self.keys:
            self.keys[name] = len(self.key_names)
            self.key_names.append(name)
            self.kind[self.keys[name]] = kind
        return self.keys[name]

    def val(self, v: Any) -> int:
        c = canon(v)
        if c not in self.vals:
            self.vals[c] = len(self.vals)
        return self.vals[c]

    NEST = 8

    def ev(self, kind: str, k: int, v: int) -> None:
        """A memoised function may call memoised functions while it computes: every nesting depth of a real thread
        is its own model thread (number t * NEST + depth) — the outer call sits at `compute` meanwhile, and the
        theorems hold for any number of threads."""
        t = self.tid()
        if t < 0:
            return
        d = self.depth.get(t, 0)
        if kind == 'store':
            d = max(0, d - 1)
            self.depth[t] = d
        self.log.append([t * self.NEST + min(d, self.NEST - 1), kind, k, v, 0])
        if kind == 'compute':
            self.depth[t] = d + 1

    # ---- functools.cached_property.__get__ : called from the local tracer of that frame
    def cp_line(self, frame: Any) -> None:
        ln = frame.f_lineno
        loc = frame.f_locals
        inst = loc.get('instance')
        if inst is None or (self.watch_instances is not None and id(inst) not in self.watch_instances):
            return
        name = 'prop:%s.%s@%x' % (type(inst).__name__, loc['self'].attrname, id(inst))
        st = self.pending.setdefault(id(frame), {})
        if ln == self.cp_if and 'looked' not in st:
            st['looked'] = True
            k = self.key(name, 'prop')
            val = loc.get('val')
            miss = type(val).__name__ == 'object' and val is functools._NOT_FOUND
            st['miss'] = miss
            self.ev('look', k, 0 if miss else self.val(val) + 1)
        elif ln == self.cp_compute and st.get('miss') and 'computed' not in st:
            st['computed'] = True
            self.ev('compute', self.key(name, 'prop'), 0)
        elif ln == self.cp_ret and st.get('miss') and 'stored' not in st:
            st['stored'] = True
            self.ev('store', self.key(name, 'prop'), self.val(loc.get('val')))

    def cp_return(self, frame: Any, arg: Any) -> None:
        st = self.pending.pop(id(frame), None)
        if st and st.get('looked'):
            loc = frame.f_locals
            inst = loc.get('instance')
            name = 'prop:%s.%s@%x' % (type(inst).__name__, loc['self'].attrname, id(inst))
            self.ev('ret', self.key(name, 'prop'), self.val(arg))

    # ---- SchemaCache.__call__ (lru_cache in C): look+miss is known when the wrapped function is entered
    def lru_name(self, func: Any, args: tuple) -> str:
        return 'lru:%s(%s)' % (getattr(func, '__qualname__', str(func)),
                               ','.join('%s@%x' % (type(a).__name__, id(a)) if not isinstance(a, (str, int, bool, type(None)))
                                        else repr(a) for a in args))

    def call_enter(self, frame: Any) -> None:
        loc = frame.f_locals
        func, args = loc.get('func'), loc.get('args', ())
        if loc.get('kwargs'):
            return
        cache = loc.get('self')
        direct = getattr(cache, '_caches', {}).get(func) is func      # caching disabled: `_caches[func] = func`
        self.pending[id(frame)] = {'name': self.lru_name(func, args), 'func': func, 'args': args, 'miss': False,
                                   'direct': direct}

    def func_enter(self, frame: Any) -> None:
        """a registered function is entered: if its caller is a pending SchemaCache.__call__ with the same
        arguments, this is the miss of that call"""
        caller = frame.f_back
        st = self.pending.get(id(caller)) if caller is not None else None
        if st is not None and not st['miss'] and getattr(st['func'], '__code__', None) is frame.f_code:
            st['miss'] = True
            st['inner'] = id(frame)
            if st['direct']:
                return
            k = self.key(st['name'], 'lru')
            self.ev('look', k, 0)
            self.ev('compute', k, 0)

    def func_return(self, frame: Any, arg: Any) -> None:
        caller = frame.f_back
        st = self.pending.get(id(caller)) if caller is not None else None
        if st is not None and st.get('inner') == id(frame) and 'stored' not in st and not st['direct']:
            st['stored'] = True
            self.ev('store', self.key(st['name'], 'lru'), self.val(arg))

    def call_return(self, frame: Any, arg: Any) -> None:
        st = self.pending.pop(id(frame), None)
        if st is None:
            return
        k = self.key(st['name'], 'lru')
        if st['direct']:
            self.ev('direct', k, self.val(arg))
            return
        if not st['miss']:
            self.ev('look', k, self.val(arg) + 1)
        self.ev('ret', k, self.val(arg))


# =============================================================================================
#  class-level / module-level mutable objects, and the sites that evaluate XPath
# =============================================================================================
IMMUTABLE_CALLS = {'frozenset', 'tuple', 'compile', 'Decimal', 'TypeVar', 'namedtuple', 'getLogger', 'str', 'int', 'float',
                   'bool', 'bytes', 'object', 'NewType', 'cast', 'property', 'partial', 'attrgetter', 'itemgetter',
                   'MappingProxyType', 'as_uri', 'joinpath', 'basename', 'Path'}


def scan_mutable_globals() -> list:
    """every name bound at MODULE level or in a CLASS body of /repo/xmlschema to a dict/list/set display or
    comprehension, or to the result of a call that is not a known constructor of immutable values:
    [file, class ('' = module), name, kind].  Such an object is shared by all threads AND all schemas."""
    out = []

    def callname(n: ast.Call) -> Optional[str]:
        f = n.func
        return f.attr if isinstance(f, ast.Attribute) else (f.id if isinstance(f, ast.Name) else None)

    def kind(v: Optional[ast.AST]) -> Optional[str]:
        if isinstance(v, (ast.Dict, ast.DictComp)):
            return 'dict'
        if isinstance(v, (ast.List, ast.ListComp)):
            return 'list'
        if isinstance(v, (ast.Set, ast.SetComp)):
            return 'set'
        if isinstance(v, ast.Call):
            n = callname(v)
            if n in IMMUTABLE_CALLS:
                return None
            return 'call:' + str(n)
        return None

    def targets(st: ast.AST) -> tuple[list, Optional[ast.AST]]:
        if isinstance(st, ast.Assign):
            return [x.id for x in st.targets if isinstance(x, ast.Name)], st.value
        if isinstance(st, ast.AnnAssign) and st.value is not None and isinstance(st.target, ast.Name):
            return [st.target.id], st.value
        return [], None
    for dp, _dn, fn in os.walk(PKG):
        for f in fn:
            if not f.endswith('.py'):
                continue
            path = os.path.join(dp, f)
            rel = os.path.relpath(path, PKG)
            tree = ast.parse(open(path, encoding='utf-8-sig').read())
            scopes = [('', tree.body)] + [(c.name, c.body) for c in ast.walk(tree) if isinstance(c, ast.ClassDef)]
            for cname, body in scopes:
                for st in body:
                    names, v = targets(st)
                    k = kind(v)
                    for n in names:
                        if k and n not in ('__all__', '__slots__'):
                            out.append([rel, cname, n, k])
    uniq = []
    for o in sorted(out):
        if o not in uniq:
            uniq.append(o)
    return uniq


def fingerprint(v: Any, depth: int = 0) -> str:
    """content fingerprint of a shared object (to see whether validation mutates it)"""
    if v is None or isinstance(v, (bool, int, str, float, bytes)):
        return repr(v)
    if depth > 3:
        return type(v).__name__
    if isinstance(v, dict) or (hasattr(v, 'keys') and hasattr(v, 'items') and not isinstance(v, type)):
        try:
            return type(v).__name__ + '{' + ','.join(sorted(fingerprint(k, depth + 1) + ':' + fingerprint(x, depth + 1)
                                                            for k, x in list(v.items())[:400])) + '}'
        except Exception:   # noqa
            return type(v).__name__
    if isinstance(v, (list, tuple)):
        return type(v).__name__ + '[' + ','.join(fingerprint(x, depth + 1) for x in v[:400]) + ']'
    if isinstance(v, (set, frozenset)):
        return type(v).__name__ + '{' + ','.join(sorted(fingerprint(x, depth + 1) for x in list(v)[:400])) + '}'
    if isinstance(v, type) or callable(v) and not hasattr(v, '__dict__'):
        return getattr(v, '__qualname__', type(v).__name__)
    tag = getattr(v, 'tag', None)
    if isinstance(tag, str) and hasattr(v, 'attrib'):      # ElementTree element
        return 'Element(%s,%s,%d,%r)' % (tag, fingerprint(dict(v.attrib), depth + 1), len(v), v.text)
    d = getattr(v, '__dict__', None)
    slots = [a for k in type(v).__mro__ for a in getattr(k, '__slots__', ()) if isinstance(a, str)]
    if d is None and not slots:
        return type(v).__name__
    items = dict(d or {})
    for a in slots:
        if hasattr(v, a):
            items[a] = getattr(v, a)
    return type(v).__name__ + '(' + ','.join(k + '=' + fingerprint(x, depth + 1) for k, x in sorted(items.items())
                                             if not k.startswith('__')) + ')'


def resolve_global(rel: str, cname: str, name: str) -> Any:
    import importlib
    mod = importlib.import_module('xmlschema.' + rel[:-3].replace(os.sep, '.').replace('.__init__', ''))
    obj = mod if not cname else getattr(mod, cname)
    return obj.__dict__[name] if cname else getattr(obj, name)


XPATH_METHODS = {'evaluate', 'select', 'select_results', 'iter_results'}
FRESH_CONTEXT_CALLS = {'XPathContext', 'XPathSchemaContext', 'get_context'}


def xpath_sites() -> list:
    """every call `<token>.evaluate/select/select_results(context)` of /repo/xmlschema/{validators,xpath}:
    [file, Class.function, method, how the context argument is obtained] with
       fresh        = built by a constructor call inside the same function (per-call context),
       param        = a parameter of the function (the caller's context),
       copy-of-param,
       other:<src>  = anything else (an attribute, a global, a copy of an attribute …) = possibly SHARED."""
    out = []
    for sub in ('validators', 'xpath'):
        for dp, _dn, fn in os.walk(PKG / sub):
            for f in fn:
                if not f.endswith('.py'):
                    continue
                path = os.path.join(dp, f)
                rel = os.path.relpath(path, PKG)
                tree = ast.parse(open(path, encoding='utf-8-sig').read())
                funcs = []
                for c in ast.walk(tree):
                    if isinstance(c, ast.ClassDef):
                        funcs += [(f'{c.name}.{x.name}', x) for x in c.body if isinstance(x, ast.FunctionDef)]
                funcs += [(x.name, x) for x in tree.body if isinstance(x, ast.FunctionDef)]
                for qual, fd in funcs:
                    params = {a.arg for a in fd.args.args + fd.args.kwonlyargs}
                    assigns: dict = {}
                    for node in ast.walk(fd):
                        if isinstance(node, ast.Assign):
                            for tg in node.targets:
                                if isinstance(tg, ast.Name):
                                    assigns.setdefault(tg.id, []).append(node.value)

                    def how(e: ast.AST, depth: int = 0) -> str:
                        if isinstance(e, ast.Call):
                            n = e.func.attr if isinstance(e.func, ast.Attribute) else getattr(e.func, 'id', None)
                            if n in FRESH_CONTEXT_CALLS:
                                return 'fresh'
                            if n == 'copy' and e.args:
                                inner = how(e.args[0], depth + 1)
                                return 'copy-of-param' if inner == 'param' else 'other:' + ast.unparse(e)
                        if isinstance(e, ast.Name) and depth < 3:
                            if e.id in assigns:
                                hs = {how(v, depth + 1) for v in assigns[e.id]}
                                return hs.pop() if len(hs) == 1 else 'other:' + e.id
                            if e.id in params:
                                return 'param'
                        return 'other:' + ast.unparse(e)
                    for node in ast.walk(fd):
                        if isinstance(node, ast.Call) and isinstance(node.func, ast.Attribute) and node.func.attr in XPATH_METHODS:
                            recv = ast.unparse(node.func.value)
                            if 'token' not in recv and 'parse' not in recv and not recv.startswith('self['):
                                continue
                            arg = node.args[0] if node.args else next((k.value for k in node.keywords if k.arg == 'context'), None)
                            if arg is None:
                                continue
                            out.append([rel, qual, node.func.attr, how(arg)])
    uniq = []
    for o in sorted(out):
        if o not in uniq:
            uniq.append(o)
    return uniq
