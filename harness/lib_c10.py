"""
C10 — deep fingerprint of the object graph of a schema (the REAL residue of a call).

`fingerprint(schema)` walks everything reachable from the schema object through instances of classes of
the `xmlschema` package and of elementpath's XPath node classes (their `__dict__` and every `__slots__` entry of their MRO) and through the built-in
containers, and returns a flat map

    (owner index, owner class, attribute)  ->  canonical value

where objects are named by the order in which the walk first met them on a *reference walk* (`Namer`), so
two fingerprints of the same object taken at different times can be diffed attribute by attribute.
Opaque leaves (elementpath tokens/parsers, ElementTree elements, compiled patterns, locks, functions) are
summarised by their type; lru caches by their current size (their keys are not introspectable).
"""
from __future__ import annotations

import collections
import functools
import re
import threading
import types
from typing import Any

ADDR = re.compile(r' at 0x[0-9a-fA-F]+')
PRIM = (str, bytes, int, float, bool, type(None), complex)
LOCK_TYPES = (type(threading.Lock()), type(threading.RLock()))


def _slots(cls) -> list[str]:
    out: list[str] = []
    for k in cls.__mro__:
        s = k.__dict__.get('__slots__', ())
        if isinstance(s, str):
            s = (s,)
        for name in s:
            if name not in ('__dict__', '__weakref__') and name not in out:
                out.append(name)
    return out


def _is_lib(obj: Any) -> bool:
    mod = getattr(type(obj), '__module__', '') or ''
    # the library's own classes, and the XPath node trees elementpath builds over the schema (`schema.xpath_node`)
    return mod == 'xmlschema' or mod.startswith('xmlschema.') or mod.startswith('elementpath.xpath_nodes') \
        or mod.startswith('elementpath.tree_builders')


class Namer:
    """stable names for the objects of one schema object graph: index in first-visit order"""

    def __init__(self) -> None:
        self.names: dict[int, int] = {}
        self.keep: list[Any] = []          # keeps the objects alive so that ids are not reused

    def name(self, obj: Any) -> int:
        i = self.names.get(id(obj))
        if i is None:
            i = self.names[id(obj)] = len(self.names)
            self.keep.append(obj)
        return i


def fingerprint(root: Any, namer: Namer, skip_attrs: frozenset = frozenset()) -> dict:
    """flat map  'idx:Class.attr' -> canonical value (JSON-able, hashable as repr)"""
    out: dict[str, Any] = {}
    seen: set[int] = set()
    todo = collections.deque([root])

    def ref(v: Any) -> Any:
        """canonical value of an attribute; queues library objects for their own entry"""
        if isinstance(v, PRIM):
            return v if not isinstance(v, (bytes, complex, float)) else repr(v)
        if isinstance(v, (list, tuple, collections.deque)):
            return [type(v).__name__] + [ref(x) for x in v]
        if isinstance(v, (set, frozenset)):
            return [type(v).__name__] + sorted((ref(x) for x in v), key=repr)
        if isinstance(v, dict):          # Counter, OrderedDict, defaultdict, ChainMap-like included
            return [type(v).__name__] + [[ref(k), ref(x)] for k, x in v.items()]
        if isinstance(v, functools._lru_cache_wrapper):
            return ['lru', v.cache_info().currsize]
        if isinstance(v, LOCK_TYPES):
            return ['lock', v.locked() if hasattr(v, 'locked') else None]
        if isinstance(v, (types.FunctionType, types.BuiltinFunctionType, types.MethodType, type, functools.partial,
                          types.ModuleType, re.Pattern)):
            return ['<' + type(v).__name__ + '>', getattr(v, '__qualname__', None) or getattr(v, 'pattern', None)]
        if _is_lib(v):
            if id(v) not in seen:
                seen.add(id(v))
                todo.append(v)
            return ['@', namer.name(v), type(v).__name__]
        # anything else (elementpath tokens / parsers / nodes, etree elements, decimals, dates ...)
        mod = getattr(type(v), '__module__', '')
        if mod in ('decimal', 'datetime', 'fractions') or mod.startswith('elementpath.datatypes'):
            return ['val', type(v).__name__, ADDR.sub('', repr(v))]
        return ['<' + mod + '.' + type(v).__name__ + '>']

    seen.add(id(root))
    while todo:
        o = todo.popleft()
        i = namer.name(o)
        cname = type(o).__name__
        names = list(getattr(o, '__dict__', {}).keys()) + _slots(type(o))
        for a in names:
            if a in skip_attrs:
                continue
            try:
                v = o.__dict__[a] if a in getattr(o, '__dict__', {}) else getattr(o, a)
            except AttributeError:
                out[f'{i}:{cname}.{a}'] = ['<unset>']
                continue
            out[f'{i}:{cname}.{a}'] = ref(v)
        if isinstance(o, (list, tuple, set, frozenset, dict)):       # library classes deriving from containers
            out[f'{i}:{cname}.<items>'] = ref(list(o.items()) if isinstance(o, dict) else
                                              (sorted(o, key=repr) if isinstance(o, (set, frozenset)) else list(o)))
    return out


def diff(a: dict, b: dict) -> dict:
    """attributes whose canonical value differs: key -> (before, after)"""
    d = {}
    for k in a.keys() | b.keys():
        if a.get(k, ['<absent>']) != b.get(k, ['<absent>']):
            d[k] = (a.get(k, ['<absent>']), b.get(k, ['<absent>']))
    return d
