"""
Schema family W of the C04 check: WILDCARDS x processContents x what the name resolves to.

The families T and N of lib_c04gen contain one attribute wildcard and one element wildcard, both
`namespace="##other" processContents="lax"`: the branches of XsdAnyAttribute.raw_decode /
XsdAnyElement.raw_decode that test the validation mode (a name admitted by a STRICT wildcard without
a global declaration, or of a namespace that cannot be loaded) are never reached.  Family W has

    carriers   ws  ##any   strict        wl  ##any  lax        wk  ##any  skip       wo  ##other strict
               (each with an attribute wildcard and an element wildcard)
    names      declared in the target namespace / in an imported namespace (value valid, value invalid)
               not declared in the target namespace / in the imported namespace   ("not found")
               of a namespace the schema does not know, and of no namespace       ("unavailable")
               not admitted by the namespace constraint (##other carriers)
    elements   additionally: declared complex element with valid / invalid content, xsi:type on an
               undeclared element (valid / invalid value, complex type with wildcard content)

Documents are valid instances (every item acceptable for its carrier) damaged by 0-3 items that
are errors for their carrier.  Everything is derived from the `random.Random` instance passed in.
"""
from __future__ import annotations

from typing import Optional

XSD_WK = '''<xs:schema xmlns:xs="http://www.w3.org/2001/XMLSchema" targetNamespace="urn:k" xmlns:k="urn:k"
    elementFormDefault="qualified">
 <xs:attribute name="ka" type="xs:int"/>
 <xs:element name="ke" type="xs:int"/>
 <xs:element name="kc"><xs:complexType><xs:sequence><xs:element name="n" type="xs:int" maxOccurs="2"/></xs:sequence>
   <xs:attribute name="u" type="xs:int"/></xs:complexType></xs:element>
</xs:schema>'''

XSD_W = '''<xs:schema xmlns:xs="http://www.w3.org/2001/XMLSchema" targetNamespace="urn:t" xmlns:t="urn:t"
    elementFormDefault="qualified">
 <xs:import namespace="urn:k" schemaLocation="%(WK)s"/>
 <xs:attribute name="ta" type="xs:int"/>
 <xs:element name="te" type="xs:int"/>
 <xs:complexType name="wsT"><xs:sequence>
   <xs:any namespace="##any" processContents="strict" minOccurs="0" maxOccurs="unbounded"/></xs:sequence>
   <xs:anyAttribute namespace="##any" processContents="strict"/></xs:complexType>
 <xs:complexType name="wlT"><xs:sequence>
   <xs:any namespace="##any" processContents="lax" minOccurs="0" maxOccurs="unbounded"/></xs:sequence>
   <xs:anyAttribute namespace="##any" processContents="lax"/></xs:complexType>
 <xs:complexType name="wkT"><xs:sequence>
   <xs:any namespace="##any" processContents="skip" minOccurs="0" maxOccurs="unbounded"/></xs:sequence>
   <xs:anyAttribute namespace="##any" processContents="skip"/></xs:complexType>
 <xs:complexType name="woT"><xs:sequence>
   <xs:any namespace="##other" minOccurs="0" maxOccurs="unbounded"/></xs:sequence>
   <xs:anyAttribute namespace="##other"/></xs:complexType>
 <xs:element name="box"><xs:complexType><xs:choice minOccurs="0" maxOccurs="unbounded">
   <xs:element name="ws" type="t:wsT"/><xs:element name="wl" type="t:wlT"/>
   <xs:element name="wk" type="t:wkT"/><xs:element name="wo" type="t:woT"/>
 </xs:choice></xs:complexType></xs:element>
</xs:schema>'''

WK_FILE = 'schema_W_k.xsd'


def xsd_text(v11: bool) -> str:
    return XSD_W % {'WK': WK_FILE}


XSD_NS = 'http://www.w3.org/2001/XMLSchema'
XSI_NS = 'http://www.w3.org/2001/XMLSchema-instance'
ROOT_NS = 'xmlns:p="urn:t" xmlns:k="urn:k" xmlns:o="urn:o"'
ROOT_NS_XSI = ROOT_NS + ' xmlns:xs="%s" xmlns:xsi="%s"' % (XSD_NS, XSI_NS)

CARRIERS = {'ws': 'strict', 'wl': 'lax', 'wk': 'skip', 'wo': 'other-strict'}

# (xml text, class, carriers for which the item is an ERROR)
ATTR_ITEMS = [
    ('p:ta="1"', 'declared(target) valid', {'wo'}),
    ('p:ta="x"', 'declared(target) invalid value', {'ws', 'wl', 'wo'}),
    ('k:ka="7"', 'declared(imported) valid', set()),
    ('k:ka="x"', 'declared(imported) invalid value', {'ws', 'wl', 'wo'}),
    ('p:zz="1"', 'not found(target)', {'ws', 'wo'}),
    ('k:zz="1"', 'not found(imported)', {'ws', 'wo'}),
    ('o:oa="1"', 'unavailable(unknown namespace)', {'ws', 'wo'}),
    ('plain="1"', 'unavailable(no namespace)', {'ws', 'wo'}),
]
ELEM_ITEMS = [
    ('<p:te>1</p:te>', 'declared(target) valid', {'wo'}, False),
    ('<p:te>x</p:te>', 'declared(target) invalid value', {'ws', 'wl', 'wo'}, False),
    ('<k:ke>5</k:ke>', 'declared(imported) valid', set(), False),
    ('<k:ke>x</k:ke>', 'declared(imported) invalid value', {'ws', 'wl', 'wo'}, False),
    ('<k:kc u="1"><k:n>1</k:n><k:n>2</k:n></k:kc>', 'declared(imported) complex valid', set(), False),
    ('<k:kc u="x"><k:n>y</k:n></k:kc>', 'declared(imported) complex invalid', {'ws', 'wl', 'wo'}, False),
    ('<p:zz>1</p:zz>', 'not found(target)', {'ws', 'wo'}, False),
    ('<k:zz/>', 'not found(imported)', {'ws', 'wo'}, False),
    ('<p:ws/>', 'not found(local name of the schema)', {'ws', 'wo'}, False),
    ('<o:oe><o:deep>1</o:deep></o:oe>', 'unavailable(unknown namespace)', {'ws', 'wo'}, False),
    ('<plain>1</plain>', 'unavailable(no namespace)', {'ws', 'wo'}, False),
    ('<o:oe xsi:type="xs:int">1</o:oe>', 'xsi:type valid', set(), True),
    ('<o:oe xsi:type="xs:int">x</o:oe>', 'xsi:type invalid value', {'ws', 'wl', 'wo'}, True),
    ('<k:zz xsi:type="p:wlT"><o:q/></k:zz>', 'xsi:type complex valid', set(), True),
    ('<k:zz xsi:type="p:wsT"><o:q/></k:zz>', 'xsi:type complex invalid', {'ws', 'wl', 'wo'}, True),
]


def gen_case_W(rng, v11: bool, nbad: Optional[int] = None, force: Optional[tuple] = None) -> dict:
    """One document.  `force` = (carrier, 'attr'|'elem', item index): a document whose only defect is that item."""
    if nbad is None:
        nbad = rng.choice([0, 0, 1, 1, 1, 2, 3])
    parts = []
    faults = []
    dims = []
    uses_xsi = False
    carriers = [rng.choice(list(CARRIERS)) for _ in range(rng.choice([1, 1, 2, 3, 4]))]
    if force:
        carriers[rng.randrange(len(carriers))] = force[0]
        nbad = 0
    bad_slots = set(rng.sample(range(len(carriers)), min(nbad, len(carriers)))) if nbad else set()
    forced_done = False
    for i, c in enumerate(carriers):
        attrs = []
        elems = []
        good_a = [x for x in ATTR_ITEMS if c not in x[2]]
        good_e = [x for x in ELEM_ITEMS if c not in x[2]]
        # distinct attribute names on one element
        seen = set()
        for _ in range(rng.choice([0, 1, 1, 2])):
            x = rng.choice(good_a)
            nm = x[0].split('=')[0]
            if nm not in seen:
                seen.add(nm)
                attrs.append(x)
        for _ in range(rng.choice([0, 1, 1, 2, 3])):
            elems.append(rng.choice(good_e))
        if force and c == force[0] and not forced_done:
            forced_done = True
            table = ATTR_ITEMS if force[1] == 'attr' else ELEM_ITEMS
            x = table[force[2]]
            if force[1] == 'attr':
                attrs = [a for a in attrs if a[0].split('=')[0] != x[0].split('=')[0]] + [x]
            else:
                elems.insert(rng.randint(0, len(elems)), x)
            if c in x[2]:
                faults.append('W %s %s %s' % (force[1], CARRIERS[c], x[1]))
        elif i in bad_slots:
            bad_a = [x for x in ATTR_ITEMS if c in x[2]]
            bad_e = [x for x in ELEM_ITEMS if c in x[2]]
            if c != 'wk' and (bad_a or bad_e):
                if bad_a and (not bad_e or rng.random() < 0.5):
                    x = rng.choice(bad_a)
                    attrs = [a for a in attrs if a[0].split('=')[0] != x[0].split('=')[0]] + [x]
                    faults.append('W attr %s %s' % (CARRIERS[c], x[1]))
                else:
                    x = rng.choice(bad_e)
                    elems.insert(rng.randint(0, len(elems)), x)
                    faults.append('W elem %s %s' % (CARRIERS[c], x[1]))
        for x in attrs:
            dims.append('attr:%s:%s' % (CARRIERS[c], x[1]))
        for x in elems:
            dims.append('elem:%s:%s' % (CARRIERS[c], x[1]))
            uses_xsi = uses_xsi or x[3]
        parts.append('<p:%s%s>%s</p:%s>' % (c, ''.join(' ' + a[0] for a in attrs), ''.join(e[0] for e in elems), c)
                     if elems else '<p:%s%s/>' % (c, ''.join(' ' + a[0] for a in attrs)))
    xml = '<p:box %s>%s</p:box>' % (ROOT_NS_XSI if uses_xsi else ROOT_NS, ''.join(parts))
    return {'family': 'W', 'style': 'prefix', 'v': '1.1' if v11 else '1.0', 'xml': xml, 'faults': faults,
            'prefix_dependent': uses_xsi, 'dims': dims}


def small_scope(rng, v11: bool) -> list[dict]:
    """Every (carrier, attribute item) and (carrier, element item) once, as the only possibly-bad item of a document."""
    out = []
    for c in CARRIERS:
        for i in range(len(ATTR_ITEMS)):
            out.append(gen_case_W(rng, v11, force=(c, 'attr', i)))
        for i in range(len(ELEM_ITEMS)):
            out.append(gen_case_W(rng, v11, force=(c, 'elem', i)))
    return out


# ------------------------------------------------------------------------------------------------
# family I (XSD 1.1 only): inheritable attributes.  XsdElement.raw_decode works on a COPY of the
# validation context below an element that carries an inheritable attribute (elements.py:713-723):
# whatever the descent accumulates in the context (errors of a lax run, ID map) must survive the copy.

XSD_I = '''<xs:schema xmlns:xs="http://www.w3.org/2001/XMLSchema">
 <xs:element name="top"><xs:complexType><xs:sequence>
   <xs:element name="a" type="xs:int" minOccurs="0" maxOccurs="unbounded"/>
   <xs:element name="sec" minOccurs="0" maxOccurs="unbounded"><xs:complexType><xs:sequence>
     <xs:element name="b" type="xs:int" minOccurs="0" maxOccurs="unbounded"/>
     <xs:element name="sub" minOccurs="0"><xs:complexType><xs:sequence>
       <xs:element name="c" type="xs:boolean" minOccurs="0" maxOccurs="unbounded"/></xs:sequence>
       <xs:attribute name="lang" type="xs:language" inheritable="true"/></xs:complexType></xs:element>
    </xs:sequence>
    <xs:attribute name="lang" type="xs:language" inheritable="true"/>
    <xs:attribute name="n" type="xs:int"/></xs:complexType></xs:element>
   <xs:element name="z" type="xs:int" minOccurs="0"/>
  </xs:sequence>
  <xs:attribute name="lang" type="xs:language" inheritable="true"/>
  <xs:attribute name="plain" type="xs:string"/></xs:complexType></xs:element>
</xs:schema>'''

I_BAD = ['none', 'a', 'b', 'c', 'z', 'n', 'lang', 'a+c', 'unexpected-child-in-sub']


def doc_I(mask: int, bad: str, rng=None) -> dict:
    """mask bit 0/1/2: the inheritable attribute is present on top / sec / sub"""
    def lang(bit: int, value: str = 'en') -> str:
        return ' lang="%s"' % value if mask & bit else ''
    bads = set(bad.split('+'))
    a2 = 'x' if 'a' in bads else '3'
    b = 'y' if 'b' in bads else '2'
    c = 'maybe' if 'c' in bads else 'true'
    z = '<z>%s</z>' % ('q' if 'z' in bads else '9')
    n = 'x' if 'n' in bads else '5'
    extra = '<d/>' if 'unexpected-child-in-sub' in bads else ''
    top_lang = lang(1, 'not a lang' if 'lang' in bads else 'en')
    xml = ('<top%s plain="p"><a>1</a><a>%s</a><sec%s n="%s"><b>%s</b><sub%s><c>%s</c>%s</sub></sec>%s</top>'
           % (top_lang, a2, lang(2, 'it'), n, b, lang(4, 'de'), c, extra, z))
    faults = [] if bad == 'none' else ['I bad ' + bad]
    where = '+'.join(w for bit, w in ((1, 'top'), (2, 'sec'), (4, 'sub')) if mask & bit) or 'nowhere'
    return {'family': 'I', 'style': 'prefix', 'v': '1.1', 'xml': xml, 'faults': faults, 'prefix_dependent': False,
            'idims': ['inheritable-present:' + where, 'error-at:' + bad]}


def small_scope_I() -> list[dict]:
    return [doc_I(mask, bad) for mask in range(8) for bad in I_BAD]


# ------------------------------------------------------------------------------------------------
# ROOT variants for every schema family: what the root element of the document is.
# The validation generator (XMLSchemaBase.iter_errors) and the decoding generator (iter_decode) each have their own
# copy of the look-up of the root declaration and of the xsi:type fallback for an undeclared root.

XS = 'xmlns:xs="%s" xmlns:xsi="%s"' % (XSD_NS, XSI_NS)

# family -> (namespace declarations of the root, prefix of the target namespace ('' = no namespace),
#            global elements [(qname, valid content)], types [(qname, kind, attrs, valid content, invalid content)],
#            local-only elements [(qname, content)])
ROOT_SPECS = {
    'T': ('xmlns:p="urn:t" xmlns:o="urn:o" ' + XS, 'p:',
          [('p:head', '<p:n>x</p:n>'), ('p:sub', '<p:n>x</p:n><p:extra>1</p:extra>'), ('p:asub', '<p:n>x</p:n>'),
           ('p:ahead', '<p:n>x</p:n>')],
          [('p:base', 'complex', '', '<p:n>x</p:n>', '<p:n></p:n>'), ('p:ext', 'complex', ' k="5"', '<p:n>x</p:n>', '<p:m/>'),
           ('p:absT', 'abstract', '', '<p:n>x</p:n>', '<p:n/>'), ('p:other', 'complex', '', '<p:q>s</p:q>', ''),
           ('p:small', 'simple', '', '5', '500'), ('p:code', 'simple', '', 'A', 'E'), ('p:ints', 'simple', '', '1 2', '1 x'),
           ('xs:int', 'builtin', '', '1', 'x'), ('p:nonexistent', 'unknown', '', 'x', 'x')],
          [('p:title', 'x'), ('p:item', '<p:price>1</p:price>')]),
    'N': (XS, '',
          [('doc', '<b>x</b>')],
          [('xs:int', 'builtin', '', '1', 'x'), ('xs:date', 'builtin', '', '2020-01-01', '2020-13-01'),
           ('xs:anyType', 'builtin', '', '<b>x</b>', None), ('nosuch', 'unknown', '', 'x', 'x')],
          [('b', 'x'), ('cfg', '<x>1</x>')]),
    'V': ('xmlns:p="urn:t" ' + XS, 'p:',
          [('p:reg', '<p:def id="a"/>'), ('p:regd', '<p:def id="a0"/>')],
          [('p:defT', 'complex', ' id="a"', '', None), ('p:defT', 'complex', '', None, ''),
           ('p:r1T', 'complex', ' id="a1"', '', None), ('p:r1T', 'complex', '', None, ''),
           ('p:nonexistent', 'unknown', '', '', '')],
          [('p:def', ''), ('p:r1', '')]),
    'W': (ROOT_NS + ' ' + XS, 'p:',
          [('p:box', '<p:wl/>'), ('p:te', '1'), ('k:ke', '5'), ('k:kc', '<k:n>1</k:n>')],
          [('p:wsT', 'complex', ' k:ka="1"', '<k:ke>5</k:ke>', '<p:zz/>'), ('p:wlT', 'complex', '', '<o:any/>', '<k:ke>x</k:ke>'),
           ('xs:int', 'builtin', '', '1', 'x'), ('k:nosuch', 'unknown', '', '', '')],
          [('p:ws', ''), ('k:n', '1')]),
    'Q': ('xmlns:p="urn:a" ' + XS, '',
          [('root', '<item code="p:x"/>')],
          [('qnames', 'simple', '', 'p:x p:y', 'p:x :y'), ('xs:QName', 'builtin', '', 'p:x', 'q:x'),
           ('nosuch', 'unknown', '', '', '')],
          [('item', ''), ('ref', '')]),
    'I': (XS, '',
          [('top', '<a>1</a>')],
          [('xs:boolean', 'builtin', '', 'true', 'maybe'), ('nosuch', 'unknown', '', '', '')],
          [('a', '1'), ('sec', '')]),
}


def root_cases(family: str) -> list[dict]:
    decls, tp, globals_, types, locals_ = ROOT_SPECS[family]
    out = []

    def case(xml: str, what: str, prefix_dependent: bool) -> None:
        out.append({'family': family, 'style': 'prefix', 'xml': xml, 'faults': ['ROOT ' + what],
                    'prefix_dependent': prefix_dependent or family == 'Q', 'rdims': [what]})

    def elem(name: str, attrs: str, content: str) -> str:
        return '<%s %s%s>%s</%s>' % (name, decls, attrs, content, name) if content else '<%s %s%s/>' % (name, decls, attrs)

    for name, content in globals_:
        case(elem(name, '', content), 'declared global element', False)
        case(elem(name, '', content + '<%sbogus/>' % tp), 'declared global element, invalid content', False)
    undeclared = tp + 'undeclared'
    for tname, kind, attrs, good, bad in types:
        for label, content in (('valid', good), ('invalid', bad)):
            if content is None:
                continue
            case(elem(undeclared, ' xsi:type="%s"%s' % (tname, attrs), content),
                 'undeclared root with xsi:type (%s type, %s content)' % (kind, label), True)
    case(elem(undeclared, '', 'x'), 'undeclared root without xsi:type', False)
    for name, content in locals_:
        case(elem(name, '', content), 'root is a local-only element name', False)
        t = types[0]
        case(elem(name, ' xsi:type="%s"%s' % (t[0], t[2]), t[3] or ''), 'local-only element name with xsi:type', True)
    # another namespace / no namespace
    t = types[0]
    other = 'zz:alien'
    odecl = ' xmlns:zz="urn:zz"'
    case(elem(other, odecl, 'x'), 'root in a namespace unknown to the schema', False)
    case(elem(other, odecl + ' xsi:type="%s"%s' % (t[0], t[2]), t[3] or ''),
         'root in an unknown namespace with xsi:type', True)
    if tp:
        case(elem('undeclared', '', 'x'), 'root in no namespace (schema has a target namespace)', False)
        case(elem('undeclared', ' xsi:type="%s"%s' % (t[0], t[2]), t[3] or ''),
             'root in no namespace with xsi:type', True)
    return out
