-- Root of the `XsVerif` library.  Models and drivers are Mathlib-free; Lemmas/Props may import
-- single Mathlib modules.  (Per-property Props/Audit/Driver modules are built by their checks.)
import XsVerif.Basic
import XsVerif.Model.Wildcard
import XsVerif.Model.Rx
import XsVerif.Model.Particle
import XsVerif.Model.Visitor
import XsVerif.Lemmas.Fresh
import XsVerif.Lemmas.Rx
import XsVerif.Props.C01
import XsVerif.Props.C16
