-- Root of the `XsVerif` library.  Models are Mathlib-free; Props/Lemmas may import single
-- Mathlib modules.
import XsVerif.Basic
import XsVerif.Model.Wildcard
