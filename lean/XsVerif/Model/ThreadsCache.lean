/-
  C18 — the caches and the scratch context shared by the threads that use one schema object, STATEMENT
  granularity.

  A. every memoised function of the library (the table is regenerated from the source by the harness on every
     run: harness/props/c18.py `scan_caches`) has one of these shapes, all instances of ONE machine:

       functools.cached_property.__get__ (3.12)    val = cache.get(name, _NOT_FOUND)          -- look
                                                    if val is _NOT_FOUND:
                                                        val = self.func(instance)              -- compute
                                                        cache[name] = val                      -- store
                                                    return val
       caching.py:40-46  SchemaCache.__call__       self._caches[func](*args)  = functools.lru_cache wrapper:
                                                    look (C, atomic) / call of func = compute / store (C, atomic)
                                                    lru eviction (maxsize) = `evict`, by any thread at any time
       caching.py:79-84  SchemaCache.clear          cache_clear() of every cache                -- clear
       validators/schemas.py:838-841  clear         self.__dict__.pop(attr, None) per cached property = evict
       validators/xsd_globals.py:192-199 __setattr__('_built'): self.__dict__.clear()           -- clear
       caching.py:146-151 schema_cached_property    `elif not validator.maps.built: return self.func(validator)`
                                                    = direct (no cache), else the lru shape

     Trusted: a single dict `get` / `__setitem__` / `pop` / `clear` and the C part of an lru_cache call are atomic.

  B. the per-schema scratch `validation_context` (validators/schemas.py:909-915) used by `text_decode` /
     `text_is_valid` without a context (validators/simple_types.py:465-483), for the worst case of a restriction
     with pattern facets of a union type (simple_types.py:1463-1464 pushes the patterns, 1182-1183 pops them),
     validation.py:198-207 `clear()`.

  Threads are numbered by `Nat`; a schedule is a list of thread numbers.  No Mathlib.
-/
import XsVerif.Model.Threads

namespace XsVerif.Threads.Cache

/-! ### A. one machine for every memo cache -/

abbrev Store (K V : Type) := K → Option V

def put {K V : Type} [DecidableEq K] (k : K) (v : V) (s : Store K V) : Store K V :=
  fun x => if x = k then some v else s x

def del {K V : Type} [DecidableEq K] (k : K) (s : Store K V) : Store K V :=
  fun x => if x = k then none else s x

def empty {K V : Type} : Store K V := fun _ => none

inductive Op (K : Type) where
  | call (k : K)        -- a call of the memoised function through its cache
  | direct (k : K)      -- a call that bypasses the cache (schema_cached_property while not built, disabled cache)
  | clear               -- cache_clear() / __dict__.clear()
  | evict (k : K)       -- lru eviction / __dict__.pop(name, None)

inductive PC (K V : Type) where
  | idle
  | look (k : K)
  | compute (k : K) (cached : Bool)
  | store (k : K) (v : V)

structure Th (K V : Type) where
  ops : List (Op K)
  pc : PC K V
  rets : List (K × V)      -- what the calls of this thread returned, in order

structure Cfg (K V : Type) where
  memo : Store K V
  th : Nat → Th K V

def stepTh {K V : Type} [DecidableEq K] (f : K → V) (m : Store K V) (th : Th K V) : Store K V × Th K V :=
  match th.pc with
  | .idle =>
    match th.ops with
    | [] => (m, th)
    | .call k :: r => (m, { th with ops := r, pc := .look k })
    | .direct k :: r => (m, { th with ops := r, pc := .compute k false })
    | .clear :: r => (empty, { th with ops := r })
    | .evict k :: r => (del k m, { th with ops := r })
  | .look k =>
    match m k with
    | some v => (m, { th with pc := .idle, rets := th.rets ++ [(k, v)] })
    | none => (m, { th with pc := .compute k true })
  | .compute k cached =>
    if cached then (m, { th with pc := .store k (f k) })
    else (m, { th with pc := .idle, rets := th.rets ++ [(k, f k)] })
  | .store k v => (put k v m, { th with pc := .idle, rets := th.rets ++ [(k, v)] })

def step {K V : Type} [DecidableEq K] (f : K → V) (t : Nat) (c : Cfg K V) : Cfg K V :=
  let r := stepTh f c.memo (c.th t)
  { memo := r.1, th := upd c.th t r.2 }

def exec {K V : Type} [DecidableEq K] (f : K → V) : List Nat → Cfg K V → Cfg K V
  | [], c => c
  | t :: ts, c => exec f ts (step f t c)

def init {K V : Type} (m₀ : Store K V) (prog : Nat → List (Op K)) : Cfg K V :=
  { memo := m₀, th := fun t => { ops := prog t, pc := .idle, rets := [] } }

/-- the keys a program asks for, in order -/
def calls {K : Type} : List (Op K) → List K
  | [] => []
  | .call k :: r => k :: calls r
  | .direct k :: r => k :: calls r
  | _ :: r => calls r

def PC.isIdle {K V : Type} : PC K V → Bool
  | .idle => true
  | _ => false

def Th.finished {K V : Type} (th : Th K V) : Bool := th.ops.isEmpty && th.pc.isIdle

/-- the writes of a deterministic function, as a fold (order = the order in which the stores happen) -/
def puts {K V : Type} [DecidableEq K] (f : K → V) (l : List K) (s : Store K V) : Store K V :=
  l.foldl (fun s k => put k (f k) s) s

/-! ### B. the scratch validation context -/

structure Scratch where
  patterns : Option Nat      -- `context.patterns` (the pushed pattern facets object)
  errors : Nat               -- `len(context.errors)`
  deriving DecidableEq, Repr

/-- one use of the scratch context by `text_decode(text)` (`lax = false`, validation='skip') or
    `text_is_valid(text)` (`lax = true`) of a simple type -/
structure SUser where
  lax : Bool
  pat : Option Nat           -- the pattern facets of the type (none: the type has none / is not a union)
  val : Nat                  -- the value the member types decode: a pure function of (type, text)
  rej : Nat → Bool           -- which pattern objects reject the text

inductive SPC where
  | clrErr                   -- clear(): self.errors.clear()
  | clrPat                   -- clear(): … self.patterns = None
  | rdPat                    -- restriction: `elif context.patterns is None:`
  | pushPat                  -- `context.patterns = self.patterns`
  | popRd                    -- union: `patterns = context.patterns`
  | popClr (got : Option Nat)   -- `context.patterns = None`
  | check (got : Option Nat)    -- `if patterns …: patterns(…)`; a failure is collected only in lax mode
  | rdErr                    -- text_is_valid: `return not self.schema.validation_context.errors`
  | fin (v : Nat) (ok : Bool)
  deriving DecidableEq, Repr

structure SCfg where
  sc : Scratch
  pc : Nat → SPC

def sstep (user : Nat → SUser) (t : Nat) (c : SCfg) : SCfg :=
  let u := user t
  match c.pc t with
  | .clrErr => { sc := { c.sc with errors := 0 }, pc := upd c.pc t .clrPat }
  | .clrPat => { sc := { c.sc with patterns := none }, pc := upd c.pc t .rdPat }
  | .rdPat =>
    if u.pat.isSome && c.sc.patterns.isNone then { c with pc := upd c.pc t .pushPat }
    else { c with pc := upd c.pc t .popRd }
  | .pushPat => { sc := { c.sc with patterns := u.pat }, pc := upd c.pc t .popRd }
  | .popRd => { c with pc := upd c.pc t (.popClr c.sc.patterns) }
  | .popClr got => { sc := { c.sc with patterns := none }, pc := upd c.pc t (.check got) }
  | .check got =>
    let failed := match got with
      | some p => u.rej p
      | none => false
    if u.lax then
      { sc := { c.sc with errors := if failed then c.sc.errors + 1 else c.sc.errors }, pc := upd c.pc t .rdErr }
    else { c with pc := upd c.pc t (.fin u.val true) }
  | .rdErr => { c with pc := upd c.pc t (.fin u.val (c.sc.errors == 0)) }
  | .fin _ _ => c

def sexec (user : Nat → SUser) : List Nat → SCfg → SCfg
  | [], c => c
  | t :: ts, c => sexec user ts (sstep user t c)

def sinit (sc : Scratch) : SCfg := { sc := sc, pc := fun _ => .clrErr }

/-- what the call returns when nobody else touches the scratch context -/
def SUser.expected (u : SUser) : Bool :=
  match u.pat with
  | some p => !u.rej p
  | none => true

/-! ### C. the evaluation context of an XPath test: a mutable cell written and then read by every call

    validators/facets.py:901-909  XsdAssertionFacet.__call__:
        context = XPathContext(self._root, variables={'value': value})     -- store (into the call's OWN context)
        self.token.evaluate(context)                                       -- … elementpath … read of $value
    and the same shape at every site of the regenerated table of XPath evaluation sites (assertions.py:135-143,
    elements.py type alternatives, identities.py selectors and fields).  `shared = false`: the context is built by
    the call (the code as it is).  `shared = true`: one context object for all calls (a class attribute, a module
    global, an attribute of a schema component): the `scratch_lax_race` shape.  `gap` = number of statements
    between the store and the read (inside elementpath). -/

inductive XPC where
  | idle
  | store (v : Nat)
  | eval (k : Nat)        -- k statements of the token evaluation left before the variable is read
  | read
  deriving DecidableEq, Repr

structure XTh where
  vals : List Nat          -- the values this thread validates, one call each
  pc : XPC
  res : List Nat           -- what the test was evaluated on, call by call

structure XCfg where
  cell : Nat → Nat         -- cell 0 = the shared context; cell (t + 1) = the context of thread t's current call
  th : Nat → XTh

def xstep (shared : Bool) (gap : Nat) (t : Nat) (c : XCfg) : XCfg :=
  let th := c.th t
  let slot := if shared then 0 else t + 1
  match th.pc with
  | .idle =>
    match th.vals with
    | [] => c
    | v :: r => { c with th := upd c.th t { th with vals := r, pc := .store v } }
  | .store v => { cell := upd c.cell slot v, th := upd c.th t { th with pc := .eval gap } }
  | .eval (k + 1) => { c with th := upd c.th t { th with pc := .eval k } }
  | .eval 0 => { c with th := upd c.th t { th with pc := .read } }
  | .read => { c with th := upd c.th t { th with pc := .idle, res := th.res ++ [c.cell slot] } }

def xexec (shared : Bool) (gap : Nat) : List Nat → XCfg → XCfg
  | [], c => c
  | t :: ts, c => xexec shared gap ts (xstep shared gap t c)

def xinit (vals : Nat → List Nat) : XCfg :=
  { cell := fun _ => 0, th := fun t => { vals := vals t, pc := .idle, res := [] } }

def XTh.finished (th : XTh) : Bool := th.vals.isEmpty && th.pc == .idle

end XsVerif.Threads.Cache
