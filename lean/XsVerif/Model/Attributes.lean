/-
  Model of attribute-set validation and decoding:

    xmlschema/validators/attributes.py
        XsdAttributeGroup.raw_decode            (667-747)
        XsdAttributeGroup.iter_required         (638-642)
        XsdAttributeGroup.iter_value_constraints(644-656)
        XsdAttribute.raw_decode                 (241-294, decision part: fixed / type validity)
    xmlschema/validators/wildcards.py
        XsdAnyAttribute.raw_decode              (712-738)
        Xsd11AnyAttribute.is_matching           (867-888)   (via Wildcard.allows)

  No Mathlib import: this file is linked into the native driver.

  Representation.  `_attribute_group` is an insertion-ordered dict `name -> XsdAttribute` plus the
  key `None -> XsdAnyAttribute`; here: `decls` (in dict order, names distinct) and `any`.
  Instance attributes (`obj`, a dict in document order) are a list of `(name, value)`.
  Names are expanded names `QN` (the Python strings '{ns}local' / 'local').
  Simple-type validity and value-space equality are parameters (`Sem`): they belong to C02.

  `Opts.legacy = false` IS the port of the code as it is now (fix commits 9474062 and 365354e): a
  `use="prohibited"` declaration corresponds to no attribute use at all — it injects no fixed/default
  value (attributes.py:637-652) and an attribute that meets it is admitted only through the attribute
  wildcard, under the wildcard's processContents (attributes.py:709-719).  Every property theorem is
  about `legacy = false`.
  `Opts.legacy = true` selects the step as it was BEFORE those commits (finding C03-F1, fixed): the
  "prohibited" error was skipped when the declaration carried `fixed`, a prohibited attribute admitted
  by the wildcard was validated against the prohibited declaration, and the fixed/default value of a
  prohibited declaration was injected.  It is kept only so that the two `_counterexample` theorems of
  Props/C03.lean can state what the old step did (the field is also read by the C14 model, which uses
  `legacy = false` only).
  Concrete simple-type semantics for the catalogue of the run: Model/AttrTypes.lean; attribute groups
  of derived complex types, group composition, XSD 1.1 default attributes, ID uses: Model/AttrDeriv.lean.
-/
import XsVerif.Model.Wildcard

namespace XsVerif.Attributes
open XsVerif.Wildcard

inductive Use where | optional | required | prohibited
  deriving DecidableEq, Repr, Inhabited

/-- An attribute declaration / attribute use as built (`XsdAttribute`). -/
structure Decl where
  name : QN
  use : Use := .optional
  fixed : Option String := none
  dflt : Option String := none
  ty : Nat                      -- index into the simple-type catalogue
  sameSchema : Bool := true     -- globals only: `xsd_attribute.schema is wildcard.schema` (##defined)
  deriving Repr, Inhabited

/-- `XsdAnyAttribute`: namespace constraint + processContents. -/
structure AnyAttr where
  wc : Wc
  pc : PC
  deriving Repr, Inhabited

structure Group where
  decls : List Decl
  any : Option AnyAttr
  deriving Repr, Inhabited

/-- Simple-type semantics (parameters of every theorem; tables in the driver). -/
structure Sem where
  validT : Nat → String → Bool                -- `type.raw_decode` collects no error
  valueEq : Nat → String → String → Bool      -- `text_decode a == text_decode b`

/-- The global maps seen by the decoder. -/
structure Env where
  globals : List Decl           -- `maps.attributes`
  loaded : List String          -- `maps.namespaces` (`load_namespace` succeeds)
  deriving Repr, Inhabited

structure Opts where
  useDefaults : Bool := true
  fillMissing : Bool := false
  legacy : Bool := false

inductive Err where
  | missing (n : QN)            -- "missing required attribute"
  | notAllowed (n : QN)         -- "attribute not allowed for element"
  | notXsi (n : QN)             -- "is not an attribute of the XSI namespace"
  | prohibited (n : QN)         -- "use of attribute is prohibited"
  | fixedMismatch (n : QN)      -- "attribute has a fixed value"
  | invalidValue (n : QN)       -- simple type rejected the value
  | wildcardDenied (n : QN)     -- anyAttribute: "attribute not allowed"
  | notFound (n : QN)           -- anyAttribute strict: "attribute not found"
  | unavailableNs (n : QN)      -- anyAttribute strict: "unavailable namespace"
  deriving DecidableEq, Repr, Inhabited

/-- How a decoded item obtains its value. -/
inductive Src where
  | typed (ty : Nat) (raw : String)   -- decoded by simple type `ty` from `raw`
  | raw (s : String)                  -- wildcard without declaration: the string itself
  | nil                               -- `fill_missing`: `None`
  deriving DecidableEq, Repr, Inhabited

abbrev Attr := QN × String
abbrev Item := QN × Src

/-- dict lookup `self._attribute_group[name]` / `maps.attributes[name]`. -/
def lookup (l : List Decl) (n : QN) : Option Decl := l.find? fun d => d.name == n

/-- `name in obj`. -/
def present (A : List Attr) (n : QN) : Bool := A.any fun a => a.1 == n

/-- `XsdAttribute.raw_decode` with a value (attributes.py:258-271): errors. -/
def declErrs (s : Sem) (d : Decl) (n : QN) (v : String) : List Err :=
  (match d.fixed with
    | some f => if v != f && !s.valueEq d.ty v f then [Err.fixedMismatch n] else []
    | none => [])
  ++ (if s.validT d.ty v then [] else [Err.invalidValue n])

/-- `##defined` of an attribute wildcard (wildcards.py:845-851). -/
def isDefined (env : Env) (q : QN) : Bool :=
  match lookup env.globals q with
  | some g => g.sameSchema
  | none => false

/-- `Xsd11AnyAttribute.is_matching(name)` (for 1.0 wildcards the 1.1 fields are empty). -/
def anyMatches (env : Env) (a : AnyAttr) (n : QN) : Bool :=
  allows a.wc (isDefined env) (fun _ => false) n

/-- `XsdAnyAttribute.raw_decode` (wildcards.py:669-695), validation mode 'lax'. -/
def anyErrs (s : Sem) (env : Env) (a : AnyAttr) (n : QN) (v : String) : List Err :=
  (if anyMatches env a n then [] else [Err.wildcardDenied n]) ++
  (if a.pc == .skip then []
   else if env.loaded.contains n.ns then
     match lookup env.globals n with
     | some g => declErrs s g n v
     | none => if a.pc == .strict then [Err.notFound n] else []
   else if a.pc == .strict then [Err.unavailableNs n] else [])

def anyItem (env : Env) (a : AnyAttr) (n : QN) (v : String) : Option Item :=
  if a.pc == .skip then none
  else if env.loaded.contains n.ns then
    match lookup env.globals n with
    | some g => some (n, .typed g.ty v)
    | none => some (n, .raw v)
  else some (n, .raw v)

/-- Loop body of `XsdAttributeGroup.raw_decode` for a name found in the group
    (attributes.py:708-713). -/
def declaredErrs (s : Sem) (env : Env) (o : Opts) (G : Group) (d : Decl) (n : QN) (v : String) :
    List Err :=
  if d.use == .prohibited then
    match G.any with
    | some a =>
      if anyMatches env a n then (if o.legacy then declErrs s d n v else anyErrs s env a n v)
      else (if o.legacy && d.fixed.isSome then [] else [Err.prohibited n]) ++ declErrs s d n v
    | none => (if o.legacy && d.fixed.isSome then [] else [Err.prohibited n]) ++ declErrs s d n v
  else declErrs s d n v

def declaredItem (env : Env) (o : Opts) (G : Group) (d : Decl) (n : QN) (v : String) :
    Option Item :=
  if d.use == .prohibited && !o.legacy then
    match G.any with
    | some a => if anyMatches env a n then anyItem env a n v else some (n, .typed d.ty v)
    | none => some (n, .typed d.ty v)
  else some (n, .typed d.ty v)

/-- One iteration of the loop of `XsdAttributeGroup.raw_decode` (attributes.py:686-717): errors. -/
def stepErrs (s : Sem) (env : Env) (o : Opts) (G : Group) (a : Attr) : List Err :=
  match lookup G.decls a.1 with
  | some d => declaredErrs s env o G d a.1 a.2
  | none =>
    if a.1.ns == xsiNs then
      match lookup env.globals a.1 with
      | some g => declErrs s g a.1 a.2
      | none =>
        match G.any with
        | some w => anyErrs s env w a.1 a.2
        | none => [Err.notXsi a.1]
    else
      match G.any with
      | some w => anyErrs s env w a.1 a.2
      | none => [Err.notAllowed a.1]

/-- One iteration: the decoded item (none = `continue` or `Empty`). -/
def stepItem (env : Env) (o : Opts) (G : Group) (a : Attr) : Option Item :=
  match lookup G.decls a.1 with
  | some d => declaredItem env o G d a.1 a.2
  | none =>
    if a.1.ns == xsiNs then
      match lookup env.globals a.1 with
      | some g => some (a.1, .typed g.ty a.2)
      | none =>
        match G.any with
        | some w => anyItem env w a.1 a.2
        | none => none
    else
      match G.any with
      | some w => anyItem env w a.1 a.2
      | none => none

/-- The value a declaration contributes for an absent attribute
    (`iter_value_constraints`, attributes.py:637-648). -/
def constraintOf (o : Opts) (d : Decl) : Option String :=
  if d.use == .prohibited && !o.legacy then none
  else match d.fixed with
    | some f => some f
    | none => if o.useDefaults then d.dflt else none

/-- `additional_attrs` (attributes.py:669-672). -/
def additional (o : Opts) (G : Group) (A : List Attr) : List Attr :=
  G.decls.filterMap fun d =>
    if present A d.name then none else (constraintOf o d).map fun v => (d.name, v)

/-- "missing required attribute" errors (attributes.py:665-667). -/
def missing (G : Group) (A : List Attr) : List Err :=
  (G.decls.filter fun d => d.use == .required && !present A d.name).map fun d => Err.missing d.name

/-- `obj` after `obj.update(additional_attrs)`. -/
def augmented (o : Opts) (G : Group) (A : List Attr) : List Attr := A ++ additional o G A

/-- All validation errors of `XsdAttributeGroup.raw_decode`, in the order they are collected. -/
def errors (s : Sem) (env : Env) (o : Opts) (G : Group) (A : List Attr) : List Err :=
  missing G A ++ (augmented o G A).flatMap (stepErrs s env o G)

/-- `fill_missing` without a filler (attributes.py:722-727). -/
def filled (o : Opts) (G : Group) (A : List Attr) : List Item :=
  if o.fillMissing then
    (G.decls.filter fun d => !present (augmented o G A) d.name).map fun d => (d.name, Src.nil)
  else []

/-- The decoded attribute list (the `result` of `XsdAttributeGroup.raw_decode`). -/
def decoded (env : Env) (o : Opts) (G : Group) (A : List Attr) : List Item :=
  (augmented o G A).filterMap (stepItem env o G) ++ filled o G A

end XsVerif.Attributes
