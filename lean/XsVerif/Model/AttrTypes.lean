/-
  Concrete simple-type semantics for the attribute types of the C03 correspondence run (the `Sem`
  parameter of Model/Attributes.lean instantiated):

      0 xs:int   1 xs:decimal   2 xs:string   3 xs:boolean   4 xs:token
      5 t:small (xs:int, maxInclusive 5)   6 xs:anySimpleType   7 xs:QName   8 t:ints (list of xs:int)

  What `XsdAttribute.raw_decode` (attributes.py:241-294) asks of the type:
    * `self.type.raw_decode(obj, validation, context)` collects no error            → `validLex`
    * `self.type.text_decode(obj, context=context) != self.type.text_decode(self.fixed)`
      — `text_decode` decodes with validation='skip' (simple_types.py:465-470), i.e.
      `XsdAtomicBuiltin.raw_decode` returns `to_python(normalize(obj))` or, when that raises, the
      normalised text itself (simple_types.py:712-716); `XsdList.raw_decode` splits the collapsed text
      and skip-decodes every chunk (simple_types.py:991-1019)                       → `skipDecode`, `SV.pyEq`
    * the value handed to the converter (attributes.py:273-294)                     → `decodedVal`

  The primitives (white-space collapse, integer / decimal literals, Decimal equality) are those of the
  C02 model (Model/Datatypes.lean), imported, not copied.  QName: lexical form over ASCII names only
  (the run generates ASCII); the prefix must be bound in the namespace context of the instance
  (simple_types.py:746-762).  In skip mode a QName is NOT resolved (post_decode is not reached,
  simple_types.py:712-716): the fixed-value test of a QName compares the collapsed lexical forms —
  finding C03-F3; the value-space reading is `qnameValue` / `Props.C03Types.SameValue`.
  No Mathlib import: linked into `drv_c03`.
-/
import XsVerif.Model.Attributes
import XsVerif.Model.Datatypes

namespace XsVerif.AttrTypes
open XsVerif.Wildcard XsVerif.Attributes XsVerif.Datatypes

inductive CatTy where
  | int | decimal | string | boolean | token | small | anySimple | qname | intList
  deriving DecidableEq, Repr, Inhabited

/-- catalogue index used by the harness -/
def CatTy.ofIdx : Nat → Option CatTy
  | 0 => some .int | 1 => some .decimal | 2 => some .string | 3 => some .boolean | 4 => some .token
  | 5 => some .small | 6 => some .anySimple | 7 => some .qname | 8 => some .intList | _ => none

def CatTy.toIdx : CatTy → Nat
  | .int => 0 | .decimal => 1 | .string => 2 | .boolean => 3 | .token => 4
  | .small => 5 | .anySimple => 6 | .qname => 7 | .intList => 8

/-- `normalize` of a type whose whiteSpace is collapse (simple_types.py:447-463) -/
abbrev coll (s : Str) : Str := wsCollapse isXmlWs s

/-- atomic Python values that occur -/
inductive AV where
  | int (i : Int) | dec (d : Dec) | bool (b : Bool) | str (s : Str)
  deriving DecidableEq, Repr, Inhabited

/-- a skip-decoded value: atomic, or the list built by `XsdList.raw_decode` -/
inductive SV where
  | atom (a : AV) | list (l : List AV)
  deriving DecidableEq, Repr, Inhabited

/-- Python `==` on the values one catalogue type can produce (a type yields its own value kind or,
    when `to_python` raised, the text: `3 == 'x'` is False) -/
def AV.pyEq : AV → AV → Bool
  | .int a, .int b => a == b
  | .dec a, .dec b => a.eqv b
  | .bool a, .bool b => a == b
  | .str a, .str b => a == b
  | _, _ => false

def listPyEq : List AV → List AV → Bool
  | [], [] => true
  | a :: as, b :: bs => a.pyEq b && listPyEq as bs
  | _, _ => false

def SV.pyEq : SV → SV → Bool
  | .atom a, .atom b => a.pyEq b
  | .list a, .list b => listPyEq a b
  | _, _ => false

/-- `boolean_to_python` (helpers.py:283-287): XSD_BOOLEAN_MAP -/
def boolOf (t : Str) : Option Bool :=
  if t = ['t', 'r', 'u', 'e'] ∨ t = ['1'] then some true
  else if t = ['f', 'a', 'l', 's', 'e'] ∨ t = ['0'] then some false
  else none

/-- xs:int in skip mode on a normalised text -/
def intSkip (t : Str) : AV := match parseInt t with | some i => .int i | none => .str t

def decSkip (t : Str) : AV := match parseDec t with | some d => .dec d | none => .str t

def boolSkip (t : Str) : AV := match boolOf t with | some b => .bool b | none => .str t

/-- `type.text_decode(text)` (validation='skip') -/
def skipDecode : CatTy → Str → SV
  | .int, s => .atom (intSkip (coll s))
  | .small, s => .atom (intSkip (coll s))
  | .decimal, s => .atom (decSkip (coll s))
  | .string, s => .atom (.str s)
  | .anySimple, s => .atom (.str s)
  | .token, s => .atom (.str (coll s))
  | .qname, s => .atom (.str (coll s))
  | .boolean, s => .atom (boolSkip (coll s))
  | .intList, s => .list ((words isXmlWs (coll s)).map intSkip)

/-! ### QName -/

/-- namespace bindings in scope: prefix ↦ URI (`''` ↦ default namespace) -/
abbrev NsCtx := List (String × String)

def NsCtx.find (c : NsCtx) (p : Str) : Option String :=
  (c.find? fun b => b.1.toList == p).map (·.2)

def isNameStart (c : Char) : Bool := c.isAlpha || c == '_'
def isNameChar (c : Char) : Bool := c.isAlphanum || c == '_' || c == '-' || c == '.'
/-- NCName over ASCII -/
def isNcName : Str → Bool
  | [] => false
  | c :: cs => isNameStart c && cs.all isNameChar

/-- text before the first ':' and (when there is a ':') the text after it -/
def splitColon (t : Str) : Str × Option Str :=
  (t.takeWhile (· != ':'), match t.dropWhile (· != ':') with | [] => none | _ :: r => some r)

/-- (prefix?, local part) of a lexically valid QName (`QName.pattern`, ASCII) -/
def qnameParts (t : Str) : Option (Option Str × Str) :=
  match splitColon t with
  | (l, none) => if isNcName l then some (none, l) else none
  | (p, some l) => if isNcName p && isNcName l then some (some p, l) else none

/-- lax `raw_decode` of xs:QName collects no error (qname_validator + "unmapped prefix",
    simple_types.py:737-762) -/
def qnameOk (c : NsCtx) (t : Str) : Bool :=
  match qnameParts t with
  | none => false
  | some (none, _) => true
  | some (some p, _) => (c.find p).isSome

/-- the value of a QName literal: (namespace name, local part); an unprefixed name takes the default
    namespace of the context -/
def qnameValue (c : NsCtx) (t : Str) : Option (String × Str) :=
  match qnameParts t with
  | none => none
  | some (none, l) => some ((c.find []).getD "", l)
  | some (some p, l) => (c.find p).map fun ns => (ns, l)

/-! ### validity -/

def intOk (t : Str) : Bool := match parseInt t with | some i => FnV.int.intOk i | none => false

/-- lax `type.raw_decode(text)` collects no error; `c` = `context.namespaces` -/
def validLex (c : NsCtx) : CatTy → Str → Bool
  | .int, s => intOk (coll s)
  | .small, s => match parseInt (coll s) with | some i => FnV.int.intOk i && decide (i ≤ 5) | none => false
  | .decimal, s => (parseDec (coll s)).isSome
  | .string, _ => true
  | .anySimple, _ => true
  | .token, _ => true
  | .boolean, s => (boolOf (coll s)).isSome
  | .qname, s => qnameOk c (coll s)
  | .intList, s => (words isXmlWs (coll s)).all intOk

/-- the semantics handed to the attribute-group model: `inst` = namespace context of the instance
    element.  (The fixed value of the schema is skip-decoded without any context, as the code does.) -/
def semCat (inst : NsCtx) : Sem where
  validT t x := match CatTy.ofIdx t with | some ty => validLex inst ty x.toList | none => false
  valueEq t a b :=
    match CatTy.ofIdx t with
    | some ty => (skipDecode ty a.toList).pyEq (skipDecode ty b.toList)
    | none => a == b

/-! ### the two variants of the fixed-value test (finding C03-F3 / its repair) -/

/-- `get_extended_qname(qname, namespaces)` (utils/qnames.py:124-154): the expanded name as TEXT
    (`{uri}local`), or the literal itself when it cannot be resolved -/
def extQ (c : NsCtx) (t : Str) : Str :=
  if c.isEmpty then t
  else if t.isEmpty then t
  else if t.head? == some '{' then t
  else
    match splitColon t with           -- `qname.split(':', 1)`
    | (_, none) =>
      match c.find [] with
      | some d => if d.isEmpty then t else '{' :: d.toList ++ '}' :: t
      | none => t
    | (p, some name) =>
      match c.find p with
      | some uri => if uri.isEmpty then name else '{' :: uri.toList ++ '}' :: name
      | none => t

/-- the catalogue types whose value space depends on the namespace context (`type.is_qname()`), when the tree
    under test has the repair; no type before it -/
def qStrict (byValue : Bool) : Nat → Bool := fun t => byValue && t == CatTy.qname.toIdx

/-- the catalogue semantics in both variants.  `byValue = false`: the code before the repair (`semCat`).
    `byValue = true`: `XsdAttribute._is_fixed_value` compares xs:QName values as expanded names, the instance
    literal resolved with `inst` (context.namespaces), the fixed literal with `schema` (schema.namespaces). -/
def semCatV (byValue : Bool) (inst schema : NsCtx) : Sem where
  validT t x := match CatTy.ofIdx t with | some ty => validLex inst ty x.toList | none => false
  valueEq t a b :=
    match CatTy.ofIdx t with
    | some ty =>
      if byValue && ty == .qname then extQ inst (coll a.toList) == extQ schema (coll b.toList)
      else (skipDecode ty a.toList).pyEq (skipDecode ty b.toList)
    | none => a == b

/-! ### the decoded value (attributes.py:273-294 on a default DecodeContext) -/

/-- what the converter receives for one item -/
inductive DV where
  | none                       -- `None` (decode error)
  | int (i : Int) | dec (d : Dec) | bool (b : Bool) | str (s : Str)
  | list (l : List (Option Int))
  deriving DecidableEq, Repr, Inhabited

/-- xs:QName: the resolved `{ns}local` is replaced by the ORIGINAL text `obj` (attributes.py:282-283);
    an unresolved name stays the normalised text -/
def qnameDecoded (c : NsCtx) (raw : Str) : Str :=
  let t := coll raw
  match splitColon t with
  | (_, none) => match c.find [] with
    | some d => if d.isEmpty then t else raw
    | none => t
  | (p, some l) => if l.contains ':' then t else match c.find p with
    | some _ => raw
    | none => t

def decodedVal (c : NsCtx) : CatTy → Str → DV
  | .int, s => match parseInt (coll s) with | some i => .int i | none => .none
  | .small, s => match parseInt (coll s) with | some i => .int i | none => .none
  | .decimal, s => match parseDec (coll s) with | some d => .dec d | none => .none
  | .string, s => .str s
  | .anySimple, s => .str s
  | .token, s => .str (coll s)
  | .boolean, s => match boolOf (coll s) with | some b => .bool b | none => .none
  | .qname, s => .str (qnameDecoded c s)
  | .intList, s => .list ((words isXmlWs (coll s)).map parseInt)

/-- the value of an INJECTED value constraint: with the repair a context-dependent literal is decoded in skip
    mode (`to_python = str` on the collapsed text, no resolution) -/
def injectedVal (byValue : Bool) (c : NsCtx) : CatTy → Str → DV
  | .qname, s => if byValue then .str (coll s) else decodedVal c .qname s
  | ty, s => decodedVal c ty s

end XsVerif.AttrTypes
