/-
  C13 — the caller side of defusing: which bytes `XMLResource.open()` has scanned and which bytes it
  hands to the parser, for a file-like source in ANY initial state (position when the library
  opens it; seekable or not).

  Ported code:
    xmlschema/resources/xml_resource.py:453-462  open(): `elif self.fp.seekable() and self.fp.seek(0) != 0`
                                                 — a seekable file-like source is rewound BEFORE anything else
    xmlschema/resources/xml_resource.py:478-490  open(): `return defuse_xml(fp)`
    xmlschema/resources/sax.py:83-99             defuse_xml: the scan reads from the current position; a
                                                 SAXParseException is swallowed ("the purpose is to defuse not
                                                 to check xml source syntax"); then `fp.seek(0)`
    xmlschema/resources/sax.py:56-79             a non-seekable stream is wrapped at its current position: the
                                                 wrapper's position 0 is that position (Model/Defuse.lean Reader)
  No Mathlib import.
-/
import XsVerif.Model.Defuse
import XsVerif.Model.Prolog

namespace XsVerif.OpenFlow
open XsVerif.Prolog

/-- a file-like source as the library finds it: everything the stream holds from its very start,
    and the position it is at (the application sniffed some bytes, or another call used it before) -/
structure Stream where
  seekable : Bool
  data : List Nat
  pos : Nat
  deriving DecidableEq, Repr

/-- xml_resource.py:458: position after the guard of open() -/
def Stream.afterGuard (st : Stream) : Nat := if st.seekable then 0 else st.pos

/-- what the scan of defuse_xml is fed (it stops at the first start tag; what it sees is a prefix of this) -/
def Stream.scanned (st : Stream) : List Nat := st.data.drop st.afterGuard

/-- position of the stream handed to the parser, in the coordinates of `data`: `fp.seek(0)` of
    defuse_xml puts a seekable stream at 0 and the wrapper of a non-seekable one at the position where
    it was wrapped -/
def Stream.parseFrom (st : Stream) : Nat := if st.seekable then 0 else st.afterGuard

/-- what the parser is fed -/
def Stream.parsed (st : Stream) : List Nat := st.data.drop st.parseFrom

/-- sax.py:88-89: a scan that ends in a syntax error (or at the end of the data) lets the stream through -/
def scanPasses : Verdict → Bool
  | .clean => true
  | .malformed => true
  | _ => false

/-- open() for a file-like source: `none` = XMLResourceForbidden, `some b` = the parser is fed `b`;
    `defused` = is_defused() -/
def openResult (defused : Bool) (st : Stream) : Option (List Nat) :=
  if defused && !scanPasses (classify st.scanned) then none else some st.parsed

/-- NOT the code: open() without the rewinding guard when defusing applies (seeded change C13-5:
    "defuse_xml() rewinds anyway") — the scan starts where the stream happens to be -/
def Stream.scannedSeeded (st : Stream) : List Nat := st.data.drop st.pos

def openResultSeeded (defused : Bool) (st : Stream) : Option (List Nat) :=
  if defused && !scanPasses (classify st.scannedSeeded) then none else some st.parsed

/-! ### a file-like source that declares a URL (`url` attribute: urllib responses, wrapped streams)

  xml_resource.py:196-200: for a file-like source only `self.fp` is set — `self.url` stays None; the `url`
  attribute of the object is used for access control only.  open() (xml_resource.py:453-462, 478-503)
  decides on `self.url`, never on the attribute: the stream that was given is the stream that is scanned.
  The "double opening" branch exists only for sources GIVEN AS A URL (`self.url` set, the parsed stream was
  itself opened from that URL). -/

open XsVerif.Defuse

/-- a file-like object given as source; URLs are numbered, `web u` = the content reachable at URL `u` -/
structure Given where
  st : Stream
  io : IoKind
  hasOpener : Bool
  declared : Option Nat      -- the `url` attribute of the object, if any
  deriving DecidableEq, Repr

/-- `self.url` of the resource built from a file-like object -/
def Given.selfUrl (_ : Given) : Option Nat := none

/-- what the decision table of open() looks at -/
def Given.chan (g : Given) : Chan :=
  { seekable := g.st.seekable, io := g.io, hasOpener := g.hasOpener, hasUrl := g.selfUrl.isSome }

/-- the bytes the scan is fed (`none`: no scan — defusing does not apply, or open() refuses outright) -/
def scanInput (v : Variant) (m : Mode) (b : BaseClass) (web : Nat → List Nat) (g : Given) : Option (List Nat) :=
  match plan v m b g.chan with
  | .rewind | .wrapRaw | .wrapBuffered | .wrapText => some g.st.scanned
  | .secondOpen => g.selfUrl.map web
  | .noDefuse | .refuse => none

/-- the bytes the parser is fed (`none`: open() raised before) -/
def parseInput (v : Variant) (m : Mode) (b : BaseClass) (g : Given) : Option (List Nat) :=
  match plan v m b g.chan with
  | .refuse => none
  | _ => some g.st.parsed

/-- a source given as a URL: the stream that is parsed was opened from `u`; when it cannot be rewound or
    wrapped (custom opener) a second stream is opened from the SAME `u` and scanned -/
def urlScanInput (web : Nat → List Nat) (u : Nat) : List Nat := web u
def urlParseInput (web : Nat → List Nat) (u : Nat) : List Nat := web u

/-- NOT the code: seeded change C13-6 (`url = self.url or getattr(fp, 'url', None)`) -/
def Given.chanSeeded (g : Given) : Chan :=
  { seekable := g.st.seekable, io := g.io, hasOpener := g.hasOpener, hasUrl := g.declared.isSome }

def scanInputSeeded (v : Variant) (m : Mode) (b : BaseClass) (web : Nat → List Nat) (g : Given) : Option (List Nat) :=
  match plan v m b g.chanSeeded with
  | .rewind | .wrapRaw | .wrapBuffered | .wrapText => some g.st.scanned
  | .secondOpen => g.declared.map web
  | .noDefuse | .refuse => none

end XsVerif.OpenFlow
