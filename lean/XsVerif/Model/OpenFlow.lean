/-
  C13 — the caller side of defusing: which bytes `XMLResource.open()` has scanned and which bytes it
  hands to the parser, for a file-like source in ANY initial state (position when the library
  opens it; seekable or not).

  Ported code:
    xmlschema/resources/xml_resource.py:453-462  open(): `elif self.fp.seekable() and self.fp.seek(0) != 0`
                                                 — a seekable file-like source is rewound BEFORE anything else
    xmlschema/resources/xml_resource.py:478-490  open(): `return defuse_xml(fp)`
    xmlschema/resources/sax.py:83-99             defuse_xml: the scan reads from the current position; a
                                                 SAXParseException is swallowed ("the purpose is to defuse not
                                                 to check xml source syntax"); then `fp.seek(0)`
    xmlschema/resources/sax.py:56-79             a non-seekable stream is wrapped at its current position: the
                                                 wrapper's position 0 is that position (Model/Defuse.lean Reader)
  No Mathlib import.
-/
import XsVerif.Model.Defuse
import XsVerif.Model.Prolog

namespace XsVerif.OpenFlow
open XsVerif.Prolog

/-- a file-like source as the library finds it: everything the stream holds from its very start,
    and the position it is at (the application sniffed some bytes, or another call used it before) -/
structure Stream where
  seekable : Bool
  data : List Nat
  pos : Nat
  deriving DecidableEq, Repr

/-- xml_resource.py:458: position after the guard of open() -/
def Stream.afterGuard (st : Stream) : Nat := if st.seekable then 0 else st.pos

/-- what the scan of defuse_xml is fed (it stops at the first start tag; what it sees is a prefix of this) -/
def Stream.scanned (st : Stream) : List Nat := st.data.drop st.afterGuard

/-- position of the stream handed to the parser, in the coordinates of `data`: `fp.seek(0)` of
    defuse_xml puts a seekable stream at 0 and the wrapper of a non-seekable one at the position where
    it was wrapped -/
def Stream.parseFrom (st : Stream) : Nat := if st.seekable then 0 else st.afterGuard

/-- what the parser is fed -/
def Stream.parsed (st : Stream) : List Nat := st.data.drop st.parseFrom

/-- sax.py:88-89: a scan that ends in a syntax error (or at the end of the data) lets the stream through -/
def scanPasses : Verdict → Bool
  | .clean => true
  | .malformed => true
  | _ => false

/-- open() for a file-like source: `none` = XMLResourceForbidden, `some b` = the parser is fed `b`;
    `defused` = is_defused() -/
def openResult (defused : Bool) (st : Stream) : Option (List Nat) :=
  if defused && !scanPasses (classify st.scanned) then none else some st.parsed

/-- NOT the code: open() without the rewinding guard when defusing applies (seeded change C13-5:
    "defuse_xml() rewinds anyway") — the scan starts where the stream happens to be -/
def Stream.scannedSeeded (st : Stream) : List Nat := st.data.drop st.pos

def openResultSeeded (defused : Bool) (st : Stream) : Option (List Nat) :=
  if defused && !scanPasses (classify st.scannedSeeded) then none else some st.parsed

end XsVerif.OpenFlow
