/-
  M: statement-level port of `ModelVisitor` (xmlschema/validators/models.py:177-459) and of the
  child loop of `XsdGroup.raw_decode` (groups.py:1004-1087) over the arena of Model/Particle.
  Python generators become indices into content lists, loops take explicit fuel (exhaustion is
  reported as `fuelOut`, never as a verdict), `IndexError` (end of the visit) is an explicit
  result.  No Mathlib import.
-/
import XsVerif.Model.Particle

namespace XsVerif.CM
open XsVerif.Wildcard

/-- `collections.Counter` keyed by particle id (`occurs[p]`) and by group oid (`occurs[p.oid]`). -/
structure Cnt where
  occ : Array Nat
  oid : Array Nat
  deriving Repr, Inhabited

def Cnt.get (c : Cnt) (i : Nat) : Nat := c.occ.getD i 0
def Cnt.getOid (c : Cnt) (i : Nat) : Nat := c.oid.getD i 0
def Cnt.set (c : Cnt) (i v : Nat) : Cnt := { c with occ := c.occ.setIfInBounds i v }
def Cnt.setOid (c : Cnt) (i v : Nat) : Cnt := { c with oid := c.oid.setIfInBounds i v }
def Cnt.zero (n : Nat) : Cnt := ⟨Array.replicate n 0, Array.replicate n 0⟩

structure St where
  stack : List (Nat × Nat × Bool) := []   -- `_groups`: (group, items position, match); head = top
  group : Nat
  idx : Nat := 0                          -- position of the `items` iterator
  mtch : Bool := false
  element : Option Nat := none
  cnt : Cnt
  fuelOut : Bool := false
  advModel : Bool := true                 -- InterleavedModelVisitor._advance_model
  deriving Repr, Inhabited

/-- XSD 1.1 open content of the complex type: mode and the arena id of its wildcard -/
structure OC where
  mode : OpenMode := .none
  wild : Nat := 0
  strict : Bool := false           -- the open-content wildcard has processContents="strict"
  globals : List QN := []          -- names of the global element declarations (`root.maps.elements`)
  deriving Repr, Inhabited

section
variable (A : Arena)

/-- `occurs[item.oid]`: elements and wildcards have `oid = None`, and `occurs[None]` is never
    incremented, so it reads 0. -/
def oidOf (c : Cnt) (i : Nat) : Nat := if (A.node i).isGroup then c.getOid i else 0

/-- `is_emptiable` (particles.py:82, groups.py:167). -/
def isEmptiable : Nat → Nat → Bool
  | 0, _ => false
  | fuel + 1, i =>
    let n := A.node i
    match n.kind with
    | .elem | .any => n.lo == 0
    | .choice => n.lo == 0 || n.content.isEmpty || n.content.any (isEmptiable fuel)
    | _ => n.lo == 0 || n.content.isEmpty || n.content.all (isEmptiable fuel)

def depthFuel : Nat := A.size + 2

def emptiable (i : Nat) : Bool := isEmptiable A (depthFuel A) i

def isOver (c : Cnt) (i : Nat) : Bool :=
  match (A.node i).hi with | none => false | some h => h ≤ c.get i

def isExceeded (c : Cnt) (i : Nat) : Bool :=
  match (A.node i).hi with | none => false | some h => h < c.get i

/-- `is_missing` (particles.py:118; groups.py:454 for groups). -/
def isMissing (c : Cnt) (i : Nat) : Bool :=
  let n := A.node i
  if n.isGroup then
    let v := if c.getOid i != 0 then c.getOid i else c.get i
    if v == 0 then !emptiable A i else n.lo > v
  else n.lo > c.get i

def isAmbiguous (i : Nat) : Bool := some (A.node i).lo != (A.node i).hi

/-- `XsdGroup.iter_elements` (groups.py:350): leaves in document order, skipping groups (and the
    root) with maxOccurs = 0. -/
def iterElementsAux : Nat → List Nat → List Nat
  | 0, _ => []
  | fuel + 1, ids => ids.flatMap fun i =>
      let n := A.node i
      if n.isGroup then (if n.hi == some 0 then [] else iterElementsAux fuel n.content) else [i]

def iterElements (g : Nat) : List Nat :=
  if (A.node g).hi == some 0 then [] else iterElementsAux A (depthFuel A) (A.node g).content

/-- element-name matching of a leaf, as the visitor asks it (`element.match(tag, group=root,
    occurs=occurs)`): wildcards of XSD 1.1 refuse names claimed by a competing element that is
    not yet over (wildcards.py:780-786). -/
def leafMatches (c : Option Cnt) (i : Nat) (q : QN) : Bool :=
  let n := A.node i
  match n.kind with
  | .elem => n.names.contains q
  | .any =>
      allowsQ n.wc q && !(n.prec.any fun e =>
        (A.node e).names.contains q && (match c with | none => true | some c => !isOver A c e))
  | _ => false

/-- next item of the `items` generator (`iter_group`, models.py:247): returns the item and the
    new position. -/
def nextItem (s : St) : Option Nat × Nat :=
  let g := A.node s.group
  if g.kind == .all then
    let es := (iterElements A s.group).drop s.idx
    match es.findIdx? (fun e => !isOver A s.cnt e) with
    | none => (none, s.idx + es.length)
    | some k => (es[k]?, s.idx + k + 1)
  else if g.hi == some 0 then (none, s.idx)
  else match g.content[s.idx]? with
    | none => (none, s.idx)
    | some i => (some i, s.idx + 1)

/-- `_start` (models.py:220). -/
def start : Nat → St → St
  | 0, s => { s with fuelOut := true }
  | fuel + 1, s =>
    match nextItem A s with
    | (none, idx) =>
      match s.stack with
      | [] => { s with idx }
      | (g, i, m) :: rest => start fuel { s with group := g, idx := i, mtch := m, stack := rest }
    | (some item, idx) =>
      let n := A.node item
      if !n.isGroup then { s with idx, element := some item }
      else if !n.content.isEmpty then
        start fuel { s with stack := (s.group, idx, s.mtch) :: s.stack, group := item, idx := 0, mtch := false }
      else start fuel { s with idx }

def init (n root : Nat) : St :=
  start A (4 * A.size + 8) { group := root, cnt := Cnt.zero n }

/-- `clear` (models.py:211) -/
def clear (n root : Nat) (_s : St) : St := { group := root, cnt := Cnt.zero n }

structure Err where
  particle : Nat
  occurs : Nat
  deriving Repr, DecidableEq, Inhabited

/-- outcome of `stop_item`: `.error s` = IndexError raised in state `s` (the `_groups` stack was
    empty); `.ok (state, item, item_occurs, result)` otherwise -/
abbrev StopRes := Except St (St × Nat × Nat × Bool)

/-- the trailing block of `stop_item` for sequences (models.py:332-348) -/
def seqTail (s : St) (item : Nat) : St :=
  let g := A.node s.group
  if g.content.getLast? == some item then
    -- first item2 of the content with a non-zero counter
    match g.content.zipIdx.find? (fun (i2, _) => s.cnt.get i2 != 0) with
    | none => s
    | some (i2, k) =>
      let low := s.cnt.get i2
      let high := if oidOf A s.cnt i2 != 0 then oidOf A s.cnt i2 else low
      let n2 := A.node i2
      if high == 1 || (g.content.drop (k + 1)).any (fun x => !emptiable A x) then
        { s with cnt := (s.cnt.set s.group (s.cnt.get s.group + 1)).setOid s.group (s.cnt.getOid s.group + 1) }
      else
        let d1 := low / (match n2.hi with | none => low | some 0 => low | some h => h)
        let d2 := high / (if n2.lo == 0 then 1 else n2.lo)
        { s with cnt := (s.cnt.set s.group (s.cnt.get s.group + (if d1 == 0 then 1 else d1))).setOid s.group
                  (s.cnt.getOid s.group + (if d2 == 0 then 1 else d2)) }
  else s

/-- `stop_item` (models.py:279-350). -/
def stopItem : Nat → St → Nat → StopRes
  | 0, s, item => .ok ({ s with fuelOut := true }, item, 0, false)
  | fuel + 1, s0, item =>
    let itemOccurs := s0.cnt.get item
    let popped : Option St :=
      if (A.node item).isGroup then
        match s0.stack with
        | [] => none
        | (g, i, m) :: rest => some { s0 with group := g, idx := i, mtch := m, stack := rest }
      else some s0
    match popped with
    | none => .error s0
    | some s =>
      let g := A.node s.group
      let ni := A.node item
      match g.kind with
      | .choice =>
        if itemOccurs == 0 then .ok (s, item, itemOccurs, false)
        else
          let high := if oidOf A s.cnt item != 0 then oidOf A s.cnt item else itemOccurs
          let incr := match ni.hi with
            | none => 1
            | some mx => if itemOccurs % mx != 0 then 1 + itemOccurs / mx else itemOccurs / mx
          let d := high / (if ni.lo == 0 then 1 else ni.lo)
          let c := s.cnt.set s.group (s.cnt.get s.group + incr)
          let c := c.setOid s.group (c.getOid s.group + (if d == 0 then 1 else d))
          let c := (c.set item 0)
          let c := if ni.isGroup then c.setOid item 0 else c
          .ok ({ s with cnt := c, idx := 0, mtch := false }, item, itemOccurs, ni.lo > high)
      | .all => .ok (s, item, itemOccurs, false)
      | _ =>
        if s.mtch then
          let s := seqTail A s item
          .ok (s, item, itemOccurs, isMissing A s.cnt item)
        else if itemOccurs != 0 then
          let s := seqTail A { s with mtch := true } item
          .ok (s, item, itemOccurs, isMissing A s.cnt item)
        else if emptiable A item then .ok (s, item, itemOccurs, false)
        else if !s.stack.isEmpty then stopItem fuel s s.group
        else if isMissing A s.cnt s.group then .ok (s, item, itemOccurs, true)
        else stopItem fuel s s.group

inductive Step where
  | done (s : St) (errs : List Err)          -- `return` (element set)
  | ended (s : St) (errs : List Err)         -- IndexError: the visit ended
  deriving Inhabited

/-- `_iter_all_model_errors` (models.py:409-449) as particle/occurs pairs; the "late check" pairs for
    a nested *group* that is missing with a zero counter are keyed by its parent group. -/
def allErrors (c0 : Cnt) (g : Nat) : List Err :=
  let rec go : Nat → Cnt → Nat → Option Nat → (Cnt × List Err × List (Nat × Nat))
    | 0, c, _, _ => (c, [], [])
    | fuel + 1, c0, g, parent =>
      let n := A.node g
      let step := fun (acc : Cnt × List Err × List (Nat × Nat)) (item : Nat) =>
        let (c, errs, zm) := acc
        let c := if c.get item != 0 then c.set g 1 else c
        let ni := A.node item
        if ni.isGroup then
          if ni.hi == some 0 then (c, errs, zm)
          else
            let (c', e', z') := go fuel c item (some g)
            (c', errs ++ e', zm ++ z')
        else if isMissing A c item || isExceeded A c item then
          if c.get item != 0 then (c, errs ++ [⟨item, c.get item⟩], zm)
          else (c, errs, zm ++ [(g, item)])
        else (c, errs, zm)
      let (c, errs, zm) := n.content.foldl step (c0, [], [])
      if isMissing A c g || isExceeded A c g then
        match parent with
        | none => (c, errs ++ [⟨g, c.get g⟩], zm)
        | some p => if c.get g != 0 then (c, errs ++ [⟨g, c.get g⟩], zm) else (c, errs, zm ++ [(p, g)])
      else (c, errs, zm)
  let (c, errs, zm) := go (depthFuel A) c0 g none
  errs ++ (zm.filter fun (grp, _) => c.get grp != 0).map fun (_, item) => ⟨item, c.get item⟩

/-- the `except IndexError` handler of `advance` (models.py:401-407) -/
def onEnded (s : St) (errs : List Err) : Step :=
  let s := { s with element := none }
  if (A.node s.group).kind == .all then .ended s (errs ++ allErrors A s.cnt s.group)
  else if isMissing A s.cnt s.group || isExceeded A s.cnt s.group then
    .ended s (errs ++ [⟨s.group, s.cnt.get s.group⟩])
  else .ended s errs

/-- `while self.group.is_over(occurs): item = self.group; stop_item()` -/
def unwindOver : Nat → St → Except St St
  | 0, s => .ok { s with fuelOut := true }
  | fuel + 1, s =>
    if isOver A s.cnt s.group then
      match stopItem A (depthFuel A + 4) s s.group with
      | .error se => .error se
      | .ok (s', _, _, _) => unwindOver fuel s'
    else .ok s

/-- the main `while True` loop of `advance` (models.py:377-399). -/
def advLoop : Nat → St → List Err → Step
  | 0, s, errs => .done { s with fuelOut := true } errs
  | fuel + 1, s, errs =>
    match unwindOver A (depthFuel A + 4) s with
    | .error se => onEnded A se errs
    | .ok s =>
      match nextItem A s with
      | (some obj, idx) =>
        let n := A.node obj
        if n.isGroup then
          let c := (s.cnt.set obj 0).setOid obj 0
          advLoop fuel { s with stack := (s.group, idx, s.mtch) :: s.stack, group := obj, idx := 0,
                                mtch := false, cnt := c } errs
        else
          let c := if (A.node s.group).kind == .seq then s.cnt.set obj 0 else s.cnt
          .done { s with idx, element := some obj, cnt := c } errs
      | (none, idx) =>
        let s := { s with idx }
        if s.mtch then advLoop fuel { s with idx := 0, mtch := false } errs
        else if (A.node s.group).kind == .all then
          match s.stack with
          | [] => onEnded A s errs
          | (g, i, m) :: rest => advLoop fuel { s with group := g, idx := i, mtch := m, stack := rest } errs
        else
          match stopItem A (depthFuel A + 4) s s.group with
          | .error se => onEnded A se errs
          | .ok (s', item, io, r) =>
            advLoop fuel s' (if r then errs ++ [⟨item, io⟩] else errs)

/-- `advance(match)` (models.py:267-407), run to completion.
    `stop_item` raises IndexError from its first effect (the pop), so the handler sees the state
    reached by the preceding (possibly nested) calls, which `StopRes.error` carries. -/
def advance (s : St) (mtch : Bool) : Step :=
  match s.element with
  | none => .done s []        -- the real code raises XMLSchemaValueError; never called so
  | some item =>
    let g := A.node s.group
    let s1 := if mtch then { s with cnt := s.cnt.set item (s.cnt.get item + 1), mtch := true } else s
    let s1 := if mtch && g.kind == .all then { s1 with idx := 0 } else s1
    if mtch && g.kind != .all && (!isOver A s1.cnt item || (g.kind == .choice && isAmbiguous A item)) then
      .done s1 []
    else
      match stopItem A (depthFuel A + 4) s1 item with
      | .error se => onEnded A se []
      | .ok (s2, it, io, r) =>
        advLoop A (8 * A.size + 16) s2 (if r then [⟨it, io⟩] else [])

/-- what a leaf can match at all, whatever the counters say (name or substitute for an element,
    the namespace/notQName constraint for a wildcard) -/
def baseMatch (i : Nat) (q : QN) : Bool :=
  let n := A.node i
  match n.kind with
  | .elem => n.names.contains q
  | .any => allowsQ n.wc q
  | _ => false

/-- `match_element` of the visitor (models.py:258). -/
def visitorMatch (s : St) (q : QN) : Bool :=
  match s.element with
  | none => false
  | some e => if (A.node e).hi == some 0 then false else leafMatches A (some s.cnt) e q

/-- `element is self.wildcard` -/
def onWild (oc : OC) (s : St) : Bool := oc.mode != .none && s.element == some oc.wild

/-- constructors / `clear` of the open-content visitors (models.py:744-757, 797-807): an ended
    model waits on the open-content wildcard. -/
def ocFix (oc : OC) (s : St) : St :=
  if oc.mode != .none && s.element.isNone then { s with element := some oc.wild, advModel := true }
  else { s with advModel := true }

/-- `match_element` of Interleaved/Suffixed/plain visitor (models.py:258, 759-775).  Returns
    (matched, state): the interleaved visitor records that the match was taken by the wildcard. -/
def visitorMatchO (oc : OC) (s : St) (q : QN) : Bool × St :=
  let x := visitorMatch A s q
  if oc.mode != .interleave then (x, s)
  else if x || onWild oc s then (x, s)
  else if !leafMatches A (some s.cnt) oc.wild q then (false, s)
  else if (iterElements A s.group).any fun e => leafMatches A (some s.cnt) e q && !isOver A s.cnt e
    then (false, s)
  else if oc.strict && !oc.globals.contains q then (false, s)   -- strict: only declared names are absorbed
  else (true, { s with advModel := false })

/-- `advance` of the open-content visitors (models.py:777-787, 809-817). -/
def advanceO (oc : OC) (s : St) (mtch : Bool) : Step :=
  match oc.mode with
  | .none => advance A s mtch
  | .interleave =>
    if onWild oc s then .done (if mtch then s else { s with element := none }) []
    else if !s.advModel then .done { s with advModel := true } []
    else match advance A s mtch with
      | .done s' e => .done (if s'.element.isNone then { s' with element := some oc.wild } else s') e
      | .ended s' e => .ended (if s'.element.isNone then { s' with element := some oc.wild } else s') e
  | .suffix =>
    if onWild oc s then .done (if mtch then s else { s with element := none }) []
    else match advance A s mtch with
      | .done s' e => .done (if s'.element.isNone then { s' with element := some oc.wild } else s') e
      | .ended s' e => .ended (if s'.element.isNone then { s' with element := some oc.wild } else s') e

/-- model-less `XsdGroup.match_element` (groups.py:943): first element of the root matching. -/
def modelLessMatch (root : Nat) (q : QN) : Option Nat :=
  (iterElements A root).find? fun e => leafMatches A none e q

structure ChildErr where
  index : Nat
  particle : Nat
  occurs : Nat
  deriving Repr, DecidableEq, Inhabited

structure LoopSt where
  s : St
  errors : List ChildErr := []
  broken : Bool := false
  fuelOut : Bool := false          -- sticky: the model ran out of fuel while processing some child
  deriving Inhabited

/-- `while model.element is not None:` for one child (groups.py:1021-1049). -/
def childStep (oc : OC) (n root : Nat) (index : Nat) (q : QN) : Nat → LoopSt → LoopSt
  | 0, ls =>
    -- out of fuel: flagged (never a verdict: the harness reports it) and counted as an error of the model
    { ls with errors := ls.errors ++ [⟨index, root, 0⟩], broken := true, fuelOut := true }
  | fuel + 1, ls =>
    match ls.s.element with
    | none =>
      -- while-else: model-less match
      match modelLessMatch A root q with
      | none => { ls with errors := ls.errors ++ [⟨index, root, 0⟩], broken := true }
      | some e => if ls.broken then ls else { ls with errors := ls.errors ++ [⟨index, e, 0⟩], broken := true }
    | some _ =>
      let (matched, sm) := visitorMatchO A oc ls.s q
      if matched then
        match advanceO A oc sm true with
        | .done s errs | .ended s errs =>
          { ls with s, errors := ls.errors ++ errs.map fun e => ⟨index, e.particle, e.occurs⟩ }
      else
        match advanceO A oc sm false with
        | .done s errs | .ended s errs =>
          match errs with
          | e :: _ => { ls with s := ocFix oc (clear n root s), errors := ls.errors ++ [⟨index, e.particle, e.occurs⟩],
                                broken := true }
          | [] => childStep oc n root index q fuel { ls with s }

/-- `model.stop()` consumed up to its first error (groups.py:1078-1082). -/
def stopFirst (oc : OC) : Nat → St → Option Err × Bool
  | 0, _ => (none, true)
  | fuel + 1, s =>
    match s.element with
    | none => (none, false)
    | some _ =>
      match advanceO A oc s false with
      | .done s' errs | .ended s' errs =>
        match errs with
        | e :: _ => (some e, s'.fuelOut)
        | [] => if s'.fuelOut then (none, true) else stopFirst oc fuel s'

structure Verdict where
  errors : List ChildErr
  fuelOut : Bool
  deriving Repr, Inhabited

/-- The child loop of `XsdGroup.raw_decode` reduced to the list of children errors. -/
def childErrors (n root : Nat) (w : List QN) (oc : OC := {}) : Verdict :=
  let s0 := ocFix oc (init A n root)
  let emptyChoice := (A.node root).kind == .choice && (A.node root).content.isEmpty && (A.node root).lo != 0
  if emptyChoice then ⟨[⟨0, root, 0⟩], false⟩ else
  let fuelC := 4 * A.size + 8
  let ls := w.zipIdx.foldl (fun ls (q, i) => childStep A oc n root i q fuelC ls) { s := s0 }
  let (tail, fo) := match ls.s.element with
    | none => ([], false)
    | some _ => match stopFirst A oc fuelC ls.s with
      | (some e, fo) => ([ChildErr.mk w.length e.particle e.occurs], fo)
      | (none, fo) => ([], fo)
  ⟨ls.errors ++ tail, ls.fuelOut || ls.s.fuelOut || fo⟩

/-! ### the encoder's child loop (`XsdGroup.raw_encode`, groups.py:1146-1181)

The encoder drives the *same* visitor over the names of the content it emits, but its loop differs
from the decoder's: every error of `advance()` is kept and the loop goes on (no `clear`, no
model-less fallback); a name met after the model ended is always an error. -/

/-- `while model.element is not None:` for one content name (groups.py:1153-1165). -/
def encStep (oc : OC) (root : Nat) (index : Nat) (q : QN) : Nat → LoopSt → LoopSt
  | 0, ls => { ls with errors := ls.errors ++ [⟨index, root, 0⟩], broken := true, fuelOut := true }
  | fuel + 1, ls =>
    match ls.s.element with
    | none => { ls with errors := ls.errors ++ [⟨index, root, 0⟩] }      -- while-else
    | some _ =>
      let (matched, sm) := visitorMatchO A oc ls.s q
      if matched then
        match advanceO A oc sm true with
        | .done s errs | .ended s errs =>
          { ls with s, errors := ls.errors ++ errs.map fun e => ⟨index, e.particle, e.occurs⟩ }
      else
        match advanceO A oc sm false with
        | .done s errs | .ended s errs =>
          encStep oc root index q fuel
            { ls with s, errors := ls.errors ++ errs.map fun e => ⟨index, e.particle, e.occurs⟩ }

/-- The children errors the encoder collects for the emitted names `w` (strict mode raises the
    first of them; lax mode reports them all). -/
def encodeErrors (n root : Nat) (w : List QN) (oc : OC := {}) : Verdict :=
  let s0 := ocFix oc (init A n root)
  let fuelC := 4 * A.size + 8
  let ls := w.zipIdx.foldl (fun ls (q, i) => encStep A oc root i q fuelC ls) { s := s0 }
  -- `index - cdata_index + 1` after the loop: `index` keeps its initial 0 when there is no content
  let endIdx := if w.isEmpty then 1 else w.length
  let (tail, fo) := match ls.s.element with
    | none => ([], false)
    | some _ => match stopFirst A oc fuelC ls.s with
      | (some e, fo) => ([ChildErr.mk endIdx e.particle e.occurs], fo)
      | (none, fo) => ([], fo)
  ⟨ls.errors ++ tail, ls.fuelOut || ls.s.fuelOut || fo⟩

/-- the clause added to the encoder by fix 246d372 (same test as the decoder's, groups.py:968): a
    plain validation error (raised in strict mode), after which the child loop still runs -/
def emptyChoiceRoot (root : Nat) : Bool :=
  (A.node root).kind == .choice && (A.node root).content.isEmpty && (A.node root).lo != 0

/-- strict-mode encode gets past the content model without raising: no empty-choice error and no
    children error -/
def encodeSilent (n root : Nat) (w : List QN) (oc : OC := {}) : Bool :=
  !emptyChoiceRoot A root && (encodeErrors A n root w oc).errors.isEmpty

/-- the implementation's verdict on a child sequence -/
def verdict (n root : Nat) (w : List QN) (oc : OC := {}) : Bool :=
  (childErrors A n root w oc).errors.isEmpty

end
end XsVerif.CM
