/-
  C09 — staged, on-demand build of the global components of a schema.

  Port of (file:line of /repo/xmlschema):
    validators/builders.py:381-392   StagedMap.__getitem__   (store hit / staged → _build_global / KeyError)
    validators/builders.py:429-466   StagedMap.load          (first declaration wins, same (elem, schema) ignored,
                                                              a different one → "already loaded" parse error)
    validators/builders.py:491-494   StagedMap.build         (snapshot of the staged names, skip those built meanwhile)
    validators/builders.py:496-511   StagedMap._build_global (1-tuple marker → XMLSchemaCircularityError; the
                                                              component constructor looks its dependencies up; store; pop)
    validators/builders.py:710-760   GlobalMaps.load         (schemas in registration order, children in document order)
    loaders.py:281-319 / xsd_globals.py:419-452  include de-duplication by normalised location
    utils/urls.py:205-277            normalize_url (dot segments of the joined path)

  The component constructors (`_factory_or_class`) are abstracted by the *free* interpretation: a built
  component is the tree (`Res.ok name declId kids`) of what its constructor looked up, in lookup order
  (a missing name and a circular reference are leaves: the constructors catch KeyError /
  XMLSchemaCircularityError, report a parse error and substitute a fallback).  Two builds that produce the
  same tree give the same arguments to a pure constructor.   No Mathlib.
-/
namespace XsVerif.Staged

abbrev Name := String

/-- A staged declaration: the identity of its `(elem, schema)` pair and the names its constructor looks
    up (`maps.types[...]`, `maps.groups[...]`, …), in order. -/
structure Decl where
  id : Nat
  deps : List Name
  deriving DecidableEq, Repr, Inhabited

/-- Result of a lookup / a built component (free interpretation). -/
inductive Res where
  | ok (name : Name) (id : Nat) (kids : List Res)
  | missing (name : Name)          -- KeyError → "missing …" parse error + fallback
  | circ (name : Name)             -- XMLSchemaCircularityError → parse error + fallback
  | fuel                           -- model ran out of fuel (never a verdict)
  deriving Repr, Inhabited

/-- Observable events of a build (compared with the instrumented real code). -/
inductive Ev where
  | enter (q : Name) | exit (q : Name) | hit (q : Name) | circ (q : Name) | missing (q : Name)
  deriving DecidableEq, Repr

/-- `_store`, `_staging` (the 1-tuple marker is the separate `marked` field) and the event log (newest
    first).  Dictionaries are finite maps; only their lookup behaviour matters here. -/
structure State where
  store : Name → Option Res
  staging : Name → Option Decl
  marked : Name → Bool
  log : List Ev

def set {β : Type} (f : Name → β) (q : Name) (v : β) : Name → β := fun x => if x = q then v else f x

/-- The constructor looks its dependencies up one after the other, threading the maps. -/
def foldDeps (f : State → Name → State × Res) : State → List Name → State × List Res
  | s, [] => (s, [])
  | s, d :: ds =>
    let r := f s d
    let rs := foldDeps f r.1 ds
    (rs.1, r.2 :: rs.2)

/-- `StagedMap.__getitem__` + `_build_global` (builders.py:381-392, 496-511). -/
def lookup : Nat → State → Name → State × Res
  | 0, s, _ => (s, .fuel)
  | n + 1, s, q =>
    match s.store q with
    | some c => ({ s with log := .hit q :: s.log }, c)
    | none =>
      match s.staging q with
      | none => ({ s with log := .missing q :: s.log }, .missing q)
      | some d =>
        if s.marked q then ({ s with log := .circ q :: s.log }, .circ q)
        else
          let s1 : State := { s with marked := set s.marked q true, log := .enter q :: s.log }
          let r := foldDeps (lookup n) s1 d.deps
          let c := Res.ok q d.id r.2
          ({ store := set r.1.store q (some c), staging := set r.1.staging q none,
             marked := set r.1.marked q false, log := .exit q :: r.1.log }, c)

/-- `StagedMap.build` (builders.py:491-494) over the six maps in the order of `GlobalMaps.build`
    (the caller passes the concatenated snapshot of staged names). -/
def buildAll (n : Nat) : State → List Name → State
  | s, [] => s
  | s, q :: qs => buildAll n (if (s.staging q).isSome then (lookup n s q).1 else s) qs

/-! ### loading (staging) -/

structure LState where
  staged : List (Name × Decl)     -- insertion ordered `_staging`
  errors : List Name              -- "global xs:… with name=… is already loaded"
  deriving Repr

/-- `StagedMap.load` for a not yet built map (builders.py:429-466): first wins; the same
    `(elem, schema)` again is ignored; a different one is an error. -/
def loadOne (st : LState) (p : Name × Decl) : LState :=
  match st.staged.lookup p.1 with
  | none => { st with staged := st.staged ++ [p] }
  | some d => if d.id = p.2.id then st else { st with errors := st.errors ++ [p.1] }

def loadAll (l : List (Name × Decl)) : LState := l.foldl loadOne ⟨[], []⟩

/-- the declaration table denoted by a list of staged declarations -/
def table (l : List (Name × Decl)) : Name → Option Decl := fun q => l.lookup q

/-- state after `load`, before `build`: `pre` are components already in the store (built-in types,
    the xml/xsi attributes), which have no dependencies. -/
def initState (pre : Name → Bool) (g : Name → Option Decl) : State :=
  { store := fun q => if pre q then (g q).map (fun d => Res.ok q d.id []) else none,
    staging := fun q => if pre q then none else g q,
    marked := fun _ => false, log := [] }

/-- `GlobalMaps.build` (builders.py:785-806) builds the six maps one after the other: notations,
    attributes, attribute groups, types, elements, groups; each in its own insertion order.  Names carry
    their map as a one-digit prefix (`"3|{urn:t}R"` = type R). -/
def kindRank (q : Name) : Nat :=
  match q.toList.head? with
  | some c => c.toNat - 48
  | none => 0

def buildOrder (staged : List Name) : List Name :=
  (List.range 6).flatMap fun k => staged.filter fun q => kindRank q == k

/-- whole pipeline: load the flattened declarations, then build in staging order -/
def buildDecls (n : Nat) (l : List (Name × Decl)) : State :=
  let st := loadAll l
  buildAll n (initState (fun _ => false) (table st.staged)) (st.staged.map (·.1))

/-! ### denotation of an acyclic declaration table -/

def den (g : Name → Option Decl) : Nat → Name → Res
  | 0, _ => .fuel
  | n + 1, q =>
    match g q with
    | none => .missing q
    | some d => .ok q d.id (d.deps.map (den g n))

/-- every dependency has a smaller rank: the table has no circular definition -/
def Acyclic (g : Name → Option Decl) (rank : Name → Nat) : Prop :=
  ∀ q d, g q = some d → ∀ x ∈ d.deps, rank x < rank q

def denote (g : Name → Option Decl) (rank : Name → Nat) (q : Name) : Res := den g (rank q + 1) q

/-! ### locations: dot-segment normalisation of a joined path (urls.py normalize_url → normpath) -/

/-- `os.path.normpath` on the segments of an absolute path: drop `.` and empty segments, `..` pops
    (and is dropped at the root).  `acc` is the reversed normalised prefix. -/
def normGo : List String → List String → List String
  | acc, [] => acc.reverse
  | acc, s :: rest =>
    if s = "." ∨ s = "" then normGo acc rest
    else if s = ".." then normGo acc.tail rest
    else normGo (s :: acc) rest

def normSegs (l : List String) : List String := normGo [] l

/-- `normalize_url(location, base_url)` for a local location: an absolute location stands for itself,
    a relative one is joined to the directory of the including document. -/
def resolve (baseDir : List String) (abs : Bool) (loc : List String) : List String :=
  if abs then normSegs loc else normSegs (baseDir ++ loc)

def Plain (s : String) : Prop := s ≠ "." ∧ s ≠ "" ∧ s ≠ ".."

/-! ### include processing with de-duplication by normalised location (loaders.py:281-319) -/

structure Doc where
  key : List String                       -- normalised location of the document
  dir : List String                       -- its directory (base_url of its includes)
  includes : List (Bool × List String)    -- (absolute?, spelled location) in document order
  decls : List (Name × Decl)
  deriving Repr

def findDoc (docs : List Doc) (k : List String) : Option Doc := docs.find? (fun d => d.key = k)

/-- Schemas are registered when created, their inclusions are processed depth first
    (schemas.py → loaders.load_declared_schemas); a location whose normalised form is already
    registered is not loaded again (xsd_globals.get_schema).  Returns the registration order. -/
def includeGo (docs : List Doc) : Nat → List (List String) → List (List String) → List (List String)
  | 0, visited, _ => visited
  | _ + 1, visited, [] => visited
  | n + 1, visited, k :: todo =>
    if k ∈ visited then includeGo docs n visited todo
    else match findDoc docs k with
      | none => includeGo docs n visited todo          -- unresolvable location: warning, skipped
      | some d => includeGo docs n (visited ++ [k]) (d.includes.map (fun i => resolve d.dir i.1 i.2) ++ todo)

/-- the locations of a document's includes RESOLVED against the document's own directory -/
def resolvedIncludes (d : Doc) : List (List String) := d.includes.map (fun i => resolve d.dir i.1 i.2)

/-! A loader that trusts the RAW location string (seed C09-4, loaders.py include_schema): before resolving a
    location against the including document it looks the string up among the locations that the MAIN document
    wrote, and takes the main document's file for it.  Kept as a counter-model: `includeGo` above (the code of
    /repo) never compares raw strings of different documents. -/
def rawLookup (main : Doc) (i : Bool × List String) : Option (List String) :=
  (main.includes.find? (fun j => j = i)).map (fun j => resolve main.dir j.1 j.2)

def includeGoRaw (docs : List Doc) (main : Doc) : Nat → List (List String) → List (List String) → List (List String)
  | 0, visited, _ => visited
  | _ + 1, visited, [] => visited
  | n + 1, visited, k :: todo =>
    if k ∈ visited then includeGoRaw docs main n visited todo
    else match findDoc docs k with
      | none => includeGoRaw docs main n visited todo
      | some d => includeGoRaw docs main n (visited ++ [k])
          (d.includes.map (fun i => match rawLookup main i with
                                    | some k' => k'
                                    | none => resolve d.dir i.1 i.2) ++ todo)

end XsVerif.Staged
