/-
  Model of xmlschema/namespaces.py (class NamespaceMapper): the prefix <-> URI maps, the stack
  of xmlns contexts and the name mapping functions, plus the call patterns with which it is driven:
  by the validators while decoding a tree (validators/elements.py:643-645, 833 and
  validators/groups.py:1008-1009, `visit` / `decodeT`) and by the converters' `element_encode`
  while encoding decoded data (converters/base.py:452-482, `encVisit`).
  Line numbers refer to the tree as it is now (after fix b20c29d).

  No Mathlib import: this file is linked into the native driver `drv_c17`.

  Representation.
  * Python dicts are insertion ordered: `Map` is an association list with unique keys,
    `set` overwrites in place or appends, `erase` removes, `update` folds `set`.
  * `_reverse` maps a URI to `prefix and prefix + ':'`.  That rendering is injective, so the
    model stores the prefix itself ("" = default namespace) and renders at `mapQName`.
  * `context.obj is obj` (object identity) is equality of the identifiers the harness assigns
    (the position of the element in the document).
  * Names are kept structured (`QN` expanded, `PName` mapped); the driver does the parsing and
    printing of `{uri}local` / `prefix:local` strings.
-/
namespace XsVerif.NsMapper

abbrev Map := List (String × String)
abbrev Xmlns := List (String × String)

namespace Map

/-- `d.get(k)` -/
def get : Map → String → Option String
  | [], _ => none
  | (k, v) :: t, x => if k = x then some v else get t x

/-- `k in d` -/
def has (m : Map) (x : String) : Bool := (m.get x).isSome

/-- `d[k] = v` (position of an existing key is kept, new keys are appended) -/
def set : Map → String → String → Map
  | [], k, v => [(k, v)]
  | (k', v') :: t, k, v => if k' = k then (k, v) :: t else (k', v') :: set t k v

/-- `del d[k]` / `d.pop(k)` (keys of a dict are unique, so removing every entry for `k` is the same) -/
def erase : Map → String → Map
  | [], _ => []
  | (k', v') :: t, k => if k' = k then erase t k else (k', v') :: erase t k

/-- `d.update(pairs)` -/
def update (m : Map) (l : List (String × String)) : Map :=
  l.foldl (fun m kv => m.set kv.1 kv.2) m

/-- `for k in reversed(d.keys()): if p(k, d[k]): ...; break` — the last key satisfying `p`. -/
def lastKey : Map → (String → String → Bool) → Option String
  | [], _ => none
  | (k, v) :: t, p =>
    match lastKey t p with
    | some k' => some k'
    | none => if p k v then some k else none

end Map

/-- `NamespaceMapperContext` (namespaces.py:35-40). -/
structure Ctx where
  obj : Nat
  level : Nat
  xmlns : Xmlns
  ns : Map
  rev : Map
  deriving Repr, DecidableEq

inductive Mode where
  | stacked | collapsed | rootOnly | none
  deriving Repr, DecidableEq

/-- Which repointing rule the stacked branch uses when a prefix is rebound:
    `repaired` = namespaces.py:235-244 AS IT IS NOW (fix b20c29d): a replacement prefix must not itself
                 be rebound by the element;
    `pinned`   = the loop of be27a66 as it was before that fix (kept for the witness of C17-F2 and so
                 that the harness recognises a tree that regressed). -/
inductive Variant where
  | pinned | repaired
  deriving Repr, DecidableEq

structure Mapper where
  ns : Map
  rev : Map
  stack : List Ctx := []        -- head = top of `_xmlns_contexts`
  deriving Repr, DecidableEq

/-- `{v: k and k + ':' for k, v in reversed(self.namespaces.items())}` (namespaces.py:97):
    later assignments win, so every URI records the *first* prefix bound to it. -/
def mkReverse (ns : Map) : Map :=
  ns.reverse.foldl (fun r kv => r.set kv.2 kv.1) []

/-! ### generated prefixes (collapsed mode and `update_namespaces`) -/

def digitVal (c : Char) : Nat := c.toNat - '0'.toNat

def digitsToNat (l : List Char) : Nat := l.foldl (fun n c => 10 * n + digitVal c) 0

/-- namespaces.py:271-276 / utils/qnames.py:189-194:
    `re.search(r'(\d+)$', prefix)` → increment the trailing number, else append '0'
    (ASCII digits; the generator only produces ASCII prefixes). -/
def nextPrefix (p : String) : String :=
  let cs := p.toList
  let digits := (cs.reverse.takeWhile Char.isDigit).reverse
  if digits.isEmpty then p ++ "0"
  else String.ofList (cs.take (cs.length - digits.length)) ++ toString (digitsToNat digits + 1)

inductive Slot where
  | bound (p : String)      -- `break`: the prefix is already bound to this URI
  | fresh (p : String)      -- `else`: a prefix that is not a key of the map
  | fuel                    -- the model ran out of fuel (never a verdict)
  deriving Repr, DecidableEq

/-- `while prefix in namespaces: if namespaces[prefix] == uri: break; prefix = next(prefix)` -/
def findSlot (ns : Map) (uri : String) : Nat → String → Slot
  | 0, _ => .fuel
  | fuel + 1, p =>
    match ns.get p with
    | none => .fresh p
    | some u => if u = uri then .bound p else findSlot ns uri fuel (nextPrefix p)

/-- One declaration of the collapsed merge (namespaces.py:254-280); with `rev` ignored it is one
    iteration of `update_namespaces` (utils/qnames.py:172-196, `root_declarations` = `root`). -/
def collapseOne (root : Bool) (st : Map × Map × Bool) (d : String × String) : Map × Map × Bool :=
  let (ns, rev, ok) := st
  let pfx := d.1
  let uri := d.2
  let place (p : String) : Map × Map × Bool :=
    match findSlot ns uri (ns.length + 1) p with
    | .bound _ => (ns, rev, ok)
    | .fresh q => (ns.set q uri, if rev.has uri then rev else rev.set uri q, ok)
    | .fuel => (ns, rev, false)
  if pfx = "" then
    if uri = "" then (ns, rev, ok)
    else match ns.get "" with
      | none =>
        if root then (ns.set "" uri, if rev.has uri then rev else rev.set uri "", ok)
        else place "default"
      | some d0 => if d0 = uri then (ns, rev, ok) else place "default"
  else place pfx

/-- The whole merge; the Boolean is `false` iff fuel ran out somewhere. -/
def collapse (root : Bool) (ns rev : Map) (xmlns : Xmlns) : Map × Map × Bool :=
  xmlns.foldl (collapseOne root) (ns, rev, true)

/-- `update_namespaces(namespaces, xmlns, root_declarations)` (utils/qnames.py:157-196). -/
def updateNamespaces (ns : Map) (xmlns : Xmlns) (root : Bool) : Map × Bool :=
  let r := collapse root ns [] xmlns
  (r.1, r.2.2)

/-! ### the stacked branch -/

/-- prefixes that the element binds to a URI different from their current one
    (`{p for p, u in xmlns if self.namespaces.get(p, u) != u}`, namespaces.py:235). -/
def rebound (ns : Map) (xmlns : Xmlns) : List String :=
  (xmlns.filter fun d => match ns.get d.1 with
    | some old => old ≠ d.2
    | none => false).map (·.1)

/-- One iteration of the loop namespaces.py:236-244: when `prefix` currently is the recorded
    prefix of another URI, drop that record and repoint it to the last other prefix of that URI. -/
def repointOne (v : Variant) (ns : Map) (rb : List String) (rev : Map) (d : String × String) : Map :=
  match ns.get d.1 with
  | none => rev
  | some old =>
    if old ≠ d.2 ∧ rev.get old = some d.1 then
      let rev1 := rev.erase old
      let cand := match v with
        | .pinned => ns.lastKey fun k u => k ≠ d.1 && u = old
        | .repaired => ns.lastKey fun k u => !rb.contains k && u = old
      match cand with
      | some k => rev1.set old k
      | none => rev1
    else rev

def repoint (v : Variant) (ns : Map) (rev : Map) (xmlns : Xmlns) : Map :=
  xmlns.foldl (repointOne v ns (rebound ns xmlns)) rev

/-- namespaces.py:245-250. -/
def revUpdate (level : Nat) (rev : Map) (xmlns : Xmlns) : Map :=
  if level ≠ 0 then xmlns.foldl (fun r d => r.set d.2 d.1) rev
  else xmlns.reverse.foldl (fun r d => if r.has d.2 then r else r.set d.2 d.1) rev

/-! ### set_xmlns_context -/

/-- The loop namespaces.py:204-213.  Result: remaining stack, the maps of the last popped
    context (if any), the xmlns of an already existing context for `(obj, level)`. -/
def popLoop (obj level : Nat) : List Ctx → Option (Map × Map) → List Ctx × Option (Map × Map) × Option Xmlns
  | [], r => ([], r, none)
  | c :: rest, r =>
    if level > c.level then (c :: rest, r, none)
    else if level = c.level ∧ c.obj = obj then (c :: rest, r, some c.xmlns)
    else popLoop obj level rest (some (c.ns, c.rev))

structure SetResult where
  m : Mapper
  ret : Option Xmlns            -- the value returned to the caller (None = `none`)
  fuelOk : Bool := true
  deriving Repr

/-- `set_xmlns_context(obj, level)` (namespaces.py:193-281); `decl` is what `_xmlns_getter(obj)`
    returns ([] for None / an empty list). -/
def setContext (v : Variant) (mode : Mode) (m : Mapper) (obj level : Nat) (decl : Xmlns) : SetResult :=
  let (stack, restored, found) := popLoop obj level m.stack none
  let (ns, rev) := match restored with
    | some (n, r) => (n, r)
    | none => (m.ns, m.rev)
  let m1 : Mapper := { ns, rev, stack }
  match found with
  | some x => if x.isEmpty then
      -- cannot happen (contexts are only pushed for non-empty xmlns); python would fall through
      { m := m1, ret := none }
    else { m := m1, ret := some x }
  | none =>
    if mode = .none then { m := m1, ret := none }
    else if decl.isEmpty then { m := m1, ret := none }
    else if mode = .stacked then
      let ctx : Ctx := { obj, level, xmlns := decl, ns, rev }
      let rev1 := repoint v ns rev decl
      let ns2 := Map.update ns decl
      let rev2 := revUpdate level rev1 decl
      { m := { ns := ns2, rev := rev2, stack := ctx :: stack }, ret := some decl }
    else if level = 0 ∨ mode = .collapsed then
      let (ns2, rev2, ok) := collapse (level = 0) ns rev decl
      { m := { ns := ns2, rev := rev2, stack }, ret := none, fuelOk := ok }
    else { m := m1, ret := none }

/-- `__setitem__` as it was before fix b20c29d (`namespaces[p] = u; _reverse[u] = p`): kept for the
    witness of C17-F5. -/
def setItemPre (m : Mapper) (pfx uri : String) : Mapper :=
  { m with ns := m.ns.set pfx uri, rev := m.rev.set uri pfx }

/-- `__setitem__` (namespaces.py:104-114) AS IT IS NOW: when the prefix was the recorded prefix of another
    URI, that record is repointed to the last prefix still bound to it. -/
def setItem (m : Mapper) (pfx uri : String) : Mapper :=
  let ns1 := m.ns.set pfx uri
  let rev1 := match m.ns.get pfx with
    | some old =>
      if old ≠ uri ∧ m.rev.get old = some pfx then
        let r := m.rev.erase old
        match ns1.lastKey fun _ u => u = old with
        | some k => r.set old k
        | none => r
      else m.rev
    | none => m.rev
  { m with ns := ns1, rev := rev1.set uri pfx }

/-- `__delitem__` (namespaces.py:116-123); `none` = KeyError. -/
def delItem (m : Mapper) (pfx : String) : Option Mapper :=
  match m.ns.get pfx with
  | none => none
  | some uri =>
    let ns1 := m.ns.erase pfx
    -- `del self._reverse[uri]` raises KeyError when the URI has no record
    if m.rev.has uri then
      let rev1 := m.rev.erase uri
      let rev2 := match ns1.lastKey fun _ u => u = uri with
        | some k => rev1.set uri k
        | none => rev1
      some { m with ns := ns1, rev := rev2 }
    else none

/-! ### names -/

/-- expanded name; `ns = ""` is "no namespace" (a plain local name in the Python code). -/
structure QN where
  ns : String
  loc : String
  deriving Repr, DecidableEq

/-- a name as it appears in decoded data. -/
inductive PName where
  | loc (l : String)                 -- `local`
  | pre (p l : String)               -- `prefix:local`, p ≠ ""
  | braced (u l : String)            -- `{uri}local`
  deriving Repr, DecidableEq

/-- `map_qname` with namespaces in use (namespaces.py:283-308). -/
def mapQName (m : Mapper) (q : QN) : PName :=
  if q.ns = "" then .loc q.loc                      -- qname[0] != '{'
  else if m.ns.isEmpty then .braced q.ns q.loc       -- `not self.namespaces`
  else match m.rev.get q.ns with
    | some p => if p = "" then .loc q.loc else .pre p q.loc
    | none => .braced q.ns q.loc

/-- result of `unmap_qname`: an expanded name, or the name returned unchanged because its prefix
    is unknown. -/
inductive Unmapped where
  | name (q : QN)
  | unknownPrefix (p l : String)
  deriving Repr, DecidableEq

/-- `unmap_qname(qname, name_table, xmlns)` with namespaces in use (namespaces.py:310-362).
    `inTable` = "a name_table was given and contains the name". -/
def unmapQName (ns0 : Map) (xmlns : Xmlns) (inTable : Bool) (n : PName) : Unmapped :=
  let ns := if xmlns.isEmpty then ns0 else Map.update ns0 xmlns
  match n with
  | .braced u l => .name ⟨u, l⟩
  | .pre p l =>
    if ns.isEmpty then .unknownPrefix p l
    else match ns.get p with
      | some u => .name ⟨u, l⟩                    -- f'{{{uri}}}{name}' if uri else name
      | none => .unknownPrefix p l
  | .loc l =>
    if ns.isEmpty then .name ⟨"", l⟩
    else match ns.get "" with
      | none => .name ⟨"", l⟩
      | some d => if d = "" then .name ⟨"", l⟩
                  else if inTable then .name ⟨"", l⟩ else .name ⟨d, l⟩

/-! ### name mapping switches and attribute keys -/

/-- `process_namespaces` / `strip_namespaces` (namespaces.py:79-80, 95: `_use_namespaces`). -/
structure NameCfg where
  process : Bool := true
  strip : Bool := false
  deriving Repr, DecidableEq

def NameCfg.useNs (c : NameCfg) : Bool := c.process && !c.strip

/-- `map_qname` (namespaces.py:291-292 then 294-308): without namespaces in use the name is returned
    unchanged (`{uri}local` stays in extended form) or reduced to its local part. -/
def mapQNameCfg (c : NameCfg) (m : Mapper) (q : QN) : PName :=
  if c.useNs then mapQName m q
  else if c.strip then .loc q.loc
  else if q.ns = "" then .loc q.loc else .braced q.ns q.loc

/-- `unmap_qname` (namespaces.py:327-328 then 330-362); `local_name` of utils/qnames.py:74-93. -/
def unmapQNameCfg (c : NameCfg) (ns0 : Map) (xmlns : Xmlns) (inTable : Bool) (n : PName) : Unmapped :=
  if c.useNs then unmapQName ns0 xmlns inTable n
  else if c.strip then
    match n with
    | .loc l => .name ⟨"", l⟩
    | .pre _ l => .name ⟨"", l⟩
    | .braced _ l => .name ⟨"", l⟩
  else
    match n with
    | .loc l => .name ⟨"", l⟩
    | .pre p l => .unknownPrefix p l
    | .braced u l => .name ⟨u, l⟩

/-- How `map_attributes` (converters/base.py:233-245) writes the key of an attribute:
    `current`  = `map_qname(name)` as in the tree under check (an attribute whose namespace has the empty
                 prefix recorded becomes a bare local name: finding C17-F7);
    `repaired` = notes/fixes/C17-attribute-default-prefix.patch: a bare result for a namespaced attribute is
                 replaced by the last non-empty prefix bound to the namespace, else the extended name is kept. -/
inductive AttrRule where
  | current | repaired
  deriving Repr, DecidableEq

def mapAttr (r : AttrRule) (m : Mapper) (q : QN) : PName :=
  match r with
  | .current => mapQName m q
  | .repaired =>
    match mapQName m q with
    | .loc l =>
      if q.ns = "" then .loc l
      else match m.ns.lastKey (fun k u => k ≠ "" && u = q.ns) with
        | some p => .pre p l
        | none => .braced q.ns l
    | n => n

/-- `map_attributes` under the name switches: both rules map through `map_qname`, which returns the name
    unchanged / its local part when namespaces are not in use (the repaired rule is guarded by `_use_namespaces`). -/
def mapAttrCfg (c : NameCfg) (r : AttrRule) (m : Mapper) (q : QN) : PName :=
  if c.useNs then mapAttr r m q else mapQNameCfg c m q

/-! ### the validators' call pattern while decoding a document -/

/-- An element: identifier, expanded tag, attribute names, its own xmlns declarations, children. -/
inductive Tree where
  | node (id : Nat) (tag : QN) (attrs : List QN) (decl : Xmlns) (children : List Tree)
  deriving Repr

/-- What the decoder emits for one element: the key under which it is stored (mapped in the
    context set by groups.py:1008-1009, or elements.py:645 for the root), the attribute keys
    (mapped after elements.py:833 purged the sub-contexts) and the maps in force at both points. -/
structure Obs where
  id : Nat
  level : Nat
  tag : QN
  key : PName
  nsAtKey : Map
  attrs : List (QN × PName)
  attrsR : List (QN × PName)      -- the attribute keys under the repaired rule (`AttrRule.repaired`)
  nsAtAttrs : Map
  ret : Option Xmlns             -- xmlns handed to the converter for this element
  revAtKey : Map
  revAtAttrs : Map
  fuelOk : Bool
  deriving Repr

mutual
/-- groups.py:1008-1009 `set_xmlns_context(child, level); name = map_qname(child.tag)` (for the root:
    elements.py:645), then the children one level deeper, then elements.py:833. -/
def visit (v : Variant) (mode : Mode) (level : Nat) : Tree → Mapper → Mapper × List Obs
  | .node id tag attrs decl children, m =>
    let r1 := setContext v mode m id level decl
    let key := mapQName r1.m tag
    let (m2, obs) := visitList v mode (level + 1) children r1.m
    let r3 := setContext v mode m2 id level decl
    let o : Obs := { id, level, tag, key, nsAtKey := r1.m.ns,
                     attrs := attrs.map fun a => (a, mapQName r3.m a),
                     attrsR := attrs.map fun a => (a, mapAttr .repaired r3.m a), nsAtAttrs := r3.m.ns,
                     ret := r3.ret, revAtKey := r1.m.rev, revAtAttrs := r3.m.rev,
                     fuelOk := r1.fuelOk && r3.fuelOk }
    (r3.m, o :: obs)

def visitList (v : Variant) (mode : Mode) (level : Nat) : List Tree → Mapper → Mapper × List Obs
  | [], m => (m, [])
  | t :: ts, m =>
    let (m1, o1) := visit v mode level t m
    let (m2, o2) := visitList v mode level ts m1
    (m2, o1 ++ o2)
end

/-- Mapper as built by `NamespaceMapper.__init__` for an XMLResource source (namespaces.py:82-106,
    resources/xml_resource.py:766-771): user map, then the root declarations merged without
    overwriting (`mode ≠ none`), then the reverse map. -/
def initMapper (mode : Mode) (user : Map) (rootDecl : Xmlns) : Mapper × Bool :=
  if mode = .none then ({ ns := user, rev := mkReverse user }, true)
  else
    let (ns, ok) := updateNamespaces user rootDecl true
    ({ ns, rev := mkReverse ns }, ok)

/-- decode of a whole document. -/
def decodeDoc (v : Variant) (mode : Mode) (user : Map) (t : Tree) : Mapper × List Obs × Bool :=
  match t with
  | .node _ _ _ decl _ =>
    let (m0, ok) := initMapper mode user decl
    let (m, obs) := visit v mode 0 t m0
    (m, obs, ok)

/-! ### decoded data as a tree, and the encoders' call pattern -/

/-- One element of decoded data as the converters that report namespace declarations build it
    (converters/base.py:336-419, badgerfish.py, jsonml.py, gdata.py): the key under which it is stored, whether
    it is a mapping (list for JsonML) at all, the xmlns entries it reports, its attribute keys, its children. -/
inductive Item where
  | node (id : Nat) (key : PName) (isMap : Bool) (xmlns : Xmlns) (attrs : List PName) (children : List Item)
  deriving Repr

def Item.id : Item → Nat | .node i _ _ _ _ _ => i
def Item.key : Item → PName | .node _ k _ _ _ _ => k
def Item.xmlns : Item → Xmlns | .node _ _ _ x _ _ => x

/-- `get_effective_xmlns` (converters/base.py:307-320): at level 0 the whole namespace map is reported (the
    root of a document is a global element), below it the xmlns returned by the purge call. -/
def reported (level : Nat) (r : SetResult) : Xmlns :=
  if level = 0 then r.m.ns else r.ret.getD []

/-- `keep_result_dict` (converters/base.py:353-375) for the default and unordered converters (`prune = true`):
    an element without attributes and children keeps its dictionary — and with it the reported xmlns — only
    when one of the reported declarations binds the namespace of its own tag; otherwise the item is its text
    (not a mapping).  BadgerFish, GData and JsonML keep every item (`prune = false`). -/
def keptItem (prune : Bool) (tag : QN) (xm : Xmlns) (attrs : List PName) (children : List Item) : Bool :=
  !prune || !attrs.isEmpty || !children.isEmpty || xm.any (fun d => d.2 = tag.ns)

mutual
/-- `visit`, building the data tree instead of the list of observations. -/
def decodeT (v : Variant) (a : AttrRule) (prune : Bool) (mode : Mode) (level : Nat) : Tree → Mapper → Mapper × Item
  | .node id tag attrs decl children, m =>
    let r1 := setContext v mode m id level decl
    let key := mapQName r1.m tag
    let (m2, items) := decodeTList v a prune mode (level + 1) children r1.m
    let r3 := setContext v mode m2 id level decl
    let xm := reported level r3
    let as := attrs.map (mapAttr a r3.m)
    if keptItem prune tag xm as items then (r3.m, .node id key true xm as items)
    else (r3.m, .node id key false [] [] [])

def decodeTList (v : Variant) (a : AttrRule) (prune : Bool) (mode : Mode) (level : Nat) :
    List Tree → Mapper → Mapper × List Item
  | [], m => (m, [])
  | t :: ts, m =>
    let (m1, i1) := decodeT v a prune mode level t m
    let (m2, i2) := decodeTList v a prune mode level ts m1
    (m2, i1 :: i2)
end

/-- What the encoder makes of one item: the namespaces in force after its `set_xmlns_context`, the expanded
    name under which it is encoded and the expanded names of its attributes. -/
structure EncObs where
  id : Nat
  level : Nat
  ns : Map
  rev : Map
  tag : Unmapped
  attrs : List Unmapped
  dropped : Bool := false   -- the converter refused the item (`encVisitG` only): it is not in the produced tree
  deriving Repr

/-- `name_table` argument of `unmap_qname` for attribute keys (`xsd_element.attributes`): only a bare local
    name is ever looked up (`tab id l` = "the type of element `id` declares the unqualified attribute `l`"). -/
def attrInTable (tab : Nat → String → Bool) (id : Nat) : PName → Bool
  | .loc l => tab id l
  | _ => false

mutual
/-- `element_encode` (converters/base.py:422-494; the same pattern in unordered.py, badgerfish.py, gdata.py,
    jsonml.py) driven by validators/elements.py:978 / groups.py raw_encode: a mapping item sets its xmlns
    context (an item that is not a mapping returns before doing so, base.py:440-446), resolves its attribute
    keys with the element's attribute table and the keys of ALL its children with the children's own xmlns as
    override; then the children are encoded one level deeper.  `tag` was resolved by the parent. -/
def encVisit (v : Variant) (mode : Mode) (tab : Nat → String → Bool) (level : Nat) (tag : Unmapped) :
    Item → Mapper → Mapper × List EncObs
  | .node id _ isMap xmlns attrs children, m =>
    if isMap then
      let r := setContext v mode m id level xmlns
      let as := attrs.map fun k => unmapQName r.m.ns [] (attrInTable tab id k) k
      let (m2, obs) := encVisitList v mode tab (level + 1) r.m.ns children r.m
      (m2, { id, level, ns := r.m.ns, rev := r.m.rev, tag, attrs := as } :: obs)
    else (m, [{ id, level, ns := m.ns, rev := m.rev, tag, attrs := [] }])

def encVisitList (v : Variant) (mode : Mode) (tab : Nat → String → Bool) (level : Nat) (pns : Map) :
    List Item → Mapper → Mapper × List EncObs
  | [], m => (m, [])
  | c :: cs, m =>
    let (m1, o1) := encVisit v mode tab level (unmapQName pns (Item.xmlns c) false (Item.key c)) c m
    let (m2, o2) := encVisitList v mode tab level pns cs m1
    (m2, o1 ++ o2)
end

/-- Encoding of a whole data tree with the root preserved: the root's own key is resolved after its context
    was set (base.py:452-457; jsonml.py:100-102; badgerfish.py:107 resolves it before, with the root's xmlns
    as override, which is the same map). -/
def encodeDoc (v : Variant) (mode : Mode) (tab : Nat → String → Bool) (item : Item) (e0 : Mapper) :
    Mapper × List EncObs :=
  match item with
  | .node id key isMap xmlns _ _ =>
    let ns := if isMap then (setContext v mode e0 id 0 xmlns).m.ns else e0.ns
    encVisit v mode tab 0 (unmapQName ns [] false key) item e0

/-! ### the encoders as they are in the tree, with the mechanisms of the listed findings behind flags -/

/-- What the encoder needs to know of the schema: whether an element name has a declaration (otherwise it is
    admitted by a lax wildcard and typed xs:anyType, whose content is again a wildcard and which declares no
    attribute), and the unqualified attributes the type of a declared element declares. -/
structure EncSchema where
  declared : QN → Bool
  unq : QN → String → Bool

/-- The mechanisms behind the listed findings, each of which can be switched off (= repaired):
    `f9`     `unmap_qname(key, xsd_element.attributes)` (base.py:473 …): an unprefixed attribute key that is not in
             the element's attribute table is put into the default namespace (namespaces.py:342-348);
    `f10`    validators/groups.py:1110, 1161, 1170: a child matched by an element WILDCARD whose resolved name has no
             namespace is renamed with `get_qname(default_namespace, name)`, `default_namespace` = the converter's
             default namespace when the parent's group starts;
    `ownTag` JsonMLConverter.element_encode (jsonml.py:100-104): the item's own key is resolved again after its
             context is set and the item is refused ("Unmatched tag") when that is not the element it was matched to. -/
structure EncFlags where
  f9 : Bool := true
  f10 : Bool := true
  ownTag : Bool := false
  deriving Repr, DecidableEq

def tagDeclared (sch : EncSchema) : Unmapped → Bool
  | .name q => sch.declared q
  | .unknownPrefix _ _ => false

/-- the attribute table lookup of `unmap_qname` for the element encoded under `tag` -/
def attrInTableG (fl : EncFlags) (sch : EncSchema) (tag : Unmapped) : PName → Bool
  | .loc l => !fl.f9 || (match tag with
      | .name q => sch.declared q && sch.unq q l
      | .unknownPrefix _ _ => false)
  | _ => false

/-- groups.py:1155-1161 for a child of an element whose content is a wildcard (`wildParent`): a resolved name in
    no namespace takes the parent's default namespace. -/
def f10Rename (fl : EncFlags) (wildParent : Bool) (pns : Map) (t : Unmapped) : Unmapped :=
  if fl.f10 && wildParent then
    match t with
    | .name q =>
      if q.ns = "" then
        match pns.get "" with
        | some d => if d = "" then t else .name ⟨d, q.loc⟩
        | none => t
      else t
    | _ => t
  else t

mutual
/-- `encVisit` with the schema oracle and the mechanisms of `EncFlags`.  `tag` is the name the validators matched
    the item to (resolved by the parent, possibly renamed by `f10Rename`). -/
def encVisitG (v : Variant) (mode : Mode) (fl : EncFlags) (sch : EncSchema) (level : Nat) (tag : Unmapped) :
    Item → Mapper → Mapper × List EncObs
  | .node id key isMap xmlns attrs children, m =>
    if isMap then
      let r := setContext v mode m id level xmlns
      if fl.ownTag && unmapQName r.m.ns [] false key != tag then
        (r.m, [{ id, level, ns := r.m.ns, rev := r.m.rev, tag, attrs := [], dropped := true }])
      else
        let as := attrs.map fun k => unmapQName r.m.ns [] (attrInTableG fl sch tag k) k
        let (m2, obs) := encVisitListG v mode fl sch (level + 1) r.m.ns (!tagDeclared sch tag) children r.m
        (m2, { id, level, ns := r.m.ns, rev := r.m.rev, tag, attrs := as } :: obs)
    else (m, [{ id, level, ns := m.ns, rev := m.rev, tag, attrs := [] }])

def encVisitListG (v : Variant) (mode : Mode) (fl : EncFlags) (sch : EncSchema) (level : Nat) (pns : Map)
    (wildParent : Bool) : List Item → Mapper → Mapper × List EncObs
  | [], m => (m, [])
  | c :: cs, m =>
    let t := f10Rename fl wildParent pns (unmapQName pns (Item.xmlns c) false (Item.key c))
    let (m1, o1) := encVisitG v mode fl sch level t c m
    let (m2, o2) := encVisitListG v mode fl sch level pns wildParent cs m1
    (m2, o1 ++ o2)
end

def encodeDocG (v : Variant) (mode : Mode) (fl : EncFlags) (sch : EncSchema) (item : Item) (e0 : Mapper) :
    Mapper × List EncObs :=
  match item with
  | .node id key isMap xmlns _ _ =>
    let ns := if isMap then (setContext v mode e0 id 0 xmlns).m.ns else e0.ns
    encVisitG v mode fl sch 0 (unmapQName ns [] false key) item e0

end XsVerif.NsMapper
