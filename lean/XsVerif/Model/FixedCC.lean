/-
  C19 — value constraint `fixed` on an element with COMPLEX (mixed) content: port of the decision of
  XsdElement.raw_decode (elements.py, complex-content branch) in a validation-only run (iter_errors / is_valid /
  validate: the decoded `content` is None; `value` is None, or already the stripped text when the text is white space
  only -- the same outcome as the second line below):

      fixed_value = value                                   # None
      if fixed_value is None and obj.text and not len(obj): fixed_value = str(obj.text.strip())
      if self.fixed is not None and (len(obj) > 0 or fixed_value is not None and self.fixed != fixed_value): error

  `El` is what the decision reads of the element: `obj.text` and `len(obj)` (number of children).
-/
namespace XsVerif.FixedCC

structure El where
  text : Option String
  kids : Nat
deriving Repr, DecidableEq

/-- Python `str.strip()` on the generated texts (ASCII white space) -/
def strip (s : String) : String := s.trimAscii.toString

def fixedValue (e : El) : Option String :=
  match e.text with
  | some t => if t ≠ "" ∧ e.kids = 0 then some (strip t) else none
  | none => none

/-- `true` = the error "must have the fixed value" is raised at the element -/
def libErr (fixed : String) (e : El) : Bool :=
  decide (e.kids > 0) ||
    (match fixedValue e with
     | some v => decide (fixed ≠ v)
     | none => false)

/-- the single-fault operator "extra child": one more element child, text untouched -/
def addChild (e : El) : El := { e with kids := e.kids + 1 }

/-- the single-fault operator "bad value": another text -/
def setText (e : El) (t : String) : El := { e with text := some t }

end XsVerif.FixedCC
