/-
  Model for property C11, clause "lax mode never raises for invalid content":
  the error-collection policy of the validation / decoding / encoding descent.

  (a) `ValidationContext.raise_or_collect` (xmlschema/validators/validation.py:216-236) is the only
      primitive through which a validation error leaves the descent: it raises in strict mode only.
  (b) Every other `raise` statement of the package `xmlschema.validators` is a *raise site*.  The
      table of the sites (`Generated.C11.raiseSites`: function, class, the mode test that encloses
      the statement, reachability from raw_decode / raw_encode in the name-based call graph) is
      regenerated from the AST of the source on every run (harness/lib_c11sites.py).
  (c) `policyBase` (+ `guardEntries` for the repaired descent) below is the HAND-MAINTAINED classification of the sites that are not enclosed by
      `if validation == 'strict'`: one entry per (function, class) with the number of such `raise`
      statements in that function.  A `raise` added to the code changes a count or adds a key and
      breaks `Props.C11.raise_sites_classified` / `policy_counts_match` until it is classified.
  (d) `fire` is what a site does when the descent reaches it in a given mode, under the hypotheses
      of the property (a BUILT schema, a document handed to the documented entry points with
      well-typed arguments): nothing, an error collected through (a), or an exception that leaves
      the entry point.  The harness observes every raise of the package while the fuzz runs
      (sys.monitoring) and compares: a site classified `silent` that fires, or a site classified
      `collected` whose exception leaves a lax / skip entry point, breaks the tie.

  No Mathlib import: linked into the native driver `drv_c11`.
-/
import XsVerif.Model.Modes

namespace XsVerif.RaisePolicy
open XsVerif.Modes (Mode)

/-- the test on `validation` that encloses a `raise` statement inside its function
    (computed from the AST: `if validation == 'strict':`, `if validation != 'skip' and …`, else-branches) -/
inductive Guard where
  | strict | notSkip | lax | skip | notStrict | never | none
  deriving DecidableEq, Repr, Inhabited

def Guard.admits : Guard → Mode → Bool
  | .strict, m => m == .strict
  | .notSkip, m => m != .skip
  | .lax, m => m == .lax
  | .skip, m => m == .skip
  | .notStrict, m => m != .strict
  | .never, _ => false
  | .none, _ => true

/-- one `raise` statement -/
structure RaiseSite where
  /-- `<module>:<qualified function>:<class>` -/
  key : String
  /-- k-th `raise` of that class in that function -/
  idx : Nat
  cls : String
  guard : Guard
  /-- reachable from raw_decode / raw_encode and the entry-point wrappers (name-based call graph) -/
  reachable : Bool
  deriving Repr, Inhabited, DecidableEq

inductive Kind where
  /-- enclosed by `if validation == 'strict'` (derived from the AST, not listed in `policy`) -/
  | strictGuard
  /-- the body of `validate()`: `for error in self.iter_errors(…): raise error` — strict by definition -/
  | strictWrapper
  /-- a bare `raise` in a handler: re-raises what is already in flight, originates nothing -/
  | propagates
  /-- raised inside a helper of the descent (facet validators, converters, identity counters, xsi:type
      look-up); every caller inside the package catches it and hands it to `raise_or_collect`
      (or drops it): collected in lax, dropped in skip; in strict mode it is the strict-guarded
      `raise error` of raise_or_collect — a site of its own — that raises -/
  | caught
  /-- runs only while schema components are parsed / built or when the component API is used to
      modify a schema: not run for a BUILT schema on a document -/
  | buildTime
  /-- XMLSchemaNotBuiltError: excluded by "built schema" -/
  | notBuilt
  /-- NotImplementedError of an abstract method that every concrete class overrides -/
  | abstractStub
  /-- internal consistency check (`ModelVisitor … is ended`, `wrong base type`): callers test the
      condition first -/
  | invariant
  /-- depends on the arguments of the call (component-level decode of a str with a complex type,
      no element selectable for ENCODING, wrong argument type), not on a document -/
  | apiArgument
  /-- resource / limit error: XMLSchemaModelDepthError (limits.MAX_MODEL_DEPTH) -/
  | limit
  /-- XMLSchemaStopValidation, requested by the caller's hook and caught by iter_errors -/
  | stop
  /-- raises for document content whatever the mode: a violation of the property -/
  | content
  deriving DecidableEq, Repr, Inhabited

inductive Fire where
  /-- the statement is not executed (or originates nothing) -/
  | silent
  /-- an error is handed to raise_or_collect in lax mode / dropped in skip mode -/
  | collected
  /-- an exception leaves the entry point -/
  | escapes
  deriving DecidableEq, Repr, Inhabited

/-- what a site of kind `k` enclosed by guard `g` does in mode `m` -/
def fire (k : Kind) (g : Guard) (m : Mode) : Fire :=
  if !g.admits m then .silent else
  match k with
  | .strictGuard | .strictWrapper => if m == .strict then .escapes else .silent
  | .caught => .collected
  | .propagates | .buildTime | .notBuilt | .abstractStub | .invariant | .apiArgument => .silent
  | .limit | .stop | .content => .escapes

/-- kinds whose exception may leave a lax / skip entry point, by design -/
def Kind.resourceOrStop : Kind → Bool
  | .limit | .stop => true
  | _ => false

/-- hand-maintained classification: (key, number of not strict-guarded `raise` statements with
    that key, kind) -/
def policyBase : List (String × Nat × Kind) := [
  ("assertions:XsdAssert.__call__:XMLSchemaNotBuiltError", 1, .notBuilt),
  ("attributes:XsdAttributeGroup.__setitem__:XMLSchemaValueError", 1, .buildTime),
  ("builders:StagedMap.__getitem__:XMLSchemaKeyError", 1, .caught),
  ("builders:StagedMap._build_global:<reraise:ValueError>", 1, .buildTime),
  ("builders:StagedMap._build_global:XMLSchemaCircularityError", 2, .buildTime),
  ("builders:StagedMap._build_global:XMLSchemaValueError", 1, .buildTime),
  ("builders:XsdBuilders.__delete__:XMLSchemaAttributeError", 1, .buildTime),
  ("builders:XsdBuilders.__set__:XMLSchemaAttributeError", 1, .buildTime),
  ("builders:XsdBuilders.__setattr__:XMLSchemaTypeError", 1, .buildTime),
  ("builders:XsdBuilders.__setattr__:XMLSchemaValueError", 2, .buildTime),
  ("builders:XsdBuilders.create_empty_content_group:XMLSchemaValueError", 1, .buildTime),
  ("complex_types:XsdComplexType._parse_derivation_elem:XMLSchemaValueError", 1, .buildTime),
  ("complex_types:XsdComplexType.decode:XMLSchemaDecodeError", 1, .apiArgument),
  ("complex_types:XsdComplexType.raw_decode:XMLSchemaDecodeError", 1, .apiArgument),
  ("elements:Xsd11Element.check_dynamic_context.stop_validation:XMLSchemaStopValidation", 1, .stop),
  ("elements:XsdElement.raw_encode:<reraise:XMLSchemaValidationError>", 3, .propagates),
  ("facets:XsdAssertionFacet.__call__:XMLSchemaValidationError", 2, .caught),
  ("facets:XsdEnumerationFacets.__call__:XMLSchemaValidationError", 1, .caught),
  ("facets:XsdExplicitTimezoneFacet.prohibited_timezone_validator:XMLSchemaValidationError", 1, .caught),
  ("facets:XsdExplicitTimezoneFacet.required_timezone_validator:XMLSchemaValidationError", 1, .caught),
  ("facets:XsdFacet.invalid_type_error:XMLSchemaValidationError", 1, .caught),
  ("facets:XsdFractionDigitsFacet.__call__:XMLSchemaValidationError", 2, .caught),
  ("facets:XsdFractionDigitsFacet._parse_value:ValueError", 1, .buildTime),
  ("facets:XsdLengthFacet.length_validator:XMLSchemaValidationError", 1, .caught),
  ("facets:XsdMaxExclusiveFacet.__call__:XMLSchemaValidationError", 1, .caught),
  ("facets:XsdMaxExclusiveFacet._parse_value:TypeError", 1, .buildTime),
  ("facets:XsdMaxInclusiveFacet.__call__:XMLSchemaValidationError", 1, .caught),
  ("facets:XsdMaxInclusiveFacet._parse_value:TypeError", 1, .buildTime),
  ("facets:XsdMaxLengthFacet.max_length_validator:XMLSchemaValidationError", 1, .caught),
  ("facets:XsdMinExclusiveFacet.__call__:XMLSchemaValidationError", 1, .caught),
  ("facets:XsdMinExclusiveFacet._parse_value:TypeError", 1, .buildTime),
  ("facets:XsdMinInclusiveFacet.__call__:XMLSchemaValidationError", 1, .caught),
  ("facets:XsdMinInclusiveFacet._parse_value:TypeError", 1, .buildTime),
  ("facets:XsdMinLengthFacet.min_length_validator:XMLSchemaValidationError", 1, .caught),
  ("facets:XsdPatternFacets.__call__:XMLSchemaValidationError", 1, .caught),
  ("facets:XsdTotalDigitsFacet.__call__:XMLSchemaValidationError", 2, .caught),
  ("facets:XsdWhiteSpaceFacet.collapse_white_space_validator:XMLSchemaValidationError", 1, .caught),
  ("facets:XsdWhiteSpaceFacet.replace_white_space_validator:XMLSchemaValidationError", 1, .caught),
  ("groups:Xsd11Group.is_restriction:XMLSchemaValueError", 1, .buildTime),
  ("groups:XsdGroup.__delitem__:XMLSchemaValidatorError", 1, .buildTime),
  ("groups:XsdGroup.__setitem__:XMLSchemaValidatorError", 1, .buildTime),
  ("groups:XsdGroup.check_dynamic_context:XMLSchemaValidationError", 3, .caught),
  ("groups:XsdGroup.insert:XMLSchemaValidatorError", 1, .buildTime),
  ("groups:XsdGroup.is_restriction:XMLSchemaValueError", 1, .buildTime),
  ("groups:XsdGroup.iter_elements:XMLSchemaModelDepthError", 1, .limit),
  ("groups:XsdGroup.iter_model:XMLSchemaModelDepthError", 1, .limit),
  ("groups:XsdGroup.iter_subgroups:XMLSchemaModelDepthError", 1, .limit),
  ("groups:XsdGroup.iter_subgroups:XMLSchemaModelError", 1, .buildTime),
  ("helpers:base64_binary_validator:XMLSchemaValidationError", 1, .caught),
  ("helpers:boolean_to_python:XMLSchemaValueError", 1, .caught),
  ("helpers:byte_validator:XMLSchemaValidationError", 1, .caught),
  ("helpers:decimal_to_python:ValueError", 1, .caught),
  ("helpers:decimal_validator:ValueError", 1, .caught),
  ("helpers:decimal_validator:XMLSchemaValidationError", 1, .caught),
  ("helpers:error_type_validator:XMLSchemaValidationError", 1, .caught),
  ("helpers:hex_binary_validator:XMLSchemaValidationError", 1, .caught),
  ("helpers:int_validator:XMLSchemaValidationError", 1, .caught),
  ("helpers:integer_to_python:ValueError", 1, .caught),
  ("helpers:long_validator:XMLSchemaValidationError", 1, .caught),
  ("helpers:negative_int_validator:XMLSchemaValidationError", 1, .caught),
  ("helpers:non_negative_int_validator:XMLSchemaValidationError", 1, .caught),
  ("helpers:non_positive_int_validator:XMLSchemaValidationError", 1, .caught),
  ("helpers:parse_target_namespace:XMLSchemaValueError", 1, .buildTime),
  ("helpers:parse_xsd_derivation:ValueError", 1, .buildTime),
  ("helpers:positive_int_validator:XMLSchemaValidationError", 1, .caught),
  ("helpers:python_to_boolean:XMLSchemaValueError", 1, .caught),
  ("helpers:qname_validator:XMLSchemaValidationError", 1, .caught),
  ("helpers:short_validator:XMLSchemaValidationError", 1, .caught),
  ("helpers:unsigned_byte_validator:XMLSchemaValidationError", 1, .caught),
  ("helpers:unsigned_int_validator:XMLSchemaValidationError", 1, .caught),
  ("helpers:unsigned_long_validator:XMLSchemaValidationError", 1, .caught),
  ("helpers:unsigned_short_validator:XMLSchemaValidationError", 1, .caught),
  ("identities:FieldValueSelector.__init__:XMLSchemaNotBuiltError", 1, .notBuilt),
  ("identities:FieldValueSelector.__init__:XMLSchemaTypeError", 1, .buildTime),
  ("identities:FieldValueSelector.get_value:XMLSchemaTypeError", 2, .caught),
  ("identities:FieldValueSelector.get_value:XMLSchemaValueError", 2, .caught),
  ("identities:IdentityCounter.increase:XMLSchemaValueError", 1, .caught),
  ("identities:XsdIdentity.update_elements:XMLSchemaTypeError", 1, .caught),
  ("models:ModelVisitor._iter_all_model_errors:XMLSchemaModelDepthError", 1, .limit),
  ("models:ModelVisitor.advance:XMLSchemaValueError", 1, .invariant),
  ("models:ModelVisitor.advance_safe:XMLSchemaRuntimeError", 1, .invariant),
  ("models:ModelVisitor.advance_to:XMLSchemaValueError", 2, .invariant),
  ("models:ModelVisitor.advance_until:XMLSchemaValueError", 1, .invariant),
  ("models:ModelVisitor.check_following:XMLSchemaTypeError", 1, .buildTime),
  ("models:ModelVisitor.get_model_particle:XMLSchemaValueError", 1, .invariant),
  ("models:ModelVisitor.match_element:XMLSchemaValueError", 1, .invariant),
  ("models:check_model.safe_iter_path:XMLSchemaModelDepthError", 1, .limit),
  ("models:check_model:XMLSchemaModelError", 3, .buildTime),
  ("particles:ParticleMixin.parse_error:XMLSchemaValueError", 1, .buildTime),
  ("schemas:XMLSchemaBase.__init__:XMLSchemaValueError", 1, .buildTime),
  ("schemas:XMLSchemaBase.__setattr__:XMLSchemaAttributeError", 6, .buildTime),
  ("schemas:XMLSchemaBase.__setattr__:XMLSchemaTypeError", 1, .buildTime),
  ("schemas:XMLSchemaBase.__setattr__:XMLSchemaValueError", 2, .buildTime),
  ("schemas:XMLSchemaBase.builtin_types:XMLSchemaRuntimeError", 1, .buildTime),
  ("schemas:XMLSchemaBase.get_schema:XMLSchemaKeyError", 1, .caught),
  ("schemas:XMLSchemaBase.iter_encode:XMLSchemaEncodeError", 1, .apiArgument),
  ("schemas:XMLSchemaBase.iter_encode:XMLSchemaValueError", 1, .apiArgument),
  ("schemas:XMLSchemaBase.resolve_qname:XMLSchemaKeyError", 1, .buildTime),
  ("schemas:XMLSchemaBase.resolve_qname:XMLSchemaNamespaceError", 2, .buildTime),
  ("schemas:XMLSchemaBase.resolve_qname:XMLSchemaValueError", 2, .buildTime),
  ("schemas:XMLSchemaBase.validate:<var:error>", 1, .strictWrapper),
  ("schemas:XMLSchemaMeta.__new__:XMLSchemaAttributeError", 1, .buildTime),
  ("schemas:XMLSchemaMeta.__new__:XMLSchemaTypeError", 2, .buildTime),
  ("schemas:XMLSchemaMeta.__new__:XMLSchemaValueError", 1, .buildTime),
  ("simple_types:XsdAtomic.get_atomic_value:<reraise:ValueError|DecimalException|TypeError>", 1, .propagates),
  ("simple_types:XsdAtomicBuiltin.__init__:XMLSchemaTypeError", 2, .buildTime),
  ("simple_types:XsdAtomicBuiltin.__init__:XMLSchemaValueError", 1, .buildTime),
  ("simple_types:XsdAtomicRestriction.parse:XMLSchemaValueError", 1, .buildTime),
  ("simple_types:XsdAtomicRestriction.raw_decode:XMLSchemaValueError", 1, .invariant),
  ("simple_types:XsdAtomicRestriction.raw_encode:XMLSchemaValueError", 1, .invariant),
  ("simple_types:XsdList.parse:XMLSchemaValueError", 1, .buildTime),
  ("simple_types:XsdSimpleType.facets:XMLSchemaValueError", 1, .buildTime),
  ("simple_types:XsdUnion.get_atomic_value:XMLSchemaTypeError", 1, .caught),
  ("simple_types:XsdUnion.parse:XMLSchemaValueError", 1, .buildTime),
  ("validation:EncodeSourceArgument.validated_value:XMLSchemaTypeError", 1, .apiArgument),
  ("validation:ValidationMixin.raw_decode:NotImplementedError", 1, .abstractStub),
  ("validation:ValidationMixin.raw_encode:NotImplementedError", 1, .abstractStub),
  ("validation:ValidationMixin.validate:<var:error>", 1, .strictWrapper),
  ("wildcards:XsdWildcard.union:XMLSchemaValueError", 1, .buildTime),
  ("xsd_globals:XsdGlobals.__setattr__:XMLSchemaAttributeError", 1, .buildTime),
  ("xsd_globals:XsdGlobals.check:<reraise:XMLSchemaModelError>", 1, .buildTime),
  ("xsd_globals:XsdGlobals.check_loaded_schemas:XMLSchemaNamespaceError", 2, .buildTime),
  ("xsd_globals:XsdGlobals.check_loaded_schemas:XMLSchemaValueError", 2, .buildTime),
  ("xsd_globals:XsdGlobals.get_instance_type:XMLSchemaTypeError", 1, .caught),
  ("xsd_globals:XsdGlobals.lookup:XMLSchemaValueError", 1, .buildTime),
  ("xsd_globals:XsdGlobals.protect_status:<reraise:XMLSchemaException>", 1, .buildTime),
  ("xsd_globals:XsdGlobals.register:XMLSchemaValidatorError", 1, .buildTime),
  ("xsd_globals:XsdGlobals.register:XMLSchemaValueError", 1, .buildTime),
  ("xsdbase:XsdComponent.get_global:XMLSchemaValueError", 1, .buildTime),
  ("xsdbase:XsdComponent.meta_tag:NotImplementedError", 1, .abstractStub),
  ("xsdbase:XsdComponent.parse:XMLSchemaValueError", 2, .buildTime),
  ("xsdbase:XsdType.content_type_label:NotImplementedError", 1, .abstractStub),
  ("xsdbase:XsdType.has_complex_content:NotImplementedError", 1, .abstractStub),
  ("xsdbase:XsdType.has_mixed_content:NotImplementedError", 1, .abstractStub),
  ("xsdbase:XsdType.has_simple_content:NotImplementedError", 1, .abstractStub),
  ("xsdbase:XsdType.is_complex:NotImplementedError", 1, .abstractStub),
  ("xsdbase:XsdType.is_derived:NotImplementedError", 1, .abstractStub),
  ("xsdbase:XsdType.is_dynamic_consistent:NotImplementedError", 1, .abstractStub),
  ("xsdbase:XsdType.is_element_only:NotImplementedError", 1, .abstractStub),
  ("xsdbase:XsdType.is_emptiable:NotImplementedError", 1, .abstractStub),
  ("xsdbase:XsdType.is_empty:NotImplementedError", 1, .abstractStub),
  ("xsdbase:XsdType.is_simple:NotImplementedError", 1, .abstractStub),
  ("xsdbase:XsdType.overall_max_occurs:XMLSchemaTypeError", 1, .buildTime),
  ("xsdbase:XsdType.overall_min_occurs:XMLSchemaTypeError", 1, .buildTime),
  ("xsdbase:XsdType.root_type:NotImplementedError", 1, .abstractStub),
  ("xsdbase:XsdType.sequence_type:NotImplementedError", 1, .abstractStub),
  ("xsdbase:XsdType.simple_type:NotImplementedError", 1, .abstractStub),
  ("xsdbase:XsdType.text_decode:NotImplementedError", 1, .abstractStub),
  ("xsdbase:XsdType.text_is_valid:NotImplementedError", 1, .abstractStub),
  ("xsdbase:XsdValidator.build:NotImplementedError", 1, .abstractStub),
  ("xsdbase:XsdValidator.built:NotImplementedError", 1, .abstractStub),
  ("xsdbase:XsdValidator.check_validator:XMLSchemaNotBuiltError", 1, .notBuilt),
  ("xsdbase:XsdValidator.iter_components:NotImplementedError", 1, .abstractStub),
  ("xsdbase:XsdValidator.parse_error:<var:error>", 1, .buildTime),
  ("xsdbase:XsdValidator.parse_error:XMLSchemaTypeError", 2, .buildTime),
  ("xsdbase:XsdValidator.validation_attempted:NotImplementedError", 1, .abstractStub)
]

/-- the two `raise XMLResourceExceeded(…)` statements that the repair of C11-F2 adds to
    XsdElement.raw_decode / raw_encode (`except RecursionError:` around the recursive call): present in
    the source exactly when `Generated.C11.recursionGuard` is true -/
def guardEntries : List (String × Nat × Kind) := [
  ("elements:XsdElement.raw_decode:XMLResourceExceeded", 1, .limit),
  ("elements:XsdElement.raw_encode:XMLResourceExceeded", 1, .limit)]

/-- insertion that keeps the table sorted by key -/
def insertEntry (e : String × Nat × Kind) : List (String × Nat × Kind) → List (String × Nat × Kind)
  | [] => [e]
  | p :: ps => if e.1 < p.1 then e :: p :: ps else p :: insertEntry e ps

/-- the hand table for the variant of the source under check -/
def policyOf (guarded : Bool) : List (String × Nat × Kind) :=
  if guarded then guardEntries.foldr insertEntry policyBase else policyBase

/-- Walks the site table (sorted by key, then index — as the generator emits it) along the hand
    table (sorted by key): a strict-guarded site gets `strictGuard`; any other site must carry the
    key of the current entry, whose count is decremented; an entry is dropped when its count is
    used up.  `none` as soon as a site has no entry, an entry has a count that the source does not
    have, or entries are left over.  Linear in both tables. -/
def classifyAll : List RaiseSite → List (String × Nat × Kind) → Option (List (RaiseSite × Kind))
  | [], [] => some []
  | [], _ :: _ => none
  | s :: ss, pol =>
    if s.guard == .strict then (classifyAll ss pol).map ((s, Kind.strictGuard) :: ·)
    else match pol with
      | [] => none
      | (key, n, k) :: ps =>
        if s.key == key then
          match n with
          | 0 => none
          | 1 => (classifyAll ss ps).map ((s, k) :: ·)
          | n + 2 => (classifyAll ss ((key, n + 1, k) :: ps)).map ((s, k) :: ·)
        else none

/-- look-up used by the driver (native code): the kind of a site by key and guard -/
def policyKind (pol : List (String × Nat × Kind)) (key : String) : Option Kind :=
  match pol.find? (·.1 == key) with
  | some p => some p.2.2
  | none => none

def kindOf (pol : List (String × Nat × Kind)) (s : RaiseSite) : Option Kind :=
  if s.guard == .strict then some .strictGuard else policyKind pol s.key

/-! ### a descent as the sequence of sites it reaches -/

/-- a call that runs a sub-descent in a LITERAL mode instead of the caller's `validation` (AST:
    a `raw_decode` / `raw_encode` call with a constant mode argument — `XsdUnion.raw_decode` tries
    every member type with `mt.raw_decode(obj, 'strict', context)`), with the classes listed by
    the handlers of the `try` statements that enclose the call -/
structure ModeSwitch where
  func : String
  callee : String
  mode : String
  handlers : List String
  deriving Repr, Inhabited, DecidableEq

/-- one reached site: its kind, its guard, the class it raises, and — when it is reached inside a
    sub-descent started by a mode switch — the literal mode of that sub-descent.  The caller of a
    mode switch catches XMLSchemaValidationError (`Props.C11.mode_switches_are_shielded`). -/
structure Reached where
  kind : Kind
  guard : Guard
  cls : String
  nested : Option Mode
  deriving Repr, DecidableEq

/-- what a reached site does for the entry point that runs in mode `m`: inside a shielded
    sub-descent the site behaves in the LOCAL mode, and a validation error that leaves the
    sub-descent is caught by the caller of the switch (only resource / stop errors — and `content`
    violations — pass through a handler that lists XMLSchemaValidationError). -/
def fireAt (m : Mode) (r : Reached) : Fire :=
  match r.nested with
  | none => fire r.kind r.guard m
  | some m' =>
    match fire r.kind r.guard m' with
    | .escapes => if r.kind.resourceOrStop || r.kind == .content then .escapes else .silent
    | .collected => if m' == .strict then .silent else .collected
    | .silent => .silent

/-- result of a descent: the errors collected (class names, in order) and the exception that left it -/
structure Run where
  collected : List String
  raised : Option Reached
  deriving Repr, DecidableEq

/-- the descent in mode `m` over the sites it reaches, in order: the first escaping site ends it
    (ported from the control flow: an exception that no handler of the package stops unwinds the
    whole descent; raise_or_collect appends to `context.errors` in lax mode only). -/
def run (m : Mode) : List Reached → Run
  | [] => ⟨[], none⟩
  | r :: k =>
    match fireAt m r with
    | .silent => run m k
    | .collected =>
      let t := run m k
      if m == .lax then ⟨r.cls :: t.collected, t.raised⟩ else t
    | .escapes => ⟨[], some r⟩

end XsVerif.RaisePolicy
