/-
  Encoders (`from_python`) of the built-in types, ports of

    xmlschema/validators/helpers.py:316-318   python_to_decimal  (`format(Decimal, 'f')`, fix 1f6f95f)
    xmlschema/validators/helpers.py:291-296   python_to_boolean  (`str(value).lower()`)
    xmlschema/validators/helpers.py:312-313   python_to_int      (`intToStr`, Model/Datatypes.lean)
    elementpath/datatypes/binary.py:88,203    `str(Base64Binary)` (stored literal), `str(HexBinary)` (upper-cased)
    elementpath/datatypes/datetime.py:338-349,702-705   `iso_year`, `Date.__str__`

  and the whole-value reading of `count_digits` used by the digit facets.
  No Mathlib import: linked into the native driver `drv_c02`.
-/
import XsVerif.Model.Datatypes
import XsVerif.Model.DatatypesDate

namespace XsVerif.Datatypes

/-! ## xs:decimal: `format(value, 'f')` (CPython `Decimal.__format__` with type 'f', no precision,
    exponent `-scale ≤ 0`: the coefficient digits with the point inserted `scale` places from the right,
    zero-padded on the left up to one integer digit) -/

def decPlainAbs (c : Str) (scale : Nat) : Str :=
  if scale = 0 then c
  else if c.length > scale then c.take (c.length - scale) ++ '.' :: c.drop (c.length - scale)
  else '0' :: '.' :: (List.replicate (scale - c.length) '0' ++ c)

/-- `python_to_decimal(Decimal)`; the sign of a negative zero is kept (`format(Decimal('-0.0'), 'f') = '-0.0'`) -/
def decPlain (d : Dec) : Str :=
  (if d.neg then ['-'] else []) ++ decPlainAbs (natDigits d.coef) d.scale

/-! ## xs:boolean: `python_to_boolean(bool)` = `str(value).lower()` -/

def encBool (b : Bool) : Str := if b then "true".toList else "false".toList

/-! ## binaries -/

/-- `str(HexBinary)`: `self.value.decode('utf-8').upper()` -/
def encHex (s : Str) : Str := hexUp s
/-- `str(Base64Binary)`: the stored literal (blanks already removed) -/
def encB64 (s : Str) : Str := s

/-! ## xs:date: `Date.__str__` = '{iso_year}-{month:02}-{day:02}{tz}' -/

/-- `'{:0w}'.format(n)` for a natural number -/
def padNat (w n : Nat) : Str :=
  let ds := natDigits n
  List.replicate (w - ds.length) '0' ++ ds

/-- `AbstractDateTime.iso_year` (datetime.py:338-349) -/
def isoYear (v11 : Bool) (year : Int) : Str :=
  if -9999 ≤ year && year < -1 then
    -- '{:05}'.format(negative) : sign + 4 digits
    let y := if v11 then year + 1 else year
    if y < 0 then '-' :: padNat 4 y.natAbs else padNat 5 y.natAbs
  else if year == -1 then (if v11 then "0000".toList else "-0001".toList)
  else if 0 ≤ year && year ≤ 9999 then padNat 4 year.natAbs
  else intToStr year

/-- `str(Timezone)` = `tzname`: 'Z' for a zero offset, else `±hh:mm` -/
def tzStr : Tz → Str
  | none => []
  | some z =>
    if z == 0 then ['Z']
    else (if z < 0 then '-' else '+') :: (padNat 2 (z.natAbs / 60) ++ ':' :: padNat 2 (z.natAbs % 60))

/-- `str(Date)` -/
def dateStr (v11 : Bool) (v : DtVal) : Str :=
  isoYear v11 v.year ++ '-' :: padNat 2 v.month ++ '-' :: padNat 2 v.day ++ tzStr v.tz

end XsVerif.Datatypes
