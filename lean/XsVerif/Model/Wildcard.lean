/-
  Model of xmlschema/validators/wildcards.py (XsdWildcard and subclasses):
  namespace constraints of element / attribute wildcards and the derived
  operations `union`, `intersection`, `is_restriction`, `is_overlap`.

  No Mathlib import: this file is linked into the native driver.

  Representation.  The Python object keeps three sets:
    namespace      : set[str]   ({'##any'} | {'##other'} | explicit URIs, '' = absent)
    not_namespace  : set[str]   (XSD 1.1; "active" iff non-empty — Python truthiness)
    not_qname      : set[str]   (XSD 1.1; '{ns}local' names, '##defined', '##definedSibling')
  plus `target_namespace`.  The token sets {'##any'} and {'##other'} are given their own
  constructors; the harness refuses to translate any other set that contains a '##' token
  (such a set can only come out of a broken operation and then never equals a model value).
-/
namespace XsVerif.Wildcard

/-- `namespace` attribute after parsing. -/
inductive NsC where
  | any
  | other
  | set (l : List String)
  deriving Repr, Inhabited, DecidableEq

/-- An expanded name `(namespace, local)`; `''` is the absent namespace. -/
structure QN where
  ns : String
  loc : String
  deriving DecidableEq, Repr, Inhabited

structure Wc where
  ns : NsC
  notNs : List String := []
  notQ : List QN := []
  notDefined : Bool := false          -- '##defined' ∈ not_qname
  notSibling : Bool := false          -- '##definedSibling' ∈ not_qname
  tns : String := ""
  deriving Repr, Inhabited, DecidableEq

def xsiNs : String := "http://www.w3.org/2001/XMLSchema-instance"

/-- Python `x in s` for a set of strings kept as a list. -/
@[inline] def mem (x : String) (l : List String) : Bool := l.contains x

/-- Python set equality of two `namespace` sets. -/
def NsC.beq : NsC → NsC → Bool
  | .any, .any => true
  | .other, .other => true
  | .set a, .set b => a.all (mem · b) && b.all (mem · a)
  | _, _ => false

def NsC.isAny : NsC → Bool | .any => true | _ => false
def NsC.isOther : NsC → Bool | .other => true | _ => false
/-- explicit members (empty for the two tokens: `x in {'##any'}` is false for every URI the
    code asks about, because those never start with '##'). -/
def NsC.elems : NsC → List String | .set l => l | _ => []
/-- Python truthiness of `namespace` (`not other.namespace`). -/
def NsC.isEmpty : NsC → Bool | .set [] => true | _ => false

@[simp] theorem NsC.isEmpty_set (l : List String) : (NsC.set l).isEmpty = l.isEmpty := by
  cases l <;> rfl
@[simp] theorem NsC.isEmpty_any : NsC.any.isEmpty = false := rfl
@[simp] theorem NsC.isEmpty_other : NsC.other.isEmpty = false := rfl

/-- `XsdWildcard.is_namespace_allowed` (wildcards.py:176-186). -/
def nsAllowed (w : Wc) (n : String) : Bool :=
  if !w.notNs.isEmpty then !mem n w.notNs
  else if w.ns.isAny || n == xsiNs then true
  else if w.ns.isOther then (if n == "" then false else n != w.tns)
  else mem n w.ns.elems

/-- Name-level matching with the statically known parts of `notQName`
    (Xsd11AnyElement.is_matching / Xsd11AnyAttribute.is_matching without precedences,
    `##defined` and `##definedSibling`, which depend on the surrounding schema and are
    parameters: `isDefined`, `isSibling`). -/
def allows (w : Wc) (isDefined isSibling : QN → Bool) (q : QN) : Bool :=
  nsAllowed w q.ns && !(w.notDefined && isDefined q) && !(w.notSibling && isSibling q)
    && !w.notQ.contains q

/-- `allows` for wildcards without `##defined` tokens. -/
def allowsQ (w : Wc) (q : QN) : Bool := nsAllowed w q.ns && !w.notQ.contains q

/-- `deny_qnames` (wildcards.py:198-209) on proper names. -/
def denyQNames (w : Wc) (names : List QN) : Bool :=
  if !w.notNs.isEmpty then names.all fun x => w.notQ.contains x || mem x.ns w.notNs
  else if w.ns.isAny then names.all fun x => w.notQ.contains x
  else if w.ns.isOther then names.all fun x => w.notQ.contains x || x.ns == w.tns
  else names.all fun x => w.notQ.contains x || !mem x.ns w.ns.elems

inductive PC where | strict | lax | skip
  deriving DecidableEq, Repr, Inhabited

/-- processContents clause of `is_restriction` (wildcards.py:220-223). -/
def restrPC (pcSelf pcOther : PC) : Bool :=
  if pcOther == .strict && pcSelf != .strict then false
  else if pcOther == .lax && pcSelf == .skip then false
  else true

/-- notQName clause of `is_restriction` (wildcards.py:225-236). -/
def restrQ (self other : Wc) : Bool :=
  let selfHasQ := !self.notQ.isEmpty || self.notDefined || self.notSibling
  let otherHasQ := !other.notQ.isEmpty || other.notDefined || other.notSibling
  if !selfHasQ && !otherHasQ then true
  else if other.notDefined && !self.notDefined then false
  else if other.notSibling && !self.notSibling then false
  else if otherHasQ then denyQNames self other.notQ
  else !(self.notQ.any fun x => !nsAllowed other x.ns)

/-- namespace clause of `is_restriction` (wildcards.py:238-267). -/
def restrNs (self other : Wc) : Bool :=
  if !self.notNs.isEmpty then
    if !other.notNs.isEmpty then other.notNs.all (mem · self.notNs)
    else if other.ns.isAny then true
    else if other.ns.isOther then mem "" self.notNs && mem other.tns self.notNs
    else false
  else if !other.notNs.isEmpty then
    if self.ns.isAny then false
    else if self.ns.isOther then other.notNs.all (mem · ["", other.tns])
    else self.ns.elems.all fun n => !mem n other.notNs
  else if self.ns.beq other.ns then true
  else if other.ns.isAny then true
  else if self.ns.isAny || self.ns.isOther then false
  else if other.ns.isOther then !mem other.tns self.ns.elems && !mem "" self.ns.elems
  else self.ns.elems.all (mem · other.ns.elems)

/-- `XsdWildcard.is_restriction` for two wildcards of the same class, occurrence check
    excluded (it lives in particles.py and is modelled in C14).  The Python function returns
    `False` at the first failing clause; without side effects that is the conjunction. -/
def isRestrictionCore (self other : Wc) (pcSelf pcOther : PC) : Bool :=
  restrPC pcSelf pcOther && restrQ self other && restrNs self other

/-- The `not_qname` part of `union` (wildcards.py:272-278). -/
def unionNotQ (self other : Wc) : Wc :=
  { self with
    notQ := (self.notQ.filter fun x => other.notQ.contains x || !nsAllowed other x.ns)
              ++ other.notQ.filter fun x => !self.notQ.contains x && !nsAllowed self x.ns
    notDefined := self.notDefined && other.notDefined
    notSibling := self.notSibling && other.notSibling }

/-- result of a union that computed the negative set `nn` (empty ⇒ `##any`). -/
def ofNotNs (self : Wc) (nn : List String) (clearNs : Bool) : Wc :=
  if nn.isEmpty then { self with notNs := [], ns := .any }
  else if clearNs then { self with notNs := nn, ns := .set [] } else { self with notNs := nn }

/-- `union`, branch `if self.not_namespace:` (wildcards.py:280-296). -/
def unionN (self other : Wc) : Wc :=
  if !other.notNs.isEmpty then ofNotNs self (self.notNs.filter (mem · other.notNs)) false
  else if other.ns.isAny then { self with notNs := [], ns := .any }
  else if other.ns.isOther then ofNotNs self (self.notNs.filter (mem · ["", other.tns])) false
  else ofNotNs self (self.notNs.filter fun x => !mem x other.ns.elems) false

/-- `union`, branch `elif other.not_namespace:` (wildcards.py:298-309). -/
def unionPN (self other : Wc) : Wc :=
  if self.ns.isAny then self
  else if self.ns.isOther then ofNotNs self (other.notNs.filter (mem · ["", self.tns])) true
  else ofNotNs self (other.notNs.filter fun x => !mem x self.ns.elems) true

/-- `union`, both constraints positive (wildcards.py:311-337); `w1` = the `##other` operand,
    `w2` = the explicit set.  `none` = the "not expressible" `XMLSchemaValueError`. -/
def unionOtherSet (v11 : Bool) (self w1 w2 : Wc) : Option Wc :=
  if mem w1.tns w2.ns.elems && mem "" w2.ns.elems then some { self with ns := .any }
  else if !mem "" w2.ns.elems && !mem w1.tns w2.ns.elems then some { self with ns := .other }
  else if !v11 && mem "" w2.ns.elems then none
  else if mem "" w2.ns.elems then some { self with ns := .set [], notNs := [w1.tns] }
  else some { self with ns := .set [], notNs := [""] }

def unionPP (v11 : Bool) (self other : Wc) : Option Wc :=
  if other.ns.isEmpty || self.ns.isAny || self.ns.beq other.ns then some self
  else if other.ns.isAny then some { self with ns := .any }
  else if other.ns.isOther then unionOtherSet v11 self other self
  else if self.ns.isOther then unionOtherSet v11 self self other
  else some { self with ns := .set (self.ns.elems ++ other.ns.elems.filter fun x => !mem x self.ns.elems) }

/-- namespace part of `XsdWildcard.union` (wildcards.py:280-337), `v11 = (xsd_version ≠ '1.0')`. -/
def unionNs (v11 : Bool) (self other : Wc) : Option Wc :=
  if !self.notNs.isEmpty then some (unionN self other)
  else if !other.notNs.isEmpty then some (unionPN self other)
  else unionPP v11 self other

/-- `XsdWildcard.union` (wildcards.py:270-337). -/
def unionCore (v11 : Bool) (self other : Wc) : Option Wc :=
  unionNs v11 (unionNotQ self other) other

/-- The `not_qname` part of `intersection` (wildcards.py:341-344). -/
def interNotQ (self other : Wc) : Wc :=
  let selfHasQ := !self.notQ.isEmpty || self.notDefined || self.notSibling
  if selfHasQ then
    { self with notQ := self.notQ ++ other.notQ.filter fun x => !self.notQ.contains x
                notDefined := self.notDefined || other.notDefined
                notSibling := self.notSibling || other.notSibling }
  else { self with notQ := other.notQ, notDefined := other.notDefined,
                   notSibling := other.notSibling }

/-- The namespace part of `XsdWildcard.intersection` (wildcards.py:346-388). -/
def interNs (self other : Wc) : Wc :=
  if !self.notNs.isEmpty then
    if !other.notNs.isEmpty then
      { self with notNs := self.notNs ++ other.notNs.filter fun x => !mem x self.notNs }
    else if other.ns.isAny then self
    else if !other.ns.isOther then
      { self with ns := .set (other.ns.elems.filter fun x => !mem x self.notNs), notNs := [] }
    else
      let nn := if mem "" self.notNs then self.notNs else self.notNs ++ [""]
      let nn := if mem other.tns nn then nn else nn ++ [other.tns]
      { self with notNs := nn }
  else if !other.notNs.isEmpty then
    if self.ns.isAny then { self with notNs := other.notNs, ns := .set [] }
    else if !self.ns.isOther then
      { self with ns := .set (self.ns.elems.filter fun x => !mem x other.notNs) }
    else
      let nn := if mem "" other.notNs then other.notNs else other.notNs ++ [""]
      let nn := if mem other.tns nn then nn else nn ++ [other.tns]
      { self with notNs := nn, ns := .set [] }
  else if self.ns.beq other.ns then self
  else if other.ns.isAny then self
  else if self.ns.isAny then { self with ns := other.ns }
  else if self.ns.isOther then
    { self with ns := .set (other.ns.elems.filter fun x => x != other.tns && x != "") }
  else if !other.ns.isOther then
    { self with ns := .set (self.ns.elems.filter (mem · other.ns.elems)) }
  else { self with ns := .set (self.ns.elems.filter fun x => x != other.tns && x != "") }

/-- `XsdWildcard.intersection` (wildcards.py:339-388). -/
def intersectionCore (self other : Wc) : Wc := interNs (interNotQ self other) other

/-- `XsdAnyElement.is_overlap` for two wildcards (wildcards.py:585-618). -/
def isOverlapCore (self other : Wc) : Bool :=
  if !self.notNs.isEmpty then
    if !other.notNs.isEmpty then true
    else if other.ns.isAny then true
    else if other.ns.isOther then true
    else other.ns.elems.any fun n => !mem n self.notNs
  else if !other.notNs.isEmpty then
    if self.ns.isAny then true
    else if self.ns.isOther then true
    else self.ns.elems.any fun n => !mem n other.notNs
  else if self.ns.isEmpty || other.ns.isEmpty then false
  else if self.ns.beq other.ns then true
  else if self.ns.isAny || other.ns.isAny then true
  else if self.ns.isOther then other.ns.elems.any fun n => n != "" && n != self.tns
  else if other.ns.isOther then self.ns.elems.any fun n => n != "" && n != other.tns
  else other.ns.elems.any (mem · self.ns.elems)

/-! ### wildcards of different target namespaces (fix: `_absolute_other`, wildcards.py)

`##other` is relative to the wildcard's own target namespace.  Since the fix the binary operations,
when the two target namespaces differ, first replace `##other` by the absolute form
`not(absent, targetNamespace)` (a copy of `other`; `self` is rewritten in place by `union` /
`intersection`), after which no branch depends on a target namespace any more. -/

/-- `XsdWildcard._absolute_other` -/
def absOther (w : Wc) : Wc :=
  -- the code tests only `'##other' in self.namespace`; whenever `not_namespace` is set the
  -- `namespace` set is empty (every assignment clears it), so the extra test changes nothing
  -- on reachable objects and makes the function total for the theorems
  if w.ns.isOther && w.notNs.isEmpty then { w with ns := .set [], notNs := ["", w.tns] } else w

/-- the operands as the operation sees them -/
def normPair (a b : Wc) : Wc × Wc :=
  if a.tns == b.tns then (a, b) else (absOther a, absOther b)

/-- `XsdWildcard.union` (with the cross-namespace normalisation) -/
def union (v11 : Bool) (self other : Wc) : Option Wc :=
  let (a, b) := normPair self other
  unionCore v11 a b

/-- `XsdWildcard.intersection` -/
def intersection (self other : Wc) : Wc :=
  let (a, b) := normPair self other
  intersectionCore a b

/-- `XsdWildcard.is_restriction` (namespace, notQName and processContents clauses) -/
def isRestriction (self other : Wc) (pcSelf pcOther : PC) : Bool :=
  let (a, b) := normPair self other
  isRestrictionCore a b pcSelf pcOther

/-- `XsdAnyElement.is_overlap` -/
def isOverlap (self other : Wc) : Bool :=
  let (a, b) := normPair self other
  isOverlapCore a b

end XsVerif.Wildcard
