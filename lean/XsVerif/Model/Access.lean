/-
  C12 — model of the resource access control of xmlschema.

  Ported code (POSIX branch; the Windows / UNC branches answer `outOfScope`):
    xmlschema/utils/urls.py:24-25        is_local_scheme
    xmlschema/utils/urls.py:79-113       is_remote_url / is_local_url
    xmlschema/utils/urls.py:205-277      normalize_url
    xmlschema/utils/paths.py:60-118      LocationPath.from_uri
    xmlschema/utils/paths.py:120-147     LocationPath.as_uri / normalize
    xmlschema/resources/xml_resource.py:166-172   sandbox base derivation
    xmlschema/resources/xml_resource.py:318-330   access_control
    posixpath.normpath, urllib.parse.urlsplit / unquote / quote_from_bytes (stdlib, re-implemented here
    for byte strings; agreement with CPython is part of the correspondence run)

  Representation: every string is a list of byte values (`Nat`), i.e. the UTF-8 / fsencoded form.
  All delimiters that the algorithms look at are ASCII, so the byte view and the `str` view of the
  Python code coincide (UTF-8 is ASCII transparent).  No Mathlib import.
-/
namespace XsVerif.Access

abbrev Bytes := List Nat

/-! ### small string toolkit -/

/-- `s.split('/')` -/
def split : Bytes → List Bytes
  | [] => [[]]
  | c :: t =>
    if c = 47 then [] :: split t
    else match split t with
      | [] => [[c]]
      | h :: r => (c :: h) :: r

/-- `'/'.join(comps)` -/
def join : List Bytes → Bytes
  | [] => []
  | [a] => a
  | a :: b :: r => a ++ 47 :: join (b :: r)

def dot : Bytes := [46]
def dotdot : Bytes := [46, 46]

/-- `s.startswith(p)` -/
def startsWith : Bytes → Bytes → Bool
  | _, [] => true
  | [], _ :: _ => false
  | a :: s, b :: p => a == b && startsWith s p

/-- `s.rstrip('/')` -/
def rstripSlash (s : Bytes) : Bytes := (s.reverse.dropWhile (· == 47)).reverse

/-- ASCII members of `str.isspace` (what `str.strip()` removes at the ends of an ASCII string). -/
def isSpace (n : Nat) : Bool := n == 32 || (9 ≤ n && n ≤ 13) || (28 ≤ n && n ≤ 31)

def lstrip (s : Bytes) : Bytes := s.dropWhile isSpace
def strip (s : Bytes) : Bytes := ((lstrip s).reverse.dropWhile isSpace).reverse

def isAlpha (n : Nat) : Bool := (65 ≤ n && n ≤ 90) || (97 ≤ n && n ≤ 122)
def isDigit (n : Nat) : Bool := 48 ≤ n && n ≤ 57
def lower (n : Nat) : Nat := if 65 ≤ n && n ≤ 90 then n + 32 else n

/-! ### posixpath.normpath -/

/-- one iteration of the `for comp in comps` loop; `acc` is `new_comps` reversed. -/
def normStep (isAbs : Bool) (acc : List Bytes) (comp : Bytes) : List Bytes :=
  if comp = [] ∨ comp = dot then acc
  else if comp ≠ dotdot ∨ (isAbs = false ∧ acc = []) ∨ acc.head? = some dotdot then comp :: acc
  else acc.tail

def normComps (isAbs : Bool) (comps : List Bytes) : List Bytes :=
  (comps.foldl (normStep isAbs) []).reverse

/-- number of initial slashes kept by POSIX: exactly two are kept, three or more collapse to one. -/
def initialSlashes : Bytes → Nat
  | 47 :: 47 :: 47 :: _ => 1
  | 47 :: 47 :: _ => 2
  | 47 :: _ => 1
  | _ => 0

def normpath (p : Bytes) : Bytes :=
  if p = [] then dot
  else
    let n := initialSlashes p
    let r := List.replicate n 47 ++ join (normComps (n != 0) (split p))
    if r = [] then dot else r

/-! ### percent coding -/

/-- `_ALWAYS_SAFE` plus the default `safe='/'` of `quote_from_bytes`.  The Python function is defined
    on bytes (0..255) only; list elements outside that range are not bytes and are passed through
    unchanged, so that the coding theorems (`unquote_quote`) need no range hypothesis. -/
def isSafe (n : Nat) : Bool :=
  isAlpha n || isDigit n || n == 95 || n == 46 || n == 45 || n == 126 || n == 47 || decide (256 ≤ n)

def hex (n : Nat) : Nat := if n < 10 then 48 + n else 55 + n

def qc (n : Nat) : Bytes := if isSafe n then [n] else [37, hex (n / 16), hex (n % 16)]

/-- `quote_from_bytes(path)` -/
def quote (p : Bytes) : Bytes := p.flatMap qc

def hexVal (n : Nat) : Option Nat :=
  if isDigit n then some (n - 48)
  else if 65 ≤ n && n ≤ 70 then some (n - 55)
  else if 97 ≤ n && n ≤ 102 then some (n - 87)
  else none

/-- `unquote_to_bytes` -/
def unquote : Bytes → Bytes
  | 37 :: a :: b :: t =>
    match hexVal a, hexVal b with
    | some x, some y => (16 * x + y) :: unquote t
    | _, _ => 37 :: unquote (a :: b :: t)
  | c :: t => c :: unquote t
  | [] => []

/-! ### urllib.parse.urlsplit (str input, default arguments) -/

structure Split where
  scheme : Bytes
  netloc : Bytes
  path : Bytes
  query : Bytes
  hasQuery : Bool
  fragment : Bytes
  hasFragment : Bool
  deriving Repr, DecidableEq

def isSchemeChar (n : Nat) : Bool := isAlpha n || isDigit n || n == 43 || n == 45 || n == 46

/-- scan for the first ':'; `some (scheme, rest)` when every char before it is a scheme char -/
def scanScheme : Bytes → Bytes → Option (Bytes × Bytes)
  | _, [] => none
  | acc, c :: t =>
    if c = 58 then some (acc.reverse, t)
    else if isSchemeChar c then scanScheme (c :: acc) t
    else none

def splitScheme (u : Bytes) : Bytes × Bytes :=
  match u with
  | c :: _ =>
    if isAlpha c then
      match scanScheme [] u with
      | some (s, rest) => (s.map lower, rest)
      | none => ([], u)
    else ([], u)
  | [] => ([], u)

/-- split at the first byte satisfying `p`: (before, found, after) -/
def breakAt (p : Nat → Bool) : Bytes → Bytes × Bool × Bytes
  | [] => ([], false, [])
  | c :: t => if p c then ([], true, t) else
      let (a, f, b) := breakAt p t
      (c :: a, f, b)

/-- control bytes and space removed on the left by urlsplit -/
def isC0OrSpace (n : Nat) : Bool := n ≤ 32

def urlsplit (u0 : Bytes) : Split :=
  let u := (u0.dropWhile isC0OrSpace).filter (fun c => !(c == 9 || c == 10 || c == 13))
  let (scheme, r) := splitScheme u
  let (netloc, r) :=
    match r with
    | 47 :: 47 :: t =>
      let n := t.takeWhile (fun c => !(c == 47 || c == 63 || c == 35))
      (n, t.drop n.length)
    | _ => ([], r)
  let (r, hasF, frag) := breakAt (· == 35) r
  let (r, hasQ, query) := breakAt (· == 63) r
  { scheme, netloc, path := r, query, hasQuery := hasQ, fragment := frag, hasFragment := hasF }

/-- is_local_scheme (urls.py:24): empty, `file`, or one ASCII letter -/
def isLocalScheme (s : Bytes) : Bool :=
  s == [] || s == [102, 105, 108, 101] ||
    (match s with | [c] => isAlpha c | _ => false)

inductive UrlClass where
  | loc | remote | neither
  deriving DecidableEq, Repr

/-- is_local_url / is_remote_url on a `str` (urls.py:79-113): a string with a newline or starting
    with '<' after stripping is neither. -/
def classify (u : Bytes) : UrlClass :=
  if u.contains 10 || startsWith (lstrip u) [60] then .neither
  else if isLocalScheme (urlsplit (strip u)).scheme then .loc else .remote

def isLocalUrl (u : Bytes) : Bool := classify u == .loc
def isRemoteUrl (u : Bytes) : Bool := classify u == .remote

/-! ### LocationPath.from_uri / as_uri / normalize_url  (POSIX, non-UNC) -/

/-- result of normalising a location -/
inductive Norm where
  /-- a local file: decoded absolute (or kept relative) path and the rendered URL -/
  | file (path : Bytes) (url : Bytes)
  /-- a URL with a non-local scheme (not normalised by the code; path only when joined to a remote base) -/
  | remote (scheme netloc : Bytes) (joined : Option Bytes)
  /-- Windows drive / UNC / backslash forms: handled by ntpath in the code, not modelled -/
  | outOfScope
  /-- the code raises (URN given to from_uri) -/
  | error
  deriving Repr, DecidableEq

def urn : Bytes := [117, 114, 110]

/-- does `path` (after leading separators) start with a drive `X:`? (paths.py:98-107) or contain a
    backslash, or start with two slashes (UNC for ntpath.splitdrive), or have ':' as second character
    (a drive for ntpath.splitdrive, whatever the first character: `*:/x`)? -/
def windowsForm (path : Bytes) : Bool :=
  path.contains 92 || startsWith path [47, 47] ||
    (match path.dropWhile (· == 47) with
     | c :: 58 :: _ => isAlpha c
     | _ => false) ||
    -- `ntpath.splitdrive(path)[0]` (paths.py:111): ANY character followed by ':' is a drive
    (match path with
     | _ :: 58 :: _ => true
     | _ => false)

/-- `LocationPath.from_uri(uri)` restricted to the branches that give a LocationPosixPath;
    returns the decoded path string handed to PurePosixPath. -/
def fromUri (uri : Bytes) : Except Norm Bytes :=
  let parts := urlsplit (strip uri)
  if parts.scheme = urn then .error .error
  else if !isLocalScheme parts.scheme then .ok (unquote parts.path)
  else if parts.netloc ≠ [] then .error .outOfScope
  else if (match parts.scheme with | [_] => true | _ => false) then .error .outOfScope
  else
    let path := parts.path
    let path := if parts.hasQuery && parts.query ≠ [] then path ++ 63 :: parts.query else path
    let path := if parts.hasFragment && parts.fragment ≠ [] then path ++ 35 :: parts.fragment else path
    if windowsForm path then .error .outOfScope
    else .ok (unquote path)

def filePre : Bytes := [102, 105, 108, 101, 58, 47, 47]   -- "file://"
def fileRel : Bytes := [102, 105, 108, 101, 58]           -- "file:"

/-- `LocationPosixPath(p).normalize().as_uri()` -/
def asUri (p : Bytes) : Bytes :=
  let n := normpath p
  if startsWith n [47] then filePre ++ quote n else fileRel ++ quote n

def isAbsPath (p : Bytes) : Bool := startsWith p [47]

/-- `PurePosixPath(p)` as (number of root slashes, parts): pathlib drops empty and '.' segments and
    keeps exactly-two leading slashes (pathlib `_parse_path` / posixpath.splitroot). -/
def pureParts (p : Bytes) : List Bytes := (split p).filter (fun c => !(c == [] || c == dot))

/-- `str(PurePosixPath(...))` from root and parts -/
def pureStr (root : Nat) (parts : List Bytes) : Bytes :=
  let s := List.replicate root 47 ++ join parts
  if s = [] then dot else s

/-- `str(PurePosixPath(base).joinpath(PurePosixPath(rel)))` -/
def joinPath (base rel : Bytes) : Bytes :=
  if isAbsPath rel then pureStr (initialSlashes rel) (pureParts rel)
  else pureStr (initialSlashes base) (pureParts base ++ pureParts rel)

/-- `path.normalize().as_uri()` together with the decoded normalised path -/
def mkFile (j : Bytes) : Norm := .file (normpath j) (asUri j)

/-- normalize_url(url, base_url) with keep_relative=False (urls.py:205-277); `cwd` = os.getcwd(). -/
def normalizeUrl (cwd : Bytes) (base : Option Bytes) (url0 : Bytes) : Norm :=
  let url := lstrip url0
  let parts := urlsplit url
  if !isLocalScheme parts.scheme then .remote parts.scheme parts.netloc none
  else if startsWith url [47, 47] || startsWith url [92, 92] then .outOfScope
  else match fromUri url with
  | .error e => e
  | .ok path =>
    if isAbsPath path then mkFile path
    else
      let viaCwd := mkFile (joinPath cwd path)
      match base with
      | none => viaCwd
      | some b0 =>
        let b := lstrip b0
        if startsWith b [47, 47] || startsWith b [92, 92] then .outOfScope
        else
          let bparts := urlsplit b
          match fromUri b with
          | .error e => e
          | .ok bpath =>
            if isLocalScheme bparts.scheme then
              let j := joinPath bpath path
              if isAbsPath j then mkFile j
              else mkFile (joinPath cwd j)
            else if parts.scheme = [] then
              .remote bparts.scheme bparts.netloc (some (normpath (joinPath bpath path)))
            else viaCwd

/-! ### access_control (xml_resource.py:318-333, after fix 600200c) -/

inductive Allow where
  | all | remote | loc | sandbox | none
  deriving DecidableEq, Repr

inductive Decision where
  | ok | blockedNone | blockedLocal | blockedRemote | blockedSandbox
  deriving DecidableEq, Repr

/-- the sandbox test after the fix: `url != base and not url.startswith(base.rstrip('/') + '/')` blocks -/
def sandboxOk (base url : Bytes) : Bool :=
  url == base || startsWith url (rstripSlash base ++ [47])

/-- `baseNorm` is `normalize_url(self._base_url)` (as rendered URL) when `_base_url` is set. -/
def accessControl (a : Allow) (baseNorm : Option Bytes) (url : Option Bytes) : Decision :=
  match url with
  | none => .ok
  | some u =>
    match a with
    | .all => .ok
    | .none => .blockedNone
    | .remote => if isLocalUrl u then .blockedLocal else .ok
    -- fix 600200c: `elif not is_local_url(url)`: whatever is not positively local is refused as remote
    | .loc => if !isLocalUrl u then .blockedRemote else .ok
    | .sandbox =>
      if !isLocalUrl u then .blockedRemote
      else match baseNorm with
        | none => .ok
        | some b => if sandboxOk b u then .ok else .blockedSandbox

/-- os.path.dirname on a string -/
def dirname (s : Bytes) : Bytes :=
  let head := (s.reverse.dropWhile (· != 47)).reverse      -- up to and including the last '/'
  let stripped := rstripSlash head
  if head ≠ [] ∧ stripped = [] then head else stripped

/-- rendered URL of a normalised location (what `get_url` returns), when modelled -/
def Norm.url? : Norm → Option Bytes
  | .file _ u => some u
  | _ => none

/-- outcome of `XMLResource(source=loc, base_url=base, allow=a)` for a URL-like source, up to the
    access check (xml_resource.py:164-189): the effective `_base_url` (sandbox default =
    dirname of the normalised source), the resource URL and the decision. -/
structure Resolved where
  norm : Norm
  baseNorm : Option Norm
  decision : Option Decision      -- none: not decided by the model (out of scope / error)
  deriving Repr, DecidableEq

/-- the `_base_url` in force after xml_resource.py:166-172: sandbox mode without base_url takes
    `os.path.dirname(normalize_url(source))`; `none` = not modelled (out-of-scope source form) -/
def effectiveBase (a : Allow) (cwd : Bytes) (base : Option Bytes) (loc : Bytes) : Option (Option Bytes) :=
  if a = .sandbox ∧ base = none then
    match normalizeUrl cwd none loc with
    | .file _ u => some (some (dirname u))
    | .remote .. => some none      -- the constructor raises XMLSchemaValueError (not a local source)
    | _ => none
  else some base

/-- url = get_url(source); access_control(url) with `_base_url = b` -/
def resolveWith (a : Allow) (cwd : Bytes) (b : Option Bytes) (loc : Bytes) : Resolved :=
  let n := normalizeUrl cwd b loc
  let bn := b.map (normalizeUrl cwd none)
  match n with
  | .file _ u =>
    (match bn with
     | none => { norm := n, baseNorm := none, decision := some (accessControl a none (some u)) }
     | some (.file _ bu) => { norm := n, baseNorm := bn, decision := some (accessControl a (some bu) (some u)) }
     | some (.remote ..) =>
        -- base is remote: normalize_url(base) is a remote URL; the sandbox prefix test is then made
        -- against that URL: a file URL never has it as a prefix
        { norm := n, baseNorm := bn,
          decision := some (match a with
            | .sandbox => .blockedSandbox
            | _ => accessControl a none (some u)) }
     | some _ => { norm := n, baseNorm := bn, decision := if a = .sandbox then none else some (accessControl a none (some u)) })
  | .remote _ _ _ =>
    { norm := n, baseNorm := bn,
      decision := some (match a with
        | .all => .ok | .none => .blockedNone | .remote => .ok
        | .loc => .blockedRemote | .sandbox => .blockedRemote) }
  | _ => { norm := n, baseNorm := bn, decision := none }

def resolve (a : Allow) (cwd : Bytes) (base : Option Bytes) (loc : Bytes) : Resolved :=
  match effectiveBase a cwd base loc with
  | none => { norm := .outOfScope, baseNorm := none, decision := none }
  | some b => resolveWith a cwd b loc

end XsVerif.Access
