/-
  C18 — xsi:type widening of identity constraints, STATEMENT granularity, arbitrary finite sets of
  (element declaration, substituted type, identity) triples, arbitrary per-thread programs.

  Port of the CURRENT tree (after fix 52f30cd, 962be1e, ee393a6), one model step per Python statement that
  reads or writes state shared between the threads that validate with one schema object:

    validators/elements.py:683-694   for counter in context.identities.values():
                                         if not counter.enabled or (xsd_type, counter.identity) in self.xsi_types:   -- chk
                                             continue
                                         counter.identity.update_elements(xpath_element)
                                         self.xsi_types.add((xsd_type, counter.identity))                           -- pub
    validators/identities.py:213-246 update_elements, both loops (selector results, then leaf QNames):
                                         if e not in self.elements:                                                 -- loopRd
                                             self.elements[e] = [FieldValueSelector(f, e) for f in self.fields]     -- loopSet
                                         e.selected_by.add(self)                                                    -- loopAdd
                                     (`addInside = true` is the tree before ee393a6: `selected_by.add` inside the `if`)
    validators/elements.py:859       if self.selected_by:                                                           -- cRd
    validators/elements.py:907       for identity in self.selected_by:     -- cIterNew creates the set iterator, every `next`
                                         …                                 -- is a cIter step; CPython's set iterator raises
                                                                           -- RuntimeError when the size of the set differs
                                                                           -- from the size at creation (`live = true`);
                                                                           -- `live = false` = iteration over a snapshot
                                                                           -- `tuple(self.selected_by)` (notes/fixes/C18-F3)
    validators/elements.py:925-926   `if xsd_element in identity.elements: selectors = identity.elements[xsd_element]`
                                     else freshly built equal selectors: a read whose two outcomes give the same value

  Trusted: one Python statement that performs ONE operation on a shared set/dict (`in`, `add`, `__setitem__`,
  `bool`, creation of an iterator, one `next`, `tuple(set)`) is atomic (it is one C call under the GIL).

  A pair `p : Pair` stands for one (declaration, type, identity) triple; `sch.sel p` is the SET (as a list) of
  element declarations that `update_elements(XPathElement(name, type))` of that identity visits, `sch.idOf p` the
  identity; every `widen` task carries the order of its own visit (`WF`: the same set).
  Shared state = a grow-only set of facts.  Threads are numbered by `Nat`, a schedule is a list of thread numbers.
  No Mathlib.
-/
import XsVerif.Model.Threads

namespace XsVerif.Threads.XW

abbrev Pair := Nat
abbrev El := Nat
abbrev Idn := Nat

/-- what is fixed once the schema is built -/
structure Sch where
  sel : Pair → List El
  idOf : Pair → Idn

inductive Fact where
  | xsi (p : Pair)               -- (xsd_type, identity) ∈ declaration.xsi_types
  | elem (i : Idn) (e : El)      -- e ∈ identity.elements
  | selBy (e : El) (i : Idn)     -- identity ∈ e.selected_by
  deriving DecidableEq, Repr

abbrev Sh := List Fact

/-- `set.add` / `dict.__setitem__` with a new key (an existing key keeps the set unchanged) -/
def add (f : Fact) (s : Sh) : Sh := if s.contains f then s else s ++ [f]

/-- `e.selected_by` as the list of its members -/
def selOf (s : Sh) (e : El) : List Idn :=
  s.filterMap fun
    | .selBy e' i => if e' = e then some i else none
    | _ => none

structure Variant where
  addInside : Bool      -- true: tree before ee393a6 (C18-F2)
  live : Bool           -- true: `for identity in self.selected_by` over the live set (current tree, C18-F3)
  deriving DecidableEq, Repr

def Variant.current : Variant := ⟨false, true⟩
def Variant.snapshot : Variant := ⟨false, false⟩
def Variant.beforeF2 : Variant := ⟨true, true⟩

inductive Task where
  | widen (p : Pair) (ord : List El)   -- one enabled counter met at an element carrying a usable xsi:type; `ord` =
                          -- the order in which THIS call of update_elements visits the elements of `sel p` (the
                          -- selector's result is a set: the order may differ from call to call)
  | child (e : El)        -- an instance element of declaration `e` reaches `if self.selected_by:`
  deriving DecidableEq, Repr

inductive PC where
  | idle
  | chk (p : Pair) (ord : List El)
  | loopRd (p : Pair) (rest : List El)
  | loopSet (p : Pair) (e : El) (rest : List El)
  | loopAdd (p : Pair) (e : El) (rest : List El)
  | pub (p : Pair)
  | cRd (e : El)
  | cIterNew (e : El)
  | cIter (e : El) (n : Nat) (todo done : List Idn)
  | err                   -- RuntimeError: Set changed size during iteration (escapes from the call)
  deriving DecidableEq, Repr

/-- what a finished `child` task saw: the identities it iterated over; `seen` (ghost) = the pairs whose
    widening this thread had passed before -/
structure Obs where
  e : El
  ids : List Idn
  seen : List Pair
  deriving DecidableEq, Repr

structure Th where
  tasks : List Task
  pc : PC
  seen : List Pair        -- ghost
  obs : List Obs

structure Cfg where
  sh : Sh
  th : Nat → Th

/-- one statement of one thread -/
def stepTh (sch : Sch) (v : Variant) (s : Sh) (th : Th) : Sh × Th :=
  match th.pc with
  | .idle =>
    match th.tasks with
    | [] => (s, th)
    | .widen p ord :: ts => (s, { th with tasks := ts, pc := .chk p ord })
    | .child e :: ts => (s, { th with tasks := ts, pc := .cRd e })
  | .chk p ord =>
    if s.contains (.xsi p) then (s, { th with pc := .idle, seen := p :: th.seen })
    else (s, { th with pc := .loopRd p ord })
  | .loopRd p [] => (s, { th with pc := .pub p })
  | .loopRd p (e :: rest) =>
    if s.contains (.elem (sch.idOf p) e) then
      (s, { th with pc := if v.addInside then .loopRd p rest else .loopAdd p e rest })
    else (s, { th with pc := .loopSet p e rest })
  | .loopSet p e rest => (add (.elem (sch.idOf p) e) s, { th with pc := .loopAdd p e rest })
  | .loopAdd p e rest => (add (.selBy e (sch.idOf p)) s, { th with pc := .loopRd p rest })
  | .pub p => (add (.xsi p) s, { th with pc := .idle, seen := p :: th.seen })
  | .cRd e =>
    if (selOf s e).isEmpty then (s, { th with pc := .idle, obs := th.obs ++ [⟨e, [], th.seen⟩] })
    else (s, { th with pc := .cIterNew e })
  | .cIterNew e => (s, { th with pc := .cIter e (selOf s e).length (selOf s e) [] })
  | .cIter e n todo done =>
    if v.live && (selOf s e).length != n then (s, { th with pc := .err })
    else match todo with
      | [] => (s, { th with pc := .idle, obs := th.obs ++ [⟨e, done, th.seen⟩] })
      | i :: r => (s, { th with pc := .cIter e n r (done ++ [i]) })
  | .err => (s, th)

def step (sch : Sch) (v : Variant) (t : Nat) (c : Cfg) : Cfg :=
  let r := stepTh sch v c.sh (c.th t)
  { sh := r.1, th := upd c.th t r.2 }

def exec (sch : Sch) (v : Variant) : List Nat → Cfg → Cfg
  | [], c => c
  | t :: ts, c => exec sch v ts (step sch v t c)

def initTh (prog : List Task) : Th := { tasks := prog, pc := .idle, seen := [], obs := [] }

def init (s₀ : Sh) (prog : Nat → List Task) : Cfg := { sh := s₀, th := fun t => initTh (prog t) }

/-- every widening of a program visits exactly the elements of `sel p`, in any order -/
def WF (sch : Sch) (prog : Nat → List Task) : Prop :=
  ∀ t p ord, Task.widen p ord ∈ prog t → ∀ e, e ∈ ord ↔ e ∈ sch.sel p

/-- the thread has run its whole program -/
def Th.finished (th : Th) : Bool := th.tasks.isEmpty && th.pc == .idle

end XsVerif.Threads.XW
