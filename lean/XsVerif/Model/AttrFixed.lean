/-
  The fixed-value clause of attribute validation in its two variants (finding C03-F3 and its repair
  notes/fixes/C03-qname-fixed-value-space.patch), next to the definitions of Model/Attributes.lean, which
  stay as they are (C14 reads them).

  `q ty = true` marks the types whose value space depends on the namespace context (xs:QName, xs:NOTATION and
  their restrictions).  In the PATCHED code, for such a type
    * XsdAttribute.raw_decode compares a present value with the fixed value in the value space, with no
      `obj != self.fixed` text short-cut (`_is_fixed_value`, attributes.py);
    * XsdAttributeGroup.raw_decode decodes an INJECTED value constraint (absent attribute) with
      validation='skip': the literal belongs to the schema, nothing about it is an error of the instance.
  `q = fun _ => false` is the code before the patch: `errorsX_eq_errors` (Lemmas/AttrFixed.lean) proves the
  chain below equal to `Attributes.errors` in that case.  The harness detects the variant of the tree under
  test by replaying the C03-F3 witness and passes it to the driver.
  No Mathlib import: linked into `drv_c03`.
-/
import XsVerif.Model.Attributes

namespace XsVerif.Attributes
open XsVerif.Wildcard

/-- `XsdAttribute.raw_decode` with a value: errors.  `inj` = the value is an injected value constraint. -/
def declErrsX (s : Sem) (q : Nat → Bool) (inj : Bool) (d : Decl) (n : QN) (v : String) : List Err :=
  if inj && q d.ty then []
  else
    (match d.fixed with
      | some f => if (q d.ty || v != f) && !s.valueEq d.ty v f then [Err.fixedMismatch n] else []
      | none => [])
    ++ (if s.validT d.ty v then [] else [Err.invalidValue n])

/-- `XsdAnyAttribute.raw_decode` (only attributes of the instance reach the wildcard) -/
def anyErrsX (s : Sem) (q : Nat → Bool) (env : Env) (a : AnyAttr) (n : QN) (v : String) : List Err :=
  (if anyMatches env a n then [] else [Err.wildcardDenied n]) ++
  (if a.pc == .skip then []
   else if env.loaded.contains n.ns then
     match lookup env.globals n with
     | some g => declErrsX s q false g n v
     | none => if a.pc == .strict then [Err.notFound n] else []
   else if a.pc == .strict then [Err.unavailableNs n] else [])

def declaredErrsX (s : Sem) (q : Nat → Bool) (env : Env) (inj : Bool) (G : Group) (d : Decl) (n : QN)
    (v : String) : List Err :=
  if d.use == .prohibited then
    match G.any with
    | some a =>
      if anyMatches env a n then anyErrsX s q env a n v
      else [Err.prohibited n] ++ declErrsX s q inj d n v
    | none => [Err.prohibited n] ++ declErrsX s q inj d n v
  else declErrsX s q inj d n v

def stepErrsX (s : Sem) (q : Nat → Bool) (env : Env) (inj : Bool) (G : Group) (a : Attr) : List Err :=
  match lookup G.decls a.1 with
  | some d => declaredErrsX s q env inj G d a.1 a.2
  | none =>
    if a.1.ns == xsiNs then
      match lookup env.globals a.1 with
      | some g => declErrsX s q false g a.1 a.2
      | none =>
        match G.any with
        | some w => anyErrsX s q env w a.1 a.2
        | none => [Err.notXsi a.1]
    else
      match G.any with
      | some w => anyErrsX s q env w a.1 a.2
      | none => [Err.notAllowed a.1]

/-- all validation errors, in collection order: missing, the attributes of the instance, the injected ones -/
def errorsX (s : Sem) (q : Nat → Bool) (env : Env) (o : Opts) (G : Group) (A : List Attr) : List Err :=
  missing G A ++ A.flatMap (stepErrsX s q env false G) ++ (additional o G A).flatMap (stepErrsX s q env true G)

end XsVerif.Attributes
